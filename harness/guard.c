/*
 * C20 -- bitwise-copied smart pointers are caught before they can double-free.
 *
 * Matrix: object kind {guarded, unique, shared, weak, array} x object state x
 * way of straying {struct assignment, memcpy to another address, relocation
 * (bytes moved to a new address, original storage released)} x every public
 * function that reads/transfers/releases the pointer x argument position.
 * Oracle: the probed call must arrive in the library's abort() (interposed);
 * a normal return, a sanitizer report or a crash is a violation.  Afterwards
 * the original (or, for a relocation, a properly re-initialised object) is
 * exercised and everything is released; no library block may stay live.
 *
 * Pair cells: a struct of two/three smart-pointer members duplicated as a whole (struct assignment / memcpy) to
 * storage at several distances, so that BOTH operands of a two-operand call are strays relocated by the SAME byte
 * distance; two proper objects exchanged by hand (t=a; a=b; b=t) and handed to the library; one stray in both
 * operand positions.  Side effects: between every probed call and its abort no clear callback of the strayed
 * pointer may run and the library may free/realloc nothing but the previous contents of a PROPER destination
 * operand (share/lock/from/slice document that the destination is reset first).
 *
 * Far cells: original and stray copy live in two anonymous page mappings whose distance is an exact power of two or
 * a multiple of 2^32 (+-2^16 .. 2^46, see fard[]): single strays of every kind (empty / owning, main probes) and
 * the pair cells.  A distance the kernel or the sanitizer's layout refuses is counted as skipped, nothing is
 * concluded from it.
 */
#include "vrt.h"
#include "cstl/memory.h"
#include "cstl/array.h"
#include <string.h>
#include <stdio.h>
#include <sys/mman.h>
#ifndef MAP_FIXED_NOREPLACE
#define MAP_FIXED_NOREPLACE 0x100000
#endif

enum { KG, KU, KS, KW, KA, KC /* converse: proper use only, nothing may abort */, NKIND };
static const char *kname[] = { "guarded", "unique", "shared", "weak", "array", "proper-use" };
enum { W_ASSIGN, W_MEMCPY, W_RELOCATE, NWAY };
static const char *wname[] = { "struct-assignment", "memcpy", "relocated" };

/* per kind: states and probes */
static const char *gstate[] = { "empty", "owning" };
static const char *ustate[] = { "empty", "owning", "owning-no-clear-callback" };   /* "owning": clear callback AND priv */
static const char *sstate[] = { "empty", "owning", "shared-with-another", "owning-no-clear-callback" };
static const char *wstate[] = { "empty", "live", "weak-only" };
static const char *astate[] = { "empty", "whole", "slice", "external" };

enum { G_GET, G_GET_CONST, G_COPY_SRC, G_SWAP_A, G_SWAP_B, NG };
static const char *gprobe[] = { "get", "get_const", "copy.src", "swap.a", "swap.b" };
enum { U_GET, U_GET_CONST, U_RELEASE, U_SWAP_A, U_SWAP_B, U_RESET, U_ALLOC, U_ALLOC_ZERO, NU_ };
static const char *uprobe[] = { "get", "get_const", "release", "swap.a", "swap.b", "reset", "alloc", "alloc.zero-size" };
enum { S_GET, S_GET_CONST, S_UNIQUE, S_SHARE_SRC, S_SHARE_DST, S_SWAP_A, S_SWAP_B, S_RESET, S_ALLOC, S_WEAK_FROM_SP, S_LOCK_SP,
       S_SHARE_DST_COPY_OF_SRC, S_SHARE_DST_COPY_OF_COOWNER, S_SHARE_DST_EMPTY_SRC, S_LOCK_SP_SAME_BLOCK, S_ALLOC_ZERO, NS_ };
static const char *sprobe[] = { "get", "get_const", "unique", "share.src", "share.dst", "swap.a", "swap.b", "reset", "alloc",
                                "weak_from.sp", "weak_lock.sp", "share.dst-is-copy-of-src", "share.dst-is-copy-of-coowner",
                                "share.dst.src-empty", "weak_lock.sp-refers-to-same-block", "alloc.zero-size" };
enum { WP_FROM_WP, WP_LOCK_WP, WP_SWAP_A, WP_SWAP_B, WP_RESET, WP_FROM_WP_SAME_BLOCK, NW_ };
static const char *wprobe[] = { "from.wp", "lock.wp", "swap.a", "swap.b", "reset", "from.wp-already-refers-to-sp-block" };
enum { A_ALLOC, A_SET, A_RELEASE, A_DATA, A_DATA_CONST, A_AT, A_AT_CONST, A_SLICE_A, A_SLICE_S, A_SLICE_INPLACE,
       A_UNSLICE_S, A_UNSLICE_A, A_UNSLICE_INPLACE, A_RESET, A_SLICE_S_COPY_OF_A, A_UNSLICE_A_COPY_OF_S,
       A_ALLOC_UNREPRESENTABLE, A_ALLOC_ZERO, A_SET_NULL, NA_ };
static const char *aprobe[] = { "alloc", "set", "release", "data", "data_const", "at", "at_const", "slice.a", "slice.s",
                                "slice.inplace", "unslice.s", "unslice.a", "unslice.inplace", "reset",
                                "slice.s-is-copy-of-a", "unslice.a-is-copy-of-s",
                                "alloc.unrepresentable-size", "alloc.zero-elements", "set.null-buffer" };

enum { PR_ZERO, PR_GARBAGE, PR_ONES, PR_LIVE_OBJECT_BYTES, NPRIOR };
static const char *prior[] = { "zeros", "garbage", "all-ones", "bytes-of-a-live-object" };
/* pair cells (both operands strays of one duplicated struct / hand-exchanged objects / one stray twice) */
enum { GP_SWAP_PAIR, GP_COPY_PAIR, GP_SWAP_SELF, GP_COPY_SELF, GP_SWAP_HAND, NGP };
static const char *gpprobe[] = { "swap.both-strays-of-one-copy", "copy.both-strays-of-one-copy", "swap.same-stray-twice",
                                 "copy.same-stray-twice", "swap.hand-exchanged-objects" };
enum { UP_SWAP_PAIR, UP_SWAP_PAIR_REV, UP_SWAP_SELF, UP_SWAP_HAND, NUP };
static const char *upprobe[] = { "swap.both-strays-of-one-copy", "swap.both-strays-of-one-copy.reversed", "swap.same-stray-twice",
                                 "swap.hand-exchanged-objects" };
enum { SP_SWAP_PAIR, SP_SWAP_SELF, SP_SWAP_HAND, SP_SHARE_PAIR, SP_SHARE_SELF, SP_FROM_PAIR, SP_LOCK_PAIR, NSP };
static const char *spprobe[] = { "swap.both-strays-of-one-copy", "swap.same-stray-twice", "swap.hand-exchanged-objects",
                                 "share.both-strays-of-one-copy", "share.same-stray-twice", "weak_from.both-strays-of-one-copy",
                                 "weak_lock.both-strays-of-one-copy" };
enum { WPP_SWAP_PAIR, WPP_SWAP_SELF, WPP_SWAP_HAND, WPP_FROM_PAIR, WPP_LOCK_PAIR, NWPP };
static const char *wpprobe[] = { "swap.both-strays-of-one-copy", "swap.same-stray-twice", "swap.hand-exchanged-objects",
                                 "from.both-strays-of-one-copy", "lock.both-strays-of-one-copy" };
enum { AP_SLICE_PAIR, AP_UNSLICE_PAIR, AP_UNSLICE_PAIR_REV, AP_SLICE_HAND, NAP };
static const char *approbe[] = { "slice.both-strays-of-one-copy", "unslice.both-strays-of-one-copy",
                                 "unslice.both-strays-of-one-copy.reversed", "slice.hand-exchanged-objects" };
/* where the duplicate (or the second hand-exchanged object) lives relative to the original */
enum { PL_ADJ_AFTER, PL_ADJ_BEFORE, PL_4K_ALIGNED, PL_4K_STRADDLE, PL_4K_DOWN, PL_256, PL_ODD, PL_OWN_BLOCK, NPL, PL_FAR = NPL };
static const char *plname[] = { "adjacent-after", "adjacent-before-unaligned", "4KiB-up-from-8KiB-aligned", "4KiB-up-straddling-a-4KiB-boundary",
                                "4KiB-down", "256B-up-aligned", "odd-distance-4136B", "separate-allocation",
                                "far-page-mapping-at-a-round-distance" };

struct cell { int kind, state, way, probe, pl /* -1: classic cell */, far /* -1: ordinary storage, else index into fard[] */; };
static struct cell cells[8192];

/* far placements: copy - original = (neg ? -1 : 1) * mul * 2^shift bytes, exactly */
static const struct fard { const char *name; int shift, mul, neg; } fard[] = {
    { "plus-2pow16", 16, 1, 0 }, { "minus-2pow16", 16, 1, 1 }, { "plus-2pow20", 20, 1, 0 }, { "minus-2pow20", 20, 1, 1 },
    { "plus-2pow31", 31, 1, 0 }, { "minus-2pow31", 31, 1, 1 }, { "plus-2pow32", 32, 1, 0 }, { "minus-2pow32", 32, 1, 1 },
    { "plus-3x2pow32", 32, 3, 0 }, { "plus-2pow33", 33, 1, 0 }, { "plus-2pow36", 36, 1, 0 }, { "plus-2pow40", 40, 1, 0 },
    { "plus-2pow44", 44, 1, 0 }, { "plus-2pow46", 46, 1, 0 },
};
#define NFAR ((int)(sizeof(fard) / sizeof(fard[0])))
/* the probes of the classic cells that are repeated at every far distance (bit = probe index) */
#define BIT(x) (1u << (x))
static const unsigned farprobes[NKIND] = {
    /* guarded */ BIT(G_GET) | BIT(G_GET_CONST) | BIT(G_COPY_SRC) | BIT(G_SWAP_A) | BIT(G_SWAP_B),
    /* unique */ BIT(U_GET) | BIT(U_RELEASE) | BIT(U_SWAP_A) | BIT(U_SWAP_B) | BIT(U_RESET) | BIT(U_ALLOC),
    /* shared */ BIT(S_GET) | BIT(S_UNIQUE) | BIT(S_SHARE_SRC) | BIT(S_SHARE_DST) | BIT(S_SWAP_A) | BIT(S_SWAP_B) | BIT(S_RESET) | BIT(S_ALLOC)
                 | BIT(S_WEAK_FROM_SP) | BIT(S_LOCK_SP),
    /* weak */ BIT(WP_FROM_WP) | BIT(WP_LOCK_WP) | BIT(WP_SWAP_A) | BIT(WP_SWAP_B) | BIT(WP_RESET),
    /* array */ BIT(A_ALLOC) | BIT(A_SET) | BIT(A_RELEASE) | BIT(A_DATA) | BIT(A_AT) | BIT(A_SLICE_A) | BIT(A_SLICE_S) | BIT(A_UNSLICE_S)
                | BIT(A_UNSLICE_A) | BIT(A_RESET),
    0 };
static int ncell;

static void build_cells(void)
{
    int s, w, p, q;
    ncell = 0;
#define ADD(K, NSTATE, NPROBE) for (s = 0; s < NSTATE; s++) for (w = 0; w < NWAY; w++) for (p = 0; p < NPROBE; p++) { \
        cells[ncell].kind = K; cells[ncell].state = s; cells[ncell].way = w; cells[ncell].probe = p; cells[ncell].pl = -1; cells[ncell].far = -1; ncell++; }
    ADD(KG, 2, NG) ADD(KU, 3, NU_) ADD(KS, 4, NS_) ADD(KW, 3, NW_) ADD(KA, 4, NA_)
    /* converse cells: state = what the storage held before (NPRIOR), way = variant, probe = object kind */
    ADD(KC, NPRIOR, 5)
#undef ADD
    /* pair cells: way = struct assignment / memcpy only (the original must stay usable) */
#define ADDP(K, STATE0, NSTATE, NPROBE) for (s = STATE0; s < NSTATE; s++) for (w = 0; w < 2; w++) for (q = 0; q < NPL; q++) for (p = 0; p < NPROBE; p++) { \
        cells[ncell].kind = K; cells[ncell].state = s; cells[ncell].way = w; cells[ncell].probe = p; cells[ncell].pl = q; cells[ncell].far = -1; ncell++; }
    ADDP(KG, 0, 2, NGP) ADDP(KU, 0, 3, NUP) ADDP(KS, 0, 4, NSP) ADDP(KW, 0, 3, NWPP) ADDP(KA, 1, 4, NAP)
#undef ADDP
    /* far cells (bytes copied by memcpy; states empty and owning / live / whole): single strays, then pair cells */
#define ADDF(K, NPROBE) for (s = 0; s < 2; s++) for (q = 0; q < NFAR; q++) for (p = 0; p < NPROBE; p++) if (farprobes[K] & BIT(p)) { \
        if (K == KA && s == 0 && p == A_AT) continue; \
        cells[ncell].kind = K; cells[ncell].state = s; cells[ncell].way = W_MEMCPY; cells[ncell].probe = p; cells[ncell].pl = -1; cells[ncell].far = q; ncell++; }
    ADDF(KG, NG) ADDF(KU, NU_) ADDF(KS, NS_) ADDF(KW, NW_) ADDF(KA, NA_)
#undef ADDF
#define ADDFP(K, STATE0, NPROBE) for (s = STATE0; s < 2; s++) for (q = 0; q < NFAR; q++) for (p = 0; p < NPROBE; p++) { \
        cells[ncell].kind = K; cells[ncell].state = s; cells[ncell].way = W_MEMCPY; cells[ncell].probe = p; cells[ncell].pl = PL_FAR; cells[ncell].far = q; ncell++; }
    ADDFP(KG, 0, NGP) ADDFP(KU, 0, NUP) ADDFP(KS, 0, NSP) ADDFP(KW, 0, NWPP) ADDFP(KA, 1, NAP)
#undef ADDFP
}

/* clr_cb is the clear callback of every pointer that gets a stray copy (and of the converse cells); a proper
 * DESTINATION operand that owns something of its own uses clr_proper, so that the two can be told apart. */
static uint64_t cb_calls, cb_mark;
static void clr_cb(void *mem, void *priv)
{
    cb_calls++;
    if (priv != NULL) ++*(uint64_t *)priv;
    if (mem != NULL) memset(mem, 0xa5, 8);
    VRT_COUNT("clear-callbacks");
}
static void clr_proper(void *mem, void *priv) { (void)priv; if (mem != NULL) memset(mem, 0xa5, 8); VRT_COUNT("clear-callbacks.proper-destination"); }
/* blocks that a probed call may legitimately release before it aborts: the previous contents of a proper
 * destination operand, which share/lock/from/slice are documented to reset first */
static void *tol[4];
static int ntol;
static void tolerate(void *p) { if (p != NULL && ntol < 4) tol[ntol++] = p; }
/* open the observation window directly in front of the probed call */
static void watch(void) { cb_mark = cb_calls; vrt_ev_begin(); }

/* ---------------- far placements: two page mappings at an exact round distance ---------------- */
#define FARLEN 8192u
static struct { int on; unsigned char *lo, *hi; void *orig, *copy; } fm;
static void far_unmap(void)
{
    if (!fm.on) return;
    munmap(fm.lo, FARLEN); munmap(fm.hi, FARLEN);
    fm.on = 0;
}
static unsigned char *far_page(uintptr_t at)
{
    void *p = mmap((void *)at, FARLEN, PROT_READ | PROT_WRITE, MAP_PRIVATE | MAP_ANONYMOUS | MAP_FIXED_NOREPLACE, -1, 0);
    if (p == MAP_FAILED) return NULL;
    if ((uintptr_t)p != at) { munmap(p, FARLEN); return NULL; }   /* a kernel that took the address as a mere hint */
    return p;
}
/* Map two garbage-filled 8 KiB windows whose distance is exactly the one of fard[f]; the original will live `off`
 * bytes into one, the copy `off` bytes into the other.  The upper window goes where the kernel would put a fresh
 * mapping (minus a few deterministic steps on retry), the lower one the wanted distance below it.  Returns 0 when
 * no hint worked: the caller counts the distance as skipped. */
static int far_map(int f, size_t off)
{
    const uintptr_t d = (uintptr_t)fard[f].mul << fard[f].shift;
    int t;
    fm.on = 0;
    for (t = 0; t < 6; t++) {
        uintptr_t hi, lo;
        void *probe = mmap(NULL, FARLEN, PROT_NONE, MAP_PRIVATE | MAP_ANONYMOUS | MAP_NORESERVE, -1, 0);
        if (probe == MAP_FAILED) break;
        munmap(probe, FARLEN);
        hi = (uintptr_t)probe - (uintptr_t)t * (((uintptr_t)1 << 34) + ((uintptr_t)1 << 21));
        if (hi <= d + ((uintptr_t)1 << 20) || hi > (uintptr_t)probe) { VRT_COUNT("far.hints-below-the-address-space"); continue; }
        lo = hi - d;
        if ((fm.hi = far_page(hi)) == NULL) { VRT_COUNT("far.hints-refused"); continue; }
        if ((fm.lo = far_page(lo)) == NULL) { munmap(fm.hi, FARLEN); VRT_COUNT("far.hints-refused"); continue; }
        memset(fm.lo, 0x5a, FARLEN); memset(fm.hi, 0x5a, FARLEN);
        fm.orig = (fard[f].neg ? fm.hi : fm.lo) + off;
        fm.copy = (fard[f].neg ? fm.lo : fm.hi) + off;
        /* the whole point: the distance is exact */
        VRT_CHECK((uintptr_t)fm.copy - (uintptr_t)fm.orig == (fard[f].neg ? (uintptr_t)0 - d : d), "guard.harness.far-distance-wrong", "far placement %s not at its distance", fard[f].name);
        fm.on = 1;
        return 1;
    }
    return 0;
}
static int in_far(const void *p)
{
    const unsigned char *q = p;
    return fm.on && ((q >= fm.lo && q < fm.lo + FARLEN) || (q >= fm.hi && q < fm.hi + FARLEN));
}
/* storage of the object that is going to be copied, and its release (far windows are unmapped at the end of the case) */
static void *obj_new(size_t n) { if (fm.on) { VRT_CHECK(n <= 256, "guard.harness.far-object-too-large", "object of %zu bytes", n); return fm.orig; } return vrt_alloc(n); }
static void obj_free(void *p) { if (!in_far(p)) vrt_free(p); }

/* make the stray copy of an object of size n living at *orig.  Returns the stray object's address.
 * W_RELOCATE: the bytes are moved to new storage and the old storage is released (so *orig becomes NULL). */
static void *stray(void **orig, size_t n, int way)
{
    void *c = fm.on ? fm.copy : vrt_alloc(n);
    switch (way) {
    case W_ASSIGN: {
        /* struct assignment of each kind is a plain bytewise copy; done per kind below would be identical */
        size_t i;
        for (i = 0; i < n; i++) ((volatile unsigned char *)c)[i] = ((unsigned char *)*orig)[i];
        break;
    }
    case W_MEMCPY:
        memcpy(c, *orig, n);
        break;
    default:
        memmove(c, *orig, n);
        memset(*orig, 0xdd, n);
        obj_free(*orig);
        *orig = NULL;
        break;
    }
    return c;
}

static void must_abort(int aborted, const struct cell *c, const char *st, const char *pr)
{
    char key[160];
    int i, n, j, nfree = 0;
    if (!aborted) {
        snprintf(key, sizeof(key), "guard.stray-copy-not-caught.%s.%s.%s%s%s", kname[c->kind], pr, st, c->far >= 0 ? ".copy-at-" : "", c->far >= 0 ? fard[c->far].name : "");
        vrt_fail(key, "%s %s (%s) through a %s copy%s%s%s%s returned normally instead of aborting", kname[c->kind], pr, st, wname[c->way],
                 c->pl >= 0 ? " placed " : "", c->pl >= 0 ? plname[c->pl] : "", c->far >= 0 ? ", copy minus original = " : "", c->far >= 0 ? fard[c->far].name : "");
    }
    /* nothing may have happened between the call and the abort */
    n = vrt_ev_n(); if (n > VRT_EV_MAX) n = VRT_EV_MAX;
    for (i = 0; i < n; i++) {
        const struct vrt_aev *e = vrt_ev(i);
        if ((e->kind != 'f' && e->kind != 'r') || e->p == NULL) continue;
        for (j = 0; j < ntol && tol[j] != e->p; j++) ;
        if (j < ntol) VRT_COUNT("side-effects.tolerated-release-of-a-proper-destination"); else nfree++;
    }
    if (nfree != 0 || cb_calls != cb_mark) {
        snprintf(key, sizeof(key), "guard.stray-copy-side-effect-before-abort.%s.%s.%s%s%s", kname[c->kind], pr, st, c->far >= 0 ? ".copy-at-" : "", c->far >= 0 ? fard[c->far].name : "");
        vrt_fail(key, "%s %s (%s) through a %s copy aborted, but only after %d clear callback(s) on the strayed pointer's memory and "
                 "%d free/realloc of blocks that are not the proper destination's", kname[c->kind], pr, st, wname[c->way],
                 (int)(cb_calls - cb_mark), nfree);
    }
    ntol = 0;
    VRT_COUNT("cells.aborted-as-required");
    VRT_COUNT("side-effects.aborting-calls-observed-clean");
    if (c->far >= 0) {
        snprintf(key, sizeof(key), "far.%saborted-as-required.%s", c->pl >= 0 ? "pair." : "", fard[c->far].name);
        vrt_count_dyn(key, 1);
        VRT_COUNT("far.aborted-as-required");
    }
}

/* ---------------- converse: proper use never aborts ---------------- */
/* Storage that is about to become an object holds: zeros, 0x5a garbage, all-ones, or the bytes of a live,
 * owning object of the same kind that lives elsewhere (re-used storage; the documented way to make such
 * storage an object is the init function, and for the guarded pointer also set and copy, which "overwrite /
 * (re)initialise the destination regardless of its current state").  From then on the object is moved with
 * the provided functions only; every call must return normally and give the right answer. */
static const struct cell *conv_cell;
static void conv_fail(const char *step)
{
    char key[160];
    snprintf(key, sizeof(key), "guard.proper-use-aborted.%s.%s.storage-held-%s", kname[conv_cell->probe], step, prior[conv_cell->state]);
    vrt_fail(key, "%s: %s aborted although every object was initialised and moved with the library's own functions "
             "(storage previously held %s, variant %d)", kname[conv_cell->probe], step, prior[conv_cell->state], conv_cell->way);
}
#define MUST_NOT(stmt, step) do { VRT_OP0("proper-use." step, ""); if (VRT_ABORTS(stmt)) conv_fail(step); VRT_COUNT("proper-use.calls-returned-normally"); } while (0)

/* storage of n bytes in the given prior state; live = bytes of a live object of the same kind */
static void *storage(size_t n, int pr, const void *live)
{
    unsigned char *p = vrt_alloc(n);
    switch (pr) {
    case PR_ZERO: memset(p, 0, n); break;
    case PR_GARBAGE: memset(p, 0x5a, n); break;
    case PR_ONES: memset(p, 0xff, n); break;
    default: memcpy(p, live, n); break;
    }
    return p;
}

static void cell_converse(const struct cell *c)
{
    const int pr = c->state, v = c->way;
    conv_cell = c;
    vrt_state(prior[pr]);
    switch (c->probe) {
    case KG: {
        struct cstl_guarded_ptr *live = vrt_alloc(sizeof(*live)), *d, *d2, *src = vrt_alloc(sizeof(*src));
        void *blk = vrt_alloc(16), *blk2 = vrt_alloc(16), *volatile got = NULL;
        cstl_guarded_ptr_set(live, blk2);
        cstl_guarded_ptr_set(src, blk);
        d = storage(sizeof(*d), pr, live); d2 = storage(sizeof(*d2), pr, live);
        {
            /* re-seating after a bytewise relocation: the destination holds the bytes of the very object that is copied
             * into it (same pointer value, foreign self), and an EMPTY pointer copied over zeroed storage (same pointer
             * value NULL): "the destination is (re)initialised regardless of its current state" */
            struct cstl_guarded_ptr *r = vrt_alloc(sizeof(*r)), *e0 = vrt_alloc(sizeof(*e0)), *z = vrt_alloc(sizeof(*z));
            void *volatile g2 = NULL;
            memcpy(r, src, sizeof(*r));
            MUST_NOT(cstl_guarded_ptr_copy(r, src), "guarded.copy-to-relocated-bytes-of-the-source");
            MUST_NOT(g2 = cstl_guarded_ptr_get(r), "guarded.get-after-reseating");
            VRT_CHECK(g2 == blk, "guard.proper-use-wrong.guarded.reseat", "get after re-seating yields another pointer");
            cstl_guarded_ptr_init(e0);
            memset(z, 0, sizeof(*z));
            MUST_NOT(cstl_guarded_ptr_copy(z, e0), "guarded.copy-empty-to-zeroed-storage");
            MUST_NOT(g2 = cstl_guarded_ptr_get(z), "guarded.get-after-copy-of-empty");
            VRT_CHECK(g2 == NULL, "guard.proper-use-wrong.guarded.copy-empty", "copy of an empty pointer is not empty");
            memcpy(z, e0, sizeof(*z));
            MUST_NOT(cstl_guarded_ptr_copy(z, e0), "guarded.copy-empty-to-relocated-bytes");
            MUST_NOT((void)cstl_guarded_ptr_get_const(z), "guarded.get-after-copy-of-empty");
            vrt_free(r); vrt_free(e0); vrt_free(z);
        }
        switch (v) {
        case 0: MUST_NOT(cstl_guarded_ptr_init(d), "guarded.init"); MUST_NOT(cstl_guarded_ptr_set(d, blk), "guarded.set"); break;
        case 1: MUST_NOT(cstl_guarded_ptr_set(d, blk), "guarded.set-on-raw-storage"); break;
        default: MUST_NOT(cstl_guarded_ptr_copy(d, src), "guarded.copy-to-raw-storage"); break;
        }
        MUST_NOT(got = cstl_guarded_ptr_get(d), "guarded.get");
        VRT_CHECK(got == blk, "guard.proper-use-wrong.guarded.get", "get after init/set/copy yields another pointer");
        MUST_NOT(cstl_guarded_ptr_copy(d2, d), "guarded.copy-to-raw-storage");
        MUST_NOT(got = (void *)cstl_guarded_ptr_get_const(d2), "guarded.get_const");
        VRT_CHECK(got == blk, "guard.proper-use-wrong.guarded.copy", "the copy yields another pointer");
        /* copy over an initialised, occupied destination */
        MUST_NOT(cstl_guarded_ptr_copy(d2, live), "guarded.copy-to-occupied");
        MUST_NOT(cstl_guarded_ptr_swap(d, d2), "guarded.swap");
        MUST_NOT(got = cstl_guarded_ptr_get(d), "guarded.get");
        VRT_CHECK(got == blk2 && cstl_guarded_ptr_get(d2) == blk, "guard.proper-use-wrong.guarded.swap", "swap did not exchange the pointers");
        MUST_NOT(cstl_guarded_ptr_init(d), "guarded.init-occupied");
        VRT_CHECK(cstl_guarded_ptr_get(d) == NULL && cstl_guarded_ptr_get(live) == blk2 && cstl_guarded_ptr_get(src) == blk,
                  "guard.proper-use-wrong.guarded.originals", "the other objects changed");
        vrt_free(blk); vrt_free(blk2); vrt_free(live); vrt_free(src); vrt_free(d); vrt_free(d2);
        break;
    }
    case KU: {
        cstl_unique_ptr_t *live = vrt_alloc(sizeof(*live)), *d, *d2;
        void *volatile got = NULL; void *m1;
        cstl_unique_ptr_init(live); cstl_unique_ptr_alloc(live, 24, clr_cb, NULL);
        d = storage(sizeof(*d), pr, live); d2 = storage(sizeof(*d2), pr, live);
        MUST_NOT(cstl_unique_ptr_init(d), "unique.init"); MUST_NOT(cstl_unique_ptr_init(d2), "unique.init");
        MUST_NOT(got = cstl_unique_ptr_get(d), "unique.get");
        VRT_CHECK(got == NULL, "guard.proper-use-wrong.unique.init", "a freshly initialised unique pointer is not empty");
        if (v != 1) MUST_NOT(cstl_unique_ptr_alloc(d, 32, clr_cb, NULL), "unique.alloc");
        m1 = cstl_unique_ptr_get(d);
        MUST_NOT(cstl_unique_ptr_swap(d, d2), "unique.swap");
        MUST_NOT(got = cstl_unique_ptr_get(d2), "unique.get");
        VRT_CHECK(got == m1 && cstl_unique_ptr_get(d) == NULL, "guard.proper-use-wrong.unique.swap", "swap did not exchange");
        if (v == 2) { cstl_xtor_func_t *clr = NULL; void *pv = NULL; MUST_NOT(got = cstl_unique_ptr_release(d2, &clr, &pv), "unique.release");
                      VRT_CHECK(got == m1, "guard.proper-use-wrong.unique.release", "release yields another pointer"); if (got) vrt_lib_free_block(got); }
        MUST_NOT(cstl_unique_ptr_reset(d2), "unique.reset"); MUST_NOT(cstl_unique_ptr_reset(d), "unique.reset");
        VRT_CHECK(cstl_unique_ptr_get(live) != NULL, "guard.proper-use-wrong.unique.originals", "the other object changed");
        cstl_unique_ptr_reset(live);
        VRT_CHECK(vrt_lib_live() == 0, "guard.proper-use-wrong.unique.leak", "%zu library blocks live", vrt_lib_live());
        vrt_free(live); vrt_free(d); vrt_free(d2);
        break;
    }
    case KS: case KW: {
        cstl_shared_ptr_t *live = vrt_alloc(sizeof(*live)), *d, *d2, *d3;
        cstl_weak_ptr_t *w, *w2;
        void *volatile got = NULL; void *m1; volatile int un = 0;
        cstl_shared_ptr_init(live); cstl_shared_ptr_alloc(live, 24, clr_cb);
        d = storage(sizeof(*d), pr, live); d2 = storage(sizeof(*d2), pr, live); d3 = storage(sizeof(*d3), pr, live);
        w = storage(sizeof(*w), pr, live); w2 = storage(sizeof(*w2), pr, live);
        MUST_NOT(cstl_shared_ptr_init(d), "shared.init"); MUST_NOT(cstl_shared_ptr_init(d2), "shared.init"); MUST_NOT(cstl_shared_ptr_init(d3), "shared.init");
        MUST_NOT(cstl_weak_ptr_init(w), "weak.init"); MUST_NOT(cstl_weak_ptr_init(w2), "weak.init");
        MUST_NOT(got = cstl_shared_ptr_get(d), "shared.get");
        VRT_CHECK(got == NULL, "guard.proper-use-wrong.shared.init", "a freshly initialised shared pointer is not empty");
        if (v != 1) MUST_NOT(cstl_shared_ptr_alloc(d, 32, clr_cb), "shared.alloc");
        m1 = cstl_shared_ptr_get(d);
        MUST_NOT(cstl_shared_ptr_share(d, d2), "shared.share");
        MUST_NOT(cstl_shared_ptr_share(live, d3), "shared.share");
        MUST_NOT(cstl_shared_ptr_swap(d2, d3), "shared.swap");           /* d3: m1, d2: live's */
        MUST_NOT(un = cstl_shared_ptr_unique(d), "shared.unique");
        VRT_CHECK(cstl_shared_ptr_get(d3) == m1 && cstl_shared_ptr_get(d2) == cstl_shared_ptr_get(live) && (m1 == NULL || !un),
                  "guard.proper-use-wrong.shared.share-swap", "share/swap/unique results are wrong");
        MUST_NOT(cstl_weak_ptr_from(w, d), "weak.from");
        MUST_NOT(cstl_weak_ptr_from(w2, live), "weak.from");
        MUST_NOT(cstl_weak_ptr_swap(w, w2), "weak.swap");                /* w: live's, w2: m1 */
        MUST_NOT(cstl_weak_ptr_from(w, d), "weak.from-occupied");        /* w: m1 */
        MUST_NOT(cstl_shared_ptr_reset(d2), "shared.reset");
        MUST_NOT(cstl_weak_ptr_lock(w2, d2), "weak.lock");
        VRT_CHECK(cstl_shared_ptr_get(d2) == m1, "guard.proper-use-wrong.weak.lock", "lock yields another allocation");
        if (v == 2) {   /* weak-only, then expired lock */
            MUST_NOT(cstl_shared_ptr_reset(d), "shared.reset"); MUST_NOT(cstl_shared_ptr_reset(d2), "shared.reset"); MUST_NOT(cstl_shared_ptr_reset(d3), "shared.reset");
            MUST_NOT(cstl_weak_ptr_lock(w, d), "weak.lock-expired");
            VRT_CHECK(cstl_shared_ptr_get(d) == NULL, "guard.proper-use-wrong.weak.lock-expired", "lock of an expired weak pointer yields memory");
        }
        MUST_NOT(cstl_weak_ptr_reset(w), "weak.reset"); MUST_NOT(cstl_weak_ptr_reset(w2), "weak.reset");
        MUST_NOT(cstl_shared_ptr_reset(d), "shared.reset"); MUST_NOT(cstl_shared_ptr_reset(d2), "shared.reset"); MUST_NOT(cstl_shared_ptr_reset(d3), "shared.reset");
        VRT_CHECK(cstl_shared_ptr_get(live) != NULL && cstl_shared_ptr_unique(live), "guard.proper-use-wrong.shared.originals", "the other object changed");
        cstl_shared_ptr_reset(live);
        VRT_CHECK(vrt_lib_live() == 0, "guard.proper-use-wrong.shared.leak", "%zu library blocks live", vrt_lib_live());
        vrt_free(live); vrt_free(d); vrt_free(d2); vrt_free(d3); vrt_free(w); vrt_free(w2);
        break;
    }
    default: {
        cstl_array_t *live = vrt_alloc(sizeof(*live)), *d, *d2, *d3;
        void *ext = vrt_alloc(5 * 8), *rel = NULL;
        volatile size_t sz = 0; void *volatile got = NULL;
        cstl_array_init(live); cstl_array_alloc(live, 3, 8);
        d = storage(sizeof(*d), pr, live); d2 = storage(sizeof(*d2), pr, live); d3 = storage(sizeof(*d3), pr, live);
        MUST_NOT(cstl_array_init(d), "array.init"); MUST_NOT(cstl_array_init(d2), "array.init"); MUST_NOT(cstl_array_init(d3), "array.init");
        MUST_NOT(sz = cstl_array_size(d), "array.size");
        VRT_CHECK(sz == 0, "guard.proper-use-wrong.array.init", "a freshly initialised array is not empty");
        if (v == 1) MUST_NOT(cstl_array_set(d, ext, 5, 8), "array.set"); else MUST_NOT(cstl_array_alloc(d, 5, 8), "array.alloc");
        MUST_NOT(cstl_array_slice(d, 1, 4, d2), "array.slice");
        MUST_NOT(cstl_array_slice(d2, 1, 2, d2), "array.slice-in-place");
        MUST_NOT(cstl_array_unslice(d2, d3), "array.unslice");
        MUST_NOT(got = cstl_array_at(d2, 0), "array.at");
        VRT_CHECK(got == (char *)cstl_array_data(d) + 2 * 8 && cstl_array_size(d3) == 5, "guard.proper-use-wrong.array.slice", "slice/unslice results are wrong");
        MUST_NOT(cstl_array_slice(live, 0, 1, d3), "array.slice-to-occupied");
        if (v == 2) { MUST_NOT(cstl_array_alloc(d2, 2, 8), "array.alloc-occupied"); }
        MUST_NOT(cstl_array_reset(d2), "array.reset"); MUST_NOT(cstl_array_reset(d3), "array.reset");
        if (v == 1) { MUST_NOT(cstl_array_release(d, &rel), "array.release"); VRT_CHECK(rel == ext, "guard.proper-use-wrong.array.release", "release did not hand the buffer back"); }
        MUST_NOT(cstl_array_reset(d), "array.reset");
        VRT_CHECK(cstl_array_size(live) == 3, "guard.proper-use-wrong.array.originals", "the other object changed");
        cstl_array_reset(live);
        VRT_CHECK(vrt_lib_live() == 0, "guard.proper-use-wrong.array.leak", "%zu library blocks live", vrt_lib_live());
        vrt_free(ext); vrt_free(live); vrt_free(d); vrt_free(d2); vrt_free(d3);
        break;
    }
    }
    VRT_COUNT("proper-use.cells");
}

/* ---------------- guarded ---------------- */
static void cell_guarded(const struct cell *c)
{
    struct cstl_guarded_ptr *o = obj_new(sizeof(*o)), *x, *other = vrt_alloc(sizeof(*other));
    void *blk = vrt_alloc(16);
    int ab;
    void *ov = o;
    cstl_guarded_ptr_init(o); cstl_guarded_ptr_init(other);
    if (c->state == 1) cstl_guarded_ptr_set(o, blk);
    x = stray(&ov, sizeof(*o), c->way); o = ov;
    vrt_state(gstate[c->state]);
    VRT_OP2("guarded_ptr.probe", "probe %ld way %ld", c->probe, c->way);
    watch();
    switch (c->probe) {
    case G_GET: ab = VRT_ABORTS((void)cstl_guarded_ptr_get(x)); break;
    case G_GET_CONST: ab = VRT_ABORTS((void)cstl_guarded_ptr_get_const(x)); break;
    case G_COPY_SRC: ab = VRT_ABORTS(cstl_guarded_ptr_copy(other, x)); break;
    case G_SWAP_A: ab = VRT_ABORTS(cstl_guarded_ptr_swap(x, other)); break;
    default: ab = VRT_ABORTS(cstl_guarded_ptr_swap(other, x)); break;
    }
    must_abort(ab, c, gstate[c->state], gprobe[c->probe]);
    if (o != NULL) {
        VRT_OP0("guarded_ptr.get", "original after the stray probe");
        VRT_CHECK(cstl_guarded_ptr_get(o) == (c->state == 1 ? blk : NULL), "guard.original-broken.guarded", "original guarded pointer changed");
        VRT_COUNT("originals-exercised");
    }
    VRT_CHECK(cstl_guarded_ptr_get(other) == NULL, "guard.proper-argument-changed.guarded", "the proper argument was modified before the abort");
    vrt_free(blk); obj_free(x); vrt_free(other); if (o) obj_free(o);
}

/* ---------------- unique ---------------- */
static void cell_unique(const struct cell *c)
{
    cstl_unique_ptr_t *o = obj_new(sizeof(*o)), *x, *other = vrt_alloc(sizeof(*other));
    void *ov = o, *mem = NULL;
    uint64_t *pv = vrt_zalloc(sizeof(*pv));      /* priv of the clear callback: counts its calls */
    int ab;
    cstl_unique_ptr_init(o); cstl_unique_ptr_init(other);
    if (c->state == 1) { cstl_unique_ptr_alloc(o, 32, clr_cb, pv); VRT_COUNT("side-effects.strays-with-clear-callback-and-priv"); }
    if (c->state == 2) { cstl_unique_ptr_alloc(o, 32, NULL, NULL); VRT_COUNT("side-effects.strays-without-clear-callback"); }
    mem = cstl_unique_ptr_get(o);
    x = stray(&ov, sizeof(*o), c->way); o = ov;
    vrt_state(ustate[c->state]);
    VRT_OP2("unique_ptr.probe", "probe %ld way %ld", c->probe, c->way);
    watch();
    switch (c->probe) {
    case U_GET: ab = VRT_ABORTS((void)cstl_unique_ptr_get(x)); break;
    case U_GET_CONST: ab = VRT_ABORTS((void)cstl_unique_ptr_get_const(x)); break;
    case U_RELEASE: ab = VRT_ABORTS((void)cstl_unique_ptr_release(x, NULL, NULL)); break;
    case U_SWAP_A: ab = VRT_ABORTS(cstl_unique_ptr_swap(x, other)); break;
    case U_SWAP_B: ab = VRT_ABORTS(cstl_unique_ptr_swap(other, x)); break;
    case U_RESET: ab = VRT_ABORTS(cstl_unique_ptr_reset(x)); break;
    case U_ALLOC: ab = VRT_ABORTS(cstl_unique_ptr_alloc(x, 8, NULL, NULL)); break;
    default: ab = VRT_ABORTS(cstl_unique_ptr_alloc(x, 0, NULL, NULL)); break;
    }
    must_abort(ab, c, ustate[c->state], uprobe[c->probe]);
    VRT_OP0("unique_ptr.reset", "original / proper objects after the stray probe");
    if (o != NULL) {
        VRT_CHECK(cstl_unique_ptr_get(o) == mem, "guard.original-broken.unique", "original unique pointer changed");
        cstl_unique_ptr_reset(o);
        VRT_CHECK(*pv == (c->state == 1 ? 1u : 0u), "guard.original-broken.unique.clear-callback",
                  "resetting the original after the probe ran its clear callback %lu times with its priv", (unsigned long)*pv);
        VRT_COUNT("originals-exercised");
    } else if (mem != NULL) {
        /* relocated: nobody can legitimately reach the block any more; release it from the harness */
        vrt_lib_free_block(mem);
    }
    cstl_unique_ptr_reset(other);
    VRT_CHECK(vrt_lib_live() == 0, "guard.leak-or-early-free.unique", "%zu library blocks live after releasing the originals", vrt_lib_live());
    obj_free(x); vrt_free(other); vrt_free(pv); if (o) obj_free(o);
}

/* ---------------- shared / weak ---------------- */
static void release_blocks_of_relocated(void)
{
    /* after a relocation the counted reference is unreachable; drop whatever is left */
    vrt_lib_forget_all();
}

static void cell_shared(const struct cell *c)
{
    cstl_shared_ptr_t *o = obj_new(sizeof(*o)), *x, *other = vrt_alloc(sizeof(*other)), *co = vrt_alloc(sizeof(*co));
    cstl_weak_ptr_t *wk = vrt_alloc(sizeof(*wk));
    void *ov = o, *mem = NULL;
    int ab;
    cstl_shared_ptr_init(o); cstl_shared_ptr_init(other); cstl_shared_ptr_init(co); cstl_weak_ptr_init(wk);
    if (c->state >= 1) {
        cstl_shared_ptr_alloc(o, 32, c->state == 3 ? NULL : clr_cb); mem = cstl_shared_ptr_get(o);
        if (mem != NULL) memset(mem, 0x11, 32);     /* the client's content: the monitor reads it back later (and must not read uninitialised memory itself) */
        if (c->state == 3) VRT_COUNT("side-effects.strays-without-clear-callback"); else VRT_COUNT("side-effects.strays-with-clear-callback");
    }
    if (c->state == 2) cstl_shared_ptr_share(o, co);
    /* "other" owns something of its own so that a wrongly executed transfer is visible */
    cstl_shared_ptr_alloc(other, 16, clr_proper);
    if (c->probe == S_LOCK_SP && c->state >= 1) cstl_weak_ptr_from(wk, other);
    if (c->probe == S_LOCK_SP_SAME_BLOCK) cstl_weak_ptr_from(wk, o);
    if (c->probe == S_SHARE_DST_EMPTY_SRC) cstl_shared_ptr_reset(other);
    if (c->probe == S_SHARE_DST_COPY_OF_COOWNER && (c->state == 1 || c->state == 3)) cstl_shared_ptr_share(o, co);
    /* share(x, other) may release what the proper destination held before it looks at the source */
    if (c->probe == S_SHARE_SRC) { tolerate(cstl_shared_ptr_get(other)); tolerate(other->data.ptr); }
    x = stray(&ov, sizeof(*o), c->way); o = ov;
    vrt_state(sstate[c->state]);
    VRT_OP2("shared_ptr.probe", "probe %ld way %ld", c->probe, c->way);
    watch();
    switch (c->probe) {
    case S_GET: ab = VRT_ABORTS((void)cstl_shared_ptr_get(x)); break;
    case S_GET_CONST: ab = VRT_ABORTS((void)cstl_shared_ptr_get_const(x)); break;
    case S_UNIQUE: ab = VRT_ABORTS((void)cstl_shared_ptr_unique(x)); break;
    case S_SHARE_SRC: ab = VRT_ABORTS(cstl_shared_ptr_share(x, other)); break;
    case S_SHARE_DST: ab = VRT_ABORTS(cstl_shared_ptr_share(other, x)); break;
    case S_SWAP_A: ab = VRT_ABORTS(cstl_shared_ptr_swap(x, other)); break;
    case S_SWAP_B: ab = VRT_ABORTS(cstl_shared_ptr_swap(other, x)); break;
    case S_RESET: ab = VRT_ABORTS(cstl_shared_ptr_reset(x)); break;
    case S_ALLOC: ab = VRT_ABORTS(cstl_shared_ptr_alloc(x, 8, NULL)); break;
    case S_WEAK_FROM_SP: ab = VRT_ABORTS(cstl_weak_ptr_from(wk, x)); break;
    case S_LOCK_SP: case S_LOCK_SP_SAME_BLOCK: ab = VRT_ABORTS(cstl_weak_ptr_lock(wk, x)); break;
    case S_SHARE_DST_EMPTY_SRC: ab = VRT_ABORTS(cstl_shared_ptr_share(other, x)); break;
    case S_ALLOC_ZERO: ab = VRT_ABORTS(cstl_shared_ptr_alloc(x, 0, NULL)); break;
    case S_SHARE_DST_COPY_OF_COOWNER:
        /* the stray destination refers to the very control block the source owns */
        ab = VRT_ABORTS(cstl_shared_ptr_share(co, x)); break;
    default:
        /* the destination is a stray copy of the source itself (needs the original: not for relocation) */
        if (o == NULL) { VRT_COUNT("cells.not-in-scope.copy-of-src-after-relocation"); ab = 1; break; }
        ab = VRT_ABORTS(cstl_shared_ptr_share(o, x)); break;
    }
    must_abort(ab, c, sstate[c->state], sprobe[c->probe]);
    VRT_OP0("shared_ptr.reset", "original / proper objects after the stray probe");
    if (o != NULL) {
        VRT_CHECK(cstl_shared_ptr_get(o) == mem, "guard.original-broken.shared", "original shared pointer no longer yields its memory");
        if (mem != NULL) VRT_CHECK(*(unsigned char *)mem != 0xa5 || c->state == 3, "guard.original-memory-cleared.shared", "the original's memory was cleared through the stray copy");
        cstl_shared_ptr_reset(o);
        VRT_COUNT("originals-exercised");
    }
    cstl_shared_ptr_reset(co); cstl_shared_ptr_reset(other); cstl_weak_ptr_reset(wk);
    if (o == NULL && c->state >= 1) release_blocks_of_relocated();
    VRT_CHECK(vrt_lib_live() == 0, "guard.leak-or-early-free.shared", "%zu library blocks live after releasing the originals", vrt_lib_live());
    obj_free(x); vrt_free(other); vrt_free(co); vrt_free(wk); if (o) obj_free(o);
}

static void cell_weak(const struct cell *c)
{
    cstl_weak_ptr_t *o = obj_new(sizeof(*o)), *x, *otherw = vrt_alloc(sizeof(*otherw));
    cstl_shared_ptr_t *owner = vrt_alloc(sizeof(*owner)), *tgt = vrt_alloc(sizeof(*tgt));
    void *ov = o;
    int ab;
    cstl_weak_ptr_init(o); cstl_weak_ptr_init(otherw); cstl_shared_ptr_init(owner); cstl_shared_ptr_init(tgt);
    if (c->state >= 1) { cstl_shared_ptr_alloc(owner, 32, clr_cb); cstl_weak_ptr_from(o, owner); }
    if (c->state == 2) cstl_shared_ptr_reset(owner);     /* owners gone: weak-only */
    x = stray(&ov, sizeof(*o), c->way); o = ov;
    vrt_state(wstate[c->state]);
    VRT_OP2("weak_ptr.probe", "probe %ld way %ld", c->probe, c->way);
    watch();
    switch (c->probe) {
    case WP_FROM_WP: case WP_FROM_WP_SAME_BLOCK: ab = VRT_ABORTS(cstl_weak_ptr_from(x, owner)); break;
    case WP_LOCK_WP: ab = VRT_ABORTS(cstl_weak_ptr_lock(x, tgt)); break;
    case WP_SWAP_A: ab = VRT_ABORTS(cstl_weak_ptr_swap(x, otherw)); break;
    case WP_SWAP_B: ab = VRT_ABORTS(cstl_weak_ptr_swap(otherw, x)); break;
    default: ab = VRT_ABORTS(cstl_weak_ptr_reset(x)); break;
    }
    must_abort(ab, c, wstate[c->state], wprobe[c->probe]);
    VRT_OP0("weak_ptr.reset", "original / proper objects after the stray probe");
    if (o != NULL) {
        cstl_weak_ptr_lock(o, tgt);
        VRT_CHECK((cstl_shared_ptr_get(tgt) != NULL) == (c->state == 1), "guard.original-broken.weak", "original weak pointer locks wrongly after the probe");
        cstl_weak_ptr_reset(o);
        VRT_COUNT("originals-exercised");
    }
    cstl_shared_ptr_reset(tgt); cstl_shared_ptr_reset(owner); cstl_weak_ptr_reset(otherw);
    if (o == NULL && c->state >= 1) release_blocks_of_relocated();
    VRT_CHECK(vrt_lib_live() == 0, "guard.leak-or-early-free.weak", "%zu library blocks live after releasing the originals", vrt_lib_live());
    obj_free(x); vrt_free(otherw); vrt_free(owner); vrt_free(tgt); if (o) obj_free(o);
}

/* ---------------- array ---------------- */
static void cell_array(const struct cell *c)
{
    cstl_array_t *o = obj_new(sizeof(*o)), *x, *base = vrt_alloc(sizeof(*base)), *other = vrt_alloc(sizeof(*other));
    void *ov = o, *ext = vrt_alloc(4 * 8), *rel = NULL;
    int ab, applicable = 1;
    cstl_array_init(o); cstl_array_init(base); cstl_array_init(other);
    switch (c->state) {
    case 1: cstl_array_alloc(o, 4, 8); break;
    case 2: cstl_array_alloc(base, 6, 8); cstl_array_slice(base, 1, 4, o); break;
    case 3: cstl_array_set(o, ext, 4, 8); break;
    default: break;
    }
    cstl_array_alloc(other, 3, 8);
    x = stray(&ov, sizeof(*o), c->way); o = ov;
    vrt_state(astate[c->state]);
    VRT_OP2("array.probe", "probe %ld way %ld", c->probe, c->way);
    watch();
    switch (c->probe) {
    case A_ALLOC: ab = VRT_ABORTS(cstl_array_alloc(x, 2, 8)); break;
    case A_SET: ab = VRT_ABORTS(cstl_array_set(x, ext, 4, 8)); break;
    case A_RELEASE: ab = VRT_ABORTS(cstl_array_release(x, &rel)); break;
    case A_DATA: ab = VRT_ABORTS((void)cstl_array_data(x)); break;
    case A_DATA_CONST: ab = VRT_ABORTS((void)cstl_array_data_const(x)); break;
    case A_AT:
        /* an index >= size aborts anyway: only cells with i < size separate the guard from the bounds check */
        if (c->state == 0) { applicable = 0; ab = 1; break; }
        ab = VRT_ABORTS((void)cstl_array_at(x, 0)); break;
    case A_AT_CONST:
        if (c->state == 0) { applicable = 0; ab = 1; break; }
        ab = VRT_ABORTS((void)cstl_array_at_const(x, 0)); break;
    case A_SLICE_A: ab = VRT_ABORTS(cstl_array_slice(x, 0, 0, other)); break;
    case A_SLICE_S: ab = VRT_ABORTS(cstl_array_slice(other, 0, 1, x)); break;
    case A_SLICE_INPLACE: ab = VRT_ABORTS(cstl_array_slice(x, 0, 0, x)); break;
    case A_UNSLICE_S: ab = VRT_ABORTS(cstl_array_unslice(x, other)); break;
    case A_UNSLICE_A: ab = VRT_ABORTS(cstl_array_unslice(other, x)); break;
    case A_UNSLICE_INPLACE: ab = VRT_ABORTS(cstl_array_unslice(x, x)); break;
    case A_RESET: ab = VRT_ABORTS(cstl_array_reset(x)); break;
    /* requests that take the rarely used paths of alloc/set must still look at the pointer first */
    case A_ALLOC_UNREPRESENTABLE: ab = VRT_ABORTS(cstl_array_alloc(x, SIZE_MAX / 4, 8)); break;
    case A_ALLOC_ZERO: ab = VRT_ABORTS(cstl_array_alloc(x, 0, 8)); break;
    case A_SET_NULL: ab = VRT_ABORTS(cstl_array_set(x, NULL, 0, 8)); break;
    case A_SLICE_S_COPY_OF_A:
        /* `s = a; cstl_array_slice(&a, i, j, &s)`: the stray destination shares the source's control block */
        if (o == NULL || c->state == 0) { applicable = 0; ab = 1; break; }
        ab = VRT_ABORTS(cstl_array_slice(o, 0, 1, x)); break;
    default:
        if (o == NULL || c->state == 0) { applicable = 0; ab = 1; break; }
        ab = VRT_ABORTS(cstl_array_unslice(o, x)); break;
    }
    if (!applicable) { VRT_COUNT("cells.not-in-scope.at-on-empty-or-copy-after-relocation"); }
    else must_abort(ab, c, astate[c->state], aprobe[c->probe]);
    VRT_OP0("array.reset", "original / proper objects after the stray probe");
    if (o != NULL) {
        if (c->state != 0) {
            VRT_CHECK(cstl_array_size(o) == (c->state == 2 ? 3u : 4u), "guard.original-broken.array.size", "original array size changed");
            *(volatile char *)cstl_array_at(o, 0) = 1;
            *(volatile char *)cstl_array_at(o, cstl_array_size(o) - 1) = 1;
        }
        cstl_array_reset(o);
        VRT_COUNT("originals-exercised");
    }
    cstl_array_reset(base); cstl_array_reset(other);
    if (o == NULL && c->state >= 1) release_blocks_of_relocated();
    VRT_CHECK(vrt_lib_live() == 0, "guard.leak-or-early-free.array", "%zu library blocks live after releasing the originals", vrt_lib_live());
    vrt_free(ext);
    obj_free(x); vrt_free(base); vrt_free(other); if (o) obj_free(o);
}

/* ---------------- pair cells: both operands strays with the same displacement ---------------- */
struct spot { unsigned char *arena, *sep; void *orig, *copy; };
#define ARENA (3 * 8192)
/* storage for an n-byte original and its duplicate at the distance the placement asks for.  Everything lives in
 * one garbage-filled arena whose middle is aligned to 8 KiB, so that "the same distance" is also "the same
 * address bits flipped" for some placements and not for others. */
static void place(struct spot *s, size_t n, int pl)
{
    uintptr_t mid;
    if (pl == PL_FAR) {     /* run_case mapped the two windows already */
        VRT_CHECK(fm.on && n <= 256, "guard.harness.far-pair-without-mapping", "far pair cell without its mapping");
        s->arena = s->sep = NULL; s->orig = fm.orig; s->copy = fm.copy;
        VRT_COUNT("pair.placement.far-page-mapping");
        return;
    }
    s->arena = vrt_alloc(ARENA); s->sep = NULL;
    memset(s->arena, 0x5a, ARENA);
    mid = ((uintptr_t)s->arena + 4096 + 8191) & ~(uintptr_t)8191;
    switch (pl) {
    case PL_ADJ_AFTER: s->orig = (void *)mid; s->copy = (void *)(mid + n); break;
    case PL_ADJ_BEFORE: s->orig = (void *)(mid + 8); s->copy = (void *)(mid + 8 - n); break;
    case PL_4K_ALIGNED: s->orig = (void *)mid; s->copy = (void *)(mid + 4096); break;
    case PL_4K_STRADDLE: s->orig = (void *)(mid + 4096 - 16); s->copy = (void *)(mid + 8192 - 16); break;
    case PL_4K_DOWN: s->orig = (void *)(mid + 4096); s->copy = (void *)mid; break;
    case PL_256: s->orig = (void *)mid; s->copy = (void *)(mid + 256); break;
    case PL_ODD: s->orig = (void *)(mid + 24); s->copy = (void *)(mid + 24 + 4136); break;
    default: s->orig = (void *)mid; s->sep = vrt_alloc(n); memset(s->sep, 0x5a, n); s->copy = s->sep; break;
    }
    vrt_count_dyn(pl == PL_ADJ_AFTER || pl == PL_ADJ_BEFORE ? "pair.placement.adjacent" : pl == PL_OWN_BLOCK ? "pair.placement.separate-allocation"
                  : pl == PL_4K_ALIGNED || pl == PL_256 ? "pair.placement.power-of-two-aligned" : "pair.placement.4KiB-or-odd-unaligned", 1);
}
static void unplace(struct spot *s) { if (s->sep) vrt_free(s->sep); if (s->arena) vrt_free(s->arena); }
/* duplicate the whole struct the way a careless client would */
#define DUP(T, X, O, way) do { if ((way) == 0) *(T *)(X) = *(const T *)(O); else memcpy((X), (O), sizeof(T)); \
        VRT_COUNT("pair.structs-duplicated-as-a-whole"); } while (0)
/* t = a; a = b; b = t */
#define HAND_EXCHANGE(T, A, B, way) do { T t_; if ((way) == 0) { t_ = *(A); *(A) = *(B); *(B) = t_; } \
        else { memcpy(&t_, (A), sizeof(T)); memcpy((A), (B), sizeof(T)); memcpy((B), &t_, sizeof(T)); } } while (0)
static void orig_fail(const struct cell *c, const char *what)
{
    char key[160];
    snprintf(key, sizeof(key), "guard.original-broken.%s.%s", kname[c->kind], what);
    vrt_fail(key, "after the stray probe the original %s objects do not work: %s", kname[c->kind], what);
}
/* an abort in here is not armed: the runtime reports it as abort.unexpected.original.<what>.<state> */
#define ORIG_OK(stmt, what) do { VRT_OP0("original." what, "proper call on the originals after the stray probe"); stmt; } while (0)
#define ORIG_IS(cond, what) do { if (!(cond)) orig_fail(c, what); } while (0)

/* Compile-time budget: the pair cells are glue around ~25 probed calls; built without optimisation and without
 * UBSan on the GLUE only.  The library's header inlines are then not inlined into these functions but emitted
 * out of line in this TU with the full flags (ASan+UBSan), the classic cells above keep the inlined variants. */
#ifdef __clang__
#define PAIR_FN __attribute__((noinline, optnone, no_sanitize("undefined"))) static void
#else
#define PAIR_FN __attribute__((noinline, optimize("O0"), no_sanitize("undefined"))) static void
#endif

struct gtrio { struct cstl_guarded_ptr a, b, c; };
PAIR_FN pair_guarded(const struct cell *c)
{
    struct spot sp; struct gtrio *o, *x;
    struct cstl_guarded_ptr *A, *B;
    void *blk[4]; void *volatile g0 = NULL, *volatile g1 = NULL;
    const int own = c->state == 1, hand = c->probe == GP_SWAP_HAND;
    int i, ab;
    place(&sp, sizeof(*o), c->pl); o = sp.orig; x = sp.copy;
    for (i = 0; i < 4; i++) blk[i] = vrt_alloc(16);
    cstl_guarded_ptr_set(&o->a, own ? blk[0] : NULL); cstl_guarded_ptr_set(&o->b, own ? blk[1] : NULL); cstl_guarded_ptr_set(&o->c, own ? blk[2] : NULL);
    A = &o->a; B = &x->c;
    if (hand) { cstl_guarded_ptr_set(B, own ? blk[3] : NULL); HAND_EXCHANGE(struct cstl_guarded_ptr, A, B, c->way); }
    else DUP(struct gtrio, x, o, c->way);
    vrt_state(gstate[c->state]);
    VRT_OP2("guarded_ptr.pair-probe", "probe %ld placement %ld", c->probe, c->pl);
    watch();
    switch (c->probe) {
    case GP_SWAP_PAIR: ab = VRT_ABORTS(cstl_guarded_ptr_swap(&x->a, &x->b)); break;
    case GP_COPY_PAIR: ab = VRT_ABORTS(cstl_guarded_ptr_copy(&x->c, &x->b)); break;
    case GP_SWAP_SELF: ab = VRT_ABORTS(cstl_guarded_ptr_swap(&x->b, &x->b)); break;
    case GP_COPY_SELF: ab = VRT_ABORTS(cstl_guarded_ptr_copy(&x->a, &x->a)); break;
    default: ab = VRT_ABORTS(cstl_guarded_ptr_swap(A, B)); break;
    }
    must_abort(ab, c, gstate[c->state], gpprobe[c->probe]);
    if (hand) { HAND_EXCHANGE(struct cstl_guarded_ptr, A, B, c->way); VRT_COUNT("pair.hand-exchanged-objects-put-back"); }
    else B = &o->c;
    ORIG_OK(g0 = cstl_guarded_ptr_get(A), "get"); ORIG_OK(g1 = cstl_guarded_ptr_get(B), "get");
    ORIG_IS(g0 == (own ? blk[0] : NULL) && g1 == (own ? blk[hand ? 3 : 2] : NULL) && cstl_guarded_ptr_get(&o->b) == (own ? blk[1] : NULL), "pointer-changed");
    ORIG_OK(cstl_guarded_ptr_swap(A, B), "swap");
    ORIG_IS(cstl_guarded_ptr_get(B) == g0 && cstl_guarded_ptr_get(A) == g1, "swap-wrong");
    VRT_COUNT("originals-exercised"); VRT_COUNT("pair.originals-exercised");
    for (i = 0; i < 4; i++) vrt_free(blk[i]);
    unplace(&sp);
}

struct utrio { cstl_unique_ptr_t a, b, c; };
PAIR_FN pair_unique(const struct cell *c)
{
    struct spot sp; struct utrio *o, *x;
    cstl_unique_ptr_t *A, *B;
    uint64_t *pv = vrt_zalloc(4 * sizeof(*pv));
    void *mem[4]; void *volatile g0 = NULL, *volatile g1 = NULL;
    const int own = c->state >= 1, cb = c->state == 1, hand = c->probe == UP_SWAP_HAND;
    int i, ab;
    place(&sp, sizeof(*o), c->pl); o = sp.orig; x = sp.copy;
    A = &o->a; B = &x->c;
    cstl_unique_ptr_init(&o->a); cstl_unique_ptr_init(&o->b); cstl_unique_ptr_init(&o->c);
    if (hand) cstl_unique_ptr_init(B);
    if (own) {
        cstl_unique_ptr_alloc(&o->a, 32, cb ? clr_cb : NULL, cb ? &pv[0] : NULL);
        cstl_unique_ptr_alloc(&o->b, 24, cb ? clr_cb : NULL, cb ? &pv[1] : NULL);
        cstl_unique_ptr_alloc(&o->c, 40, cb ? clr_cb : NULL, cb ? &pv[2] : NULL);
        if (hand) cstl_unique_ptr_alloc(B, 16, cb ? clr_cb : NULL, cb ? &pv[3] : NULL);
        if (cb) VRT_COUNT("side-effects.strays-with-clear-callback-and-priv"); else VRT_COUNT("side-effects.strays-without-clear-callback");
    }
    mem[0] = cstl_unique_ptr_get(&o->a); mem[1] = cstl_unique_ptr_get(&o->b); mem[2] = cstl_unique_ptr_get(&o->c);
    mem[3] = hand ? cstl_unique_ptr_get(B) : NULL;
    if (hand) HAND_EXCHANGE(cstl_unique_ptr_t, A, B, c->way); else DUP(struct utrio, x, o, c->way);
    vrt_state(ustate[c->state]);
    VRT_OP2("unique_ptr.pair-probe", "probe %ld placement %ld", c->probe, c->pl);
    watch();
    switch (c->probe) {
    case UP_SWAP_PAIR: ab = VRT_ABORTS(cstl_unique_ptr_swap(&x->a, &x->b)); break;
    case UP_SWAP_PAIR_REV: ab = VRT_ABORTS(cstl_unique_ptr_swap(&x->c, &x->a)); break;
    case UP_SWAP_SELF: ab = VRT_ABORTS(cstl_unique_ptr_swap(&x->b, &x->b)); break;
    default: ab = VRT_ABORTS(cstl_unique_ptr_swap(A, B)); break;
    }
    must_abort(ab, c, ustate[c->state], upprobe[c->probe]);
    if (hand) { HAND_EXCHANGE(cstl_unique_ptr_t, A, B, c->way); VRT_COUNT("pair.hand-exchanged-objects-put-back"); }
    else B = &o->c;
    ORIG_OK(g0 = cstl_unique_ptr_get(A), "get"); ORIG_OK(g1 = cstl_unique_ptr_get(B), "get");
    ORIG_IS(g0 == mem[0] && g1 == mem[hand ? 3 : 2] && cstl_unique_ptr_get(&o->b) == mem[1], "pointer-changed");
    ORIG_OK(cstl_unique_ptr_swap(A, B), "swap");
    ORIG_IS(cstl_unique_ptr_get(B) == g0 && cstl_unique_ptr_get(A) == g1, "swap-wrong");
    ORIG_OK(cstl_unique_ptr_reset(A), "reset"); ORIG_OK(cstl_unique_ptr_reset(B), "reset");
    ORIG_OK(cstl_unique_ptr_reset(&o->b), "reset"); ORIG_OK(cstl_unique_ptr_reset(&o->c), "reset");
    for (i = 0; i < 4; i++) ORIG_IS(pv[i] == ((cb && mem[i] != NULL) ? 1u : 0u), "clear-callback");
    VRT_CHECK(vrt_lib_live() == 0, "guard.leak-or-early-free.unique", "%zu library blocks live after releasing the originals", vrt_lib_live());
    VRT_COUNT("originals-exercised"); VRT_COUNT("pair.originals-exercised");
    vrt_free(pv);
    unplace(&sp);
}

struct strio { cstl_shared_ptr_t a, b; cstl_weak_ptr_t w; };
PAIR_FN pair_shared(const struct cell *c)
{
    struct spot sp; struct strio *o, *x;
    cstl_shared_ptr_t *A, *B;
    cstl_xtor_func_t *const clr = c->state == 3 ? NULL : clr_cb;
    void *ma, *mb, *mB; void *volatile g0 = NULL, *volatile g1 = NULL;
    const int own = c->state >= 1, hand = c->probe == SP_SWAP_HAND;
    int ab;
    place(&sp, sizeof(*o), c->pl); o = sp.orig; x = sp.copy;
    A = &o->a; B = &x->b;
    cstl_shared_ptr_init(&o->a); cstl_shared_ptr_init(&o->b); cstl_weak_ptr_init(&o->w);
    if (hand) cstl_shared_ptr_init(B);
    if (own) {
        cstl_shared_ptr_alloc(&o->a, 32, clr);
        if (c->state == 2) cstl_shared_ptr_share(&o->a, &o->b); else cstl_shared_ptr_alloc(&o->b, 24, clr);
        cstl_weak_ptr_from(&o->w, &o->a);
        if (hand) { if (c->state == 2) cstl_shared_ptr_share(&o->a, B); else cstl_shared_ptr_alloc(B, 16, clr); }
        if (clr) VRT_COUNT("side-effects.strays-with-clear-callback"); else VRT_COUNT("side-effects.strays-without-clear-callback");
    }
    ma = cstl_shared_ptr_get(&o->a); mb = cstl_shared_ptr_get(&o->b); mB = hand ? cstl_shared_ptr_get(B) : NULL;
    if (ma != NULL) memset(ma, 0x11, 8);
    if (mb != NULL) memset(mb, 0x11, 8);
    if (mB != NULL) memset(mB, 0x11, 8);
    if (hand) HAND_EXCHANGE(cstl_shared_ptr_t, A, B, c->way); else DUP(struct strio, x, o, c->way);
    vrt_state(sstate[c->state]);
    VRT_OP2("shared_ptr.pair-probe", "probe %ld placement %ld", c->probe, c->pl);
    watch();
    switch (c->probe) {
    case SP_SWAP_PAIR: ab = VRT_ABORTS(cstl_shared_ptr_swap(&x->a, &x->b)); break;
    case SP_SWAP_SELF: ab = VRT_ABORTS(cstl_shared_ptr_swap(&x->a, &x->a)); break;
    case SP_SHARE_PAIR: ab = VRT_ABORTS(cstl_shared_ptr_share(&x->a, &x->b)); break;
    case SP_SHARE_SELF: ab = VRT_ABORTS(cstl_shared_ptr_share(&x->b, &x->b)); break;
    case SP_FROM_PAIR: ab = VRT_ABORTS(cstl_weak_ptr_from(&x->w, &x->b)); break;
    case SP_LOCK_PAIR: ab = VRT_ABORTS(cstl_weak_ptr_lock(&x->w, &x->b)); break;
    default: ab = VRT_ABORTS(cstl_shared_ptr_swap(A, B)); break;
    }
    must_abort(ab, c, sstate[c->state], spprobe[c->probe]);
    if (hand) { HAND_EXCHANGE(cstl_shared_ptr_t, A, B, c->way); VRT_COUNT("pair.hand-exchanged-objects-put-back"); }
    else B = &o->b;
    ORIG_OK(g0 = cstl_shared_ptr_get(A), "get"); ORIG_OK(g1 = cstl_shared_ptr_get(B), "get");
    ORIG_IS(g0 == ma && g1 == (hand ? mB : mb) && cstl_shared_ptr_get(&o->b) == mb, "pointer-changed");
    if (ma != NULL && clr != NULL) ORIG_IS(*(unsigned char *)ma != 0xa5 && *(unsigned char *)mb != 0xa5, "memory-cleared-through-the-stray-copy");
    ORIG_OK(cstl_shared_ptr_swap(A, B), "swap");
    ORIG_IS(cstl_shared_ptr_get(B) == g0 && cstl_shared_ptr_get(A) == g1, "swap-wrong");
    ORIG_OK(cstl_weak_ptr_lock(&o->w, A), "weak_lock");
    ORIG_IS(cstl_shared_ptr_get(A) == ma, "weak_lock-wrong");
    ORIG_OK(cstl_shared_ptr_reset(A), "reset"); ORIG_OK(cstl_shared_ptr_reset(B), "reset"); ORIG_OK(cstl_shared_ptr_reset(&o->b), "reset");
    ORIG_OK(cstl_weak_ptr_reset(&o->w), "weak_reset");
    VRT_CHECK(vrt_lib_live() == 0, "guard.leak-or-early-free.shared", "%zu library blocks live after releasing the originals", vrt_lib_live());
    VRT_COUNT("originals-exercised"); VRT_COUNT("pair.originals-exercised");
    unplace(&sp);
}

struct wtrio { cstl_weak_ptr_t a, b; cstl_shared_ptr_t s; };
PAIR_FN pair_weak(const struct cell *c)
{
    struct spot sp; struct wtrio *o, *x;
    cstl_weak_ptr_t *A, *B;
    cstl_shared_ptr_t *own2 = vrt_alloc(sizeof(*own2)), *tgt = vrt_alloc(sizeof(*tgt));
    void *m1, *m2;
    const int hand = c->probe == WPP_SWAP_HAND;
    int ab;
    place(&sp, sizeof(*o), c->pl); o = sp.orig; x = sp.copy;
    A = &o->a; B = &x->b;
    cstl_weak_ptr_init(&o->a); cstl_weak_ptr_init(&o->b); cstl_shared_ptr_init(&o->s); cstl_shared_ptr_init(own2); cstl_shared_ptr_init(tgt);
    if (hand) cstl_weak_ptr_init(B);
    if (c->state >= 1) {
        cstl_shared_ptr_alloc(&o->s, 32, clr_cb); cstl_shared_ptr_alloc(own2, 24, clr_cb);
        cstl_weak_ptr_from(&o->a, &o->s); cstl_weak_ptr_from(&o->b, own2);
        if (hand) cstl_weak_ptr_from(B, own2);
    }
    m1 = cstl_shared_ptr_get(&o->s); m2 = cstl_shared_ptr_get(own2);
    if (c->state == 2) { cstl_shared_ptr_reset(&o->s); cstl_shared_ptr_reset(own2); }
    if (hand) HAND_EXCHANGE(cstl_weak_ptr_t, A, B, c->way); else DUP(struct wtrio, x, o, c->way);
    vrt_state(wstate[c->state]);
    VRT_OP2("weak_ptr.pair-probe", "probe %ld placement %ld", c->probe, c->pl);
    watch();
    switch (c->probe) {
    case WPP_SWAP_PAIR: ab = VRT_ABORTS(cstl_weak_ptr_swap(&x->a, &x->b)); break;
    case WPP_SWAP_SELF: ab = VRT_ABORTS(cstl_weak_ptr_swap(&x->b, &x->b)); break;
    case WPP_FROM_PAIR: ab = VRT_ABORTS(cstl_weak_ptr_from(&x->b, &x->s)); break;
    case WPP_LOCK_PAIR: ab = VRT_ABORTS(cstl_weak_ptr_lock(&x->a, &x->s)); break;
    default: ab = VRT_ABORTS(cstl_weak_ptr_swap(A, B)); break;
    }
    must_abort(ab, c, wstate[c->state], wpprobe[c->probe]);
    if (hand) { HAND_EXCHANGE(cstl_weak_ptr_t, A, B, c->way); VRT_COUNT("pair.hand-exchanged-objects-put-back"); }
    else B = &o->b;
    ORIG_OK(cstl_weak_ptr_lock(A, tgt), "lock");
    ORIG_IS(cstl_shared_ptr_get(tgt) == (c->state == 1 ? m1 : NULL), "lock-wrong");
    ORIG_OK(cstl_weak_ptr_swap(A, B), "swap");
    ORIG_OK(cstl_weak_ptr_lock(A, tgt), "lock");
    ORIG_IS(cstl_shared_ptr_get(tgt) == (c->state == 1 ? m2 : NULL), "swap-wrong");
    ORIG_OK(cstl_shared_ptr_reset(tgt), "reset"); ORIG_OK(cstl_shared_ptr_reset(&o->s), "reset"); ORIG_OK(cstl_shared_ptr_reset(own2), "reset");
    ORIG_OK(cstl_weak_ptr_reset(A), "weak_reset"); ORIG_OK(cstl_weak_ptr_reset(B), "weak_reset"); ORIG_OK(cstl_weak_ptr_reset(&o->b), "weak_reset");
    VRT_CHECK(vrt_lib_live() == 0, "guard.leak-or-early-free.weak", "%zu library blocks live after releasing the originals", vrt_lib_live());
    VRT_COUNT("originals-exercised"); VRT_COUNT("pair.originals-exercised");
    vrt_free(own2); vrt_free(tgt);
    unplace(&sp);
}

struct aduo { cstl_array_t a, b; };
static void pair_array_make(cstl_array_t *a, int state, cstl_array_t *base, void *ext, size_t beg, size_t n)
{
    cstl_array_init(a);
    switch (state) {
    case 1: cstl_array_alloc(a, n, 8); break;
    case 2: cstl_array_slice(base, beg, beg + n, a); break;
    default: cstl_array_set(a, ext, n, 8); break;
    }
}
PAIR_FN pair_array(const struct cell *c)
{
    struct spot sp; struct aduo *o, *x;
    cstl_array_t *A, *B, *base = vrt_alloc(sizeof(*base));
    void *ext[3];
    const int hand = c->probe == AP_SLICE_HAND;
    volatile size_t n0 = 0, n1 = 0;
    int i, ab;
    place(&sp, sizeof(*o), c->pl); o = sp.orig; x = sp.copy;
    for (i = 0; i < 3; i++) ext[i] = vrt_alloc(4 * 8);
    cstl_array_init(base); cstl_array_alloc(base, 6, 8);
    A = &o->a; B = &x->b;
    pair_array_make(&o->a, c->state, base, ext[0], 1, 4); pair_array_make(&o->b, c->state, base, ext[1], 0, 3);
    if (hand) { pair_array_make(B, c->state, base, ext[2], 2, 2); HAND_EXCHANGE(cstl_array_t, A, B, c->way); }
    else DUP(struct aduo, x, o, c->way);
    vrt_state(astate[c->state]);
    VRT_OP2("array.pair-probe", "probe %ld placement %ld", c->probe, c->pl);
    watch();
    switch (c->probe) {
    case AP_SLICE_PAIR: ab = VRT_ABORTS(cstl_array_slice(&x->a, 0, 1, &x->b)); break;
    case AP_UNSLICE_PAIR: ab = VRT_ABORTS(cstl_array_unslice(&x->a, &x->b)); break;
    case AP_UNSLICE_PAIR_REV: ab = VRT_ABORTS(cstl_array_unslice(&x->b, &x->a)); break;
    default: ab = VRT_ABORTS(cstl_array_slice(A, 0, 1, B)); break;
    }
    must_abort(ab, c, astate[c->state], approbe[c->probe]);
    if (hand) { HAND_EXCHANGE(cstl_array_t, A, B, c->way); VRT_COUNT("pair.hand-exchanged-objects-put-back"); }
    else B = &o->b;
    ORIG_OK(n0 = cstl_array_size(A), "size"); ORIG_OK(n1 = cstl_array_size(B), "size");
    ORIG_IS(n0 == 4 && n1 == (hand ? 2u : 3u) && cstl_array_size(&o->b) == 3, "size-changed");
    ORIG_OK(*(volatile char *)cstl_array_at(A, 3) = 1, "at"); ORIG_OK(*(volatile char *)cstl_array_at(B, 0) = 1, "at");
    ORIG_OK(cstl_array_slice(A, 1, 3, B), "slice");
    ORIG_IS(cstl_array_size(B) == 2 && cstl_array_at(B, 0) == cstl_array_at(A, 1), "slice-wrong");
    ORIG_OK(cstl_array_reset(A), "reset"); ORIG_OK(cstl_array_reset(B), "reset"); ORIG_OK(cstl_array_reset(&o->b), "reset"); ORIG_OK(cstl_array_reset(base), "reset");
    VRT_CHECK(vrt_lib_live() == 0, "guard.leak-or-early-free.array", "%zu library blocks live after releasing the originals", vrt_lib_live());
    VRT_COUNT("originals-exercised"); VRT_COUNT("pair.originals-exercised");
    for (i = 0; i < 3; i++) vrt_free(ext[i]);
    vrt_free(base);
    unplace(&sp);
}

static void run_case(uint64_t idx)
{
    const struct cell *c = &cells[idx];
    const char *st, *pr;
    char nm[96];
    ntol = 0;
    const int pair = c->pl >= 0;
    switch (c->kind) {
    case KG: st = gstate[c->state]; pr = pair ? gpprobe[c->probe] : gprobe[c->probe]; break;
    case KU: st = ustate[c->state]; pr = pair ? upprobe[c->probe] : uprobe[c->probe]; break;
    case KS: st = sstate[c->state]; pr = pair ? spprobe[c->probe] : sprobe[c->probe]; break;
    case KW: st = wstate[c->state]; pr = pair ? wpprobe[c->probe] : wprobe[c->probe]; break;
    case KC: st = prior[c->state]; pr = kname[c->probe]; break;
    default: st = astate[c->state]; pr = pair ? approbe[c->probe] : aprobe[c->probe]; break;
    }
    if (c->kind == KC) vrt_case_note("converse cell: proper use of %s objects in storage that held %s, variant %d", pr, st, c->way);
    else if (c->far >= 0) vrt_case_note("far %s: %s object(s), state %s, %s, copy minus original = %s bytes, probe %s", pair ? "pair cell" : "cell", kname[c->kind], st, wname[c->way], fard[c->far].name, pr);
    else if (pair) vrt_case_note("pair cell: %s objects, state %s, %s, second storage %s, probe %s", kname[c->kind], st, wname[c->way], plname[c->pl], pr);
    else vrt_case_note("cell: %s object, state %s, strayed by %s, probe %s", kname[c->kind], st, wname[c->way], pr);
    fm.on = 0;
    if (c->far >= 0) {
        /* where in the window the objects sit: at its start, in the middle, across its inner 4 KiB boundary */
        static const size_t offs[3] = { 0, 2040, 4096 - 16 };
        if (!far_map(c->far, offs[(c->probe + c->state) % 3])) {
            snprintf(nm, sizeof(nm), "far.skipped.%s", fard[c->far].name);
            vrt_count_dyn(nm, 1);
            VRT_COUNT("far.cells-skipped-no-address-space");
            return;
        }
        snprintf(nm, sizeof(nm), "far.mapped.%s", fard[c->far].name);
        vrt_count_dyn(nm, 1);
        VRT_COUNT("far.cells");
    }
    switch (c->kind) {
    case KG: if (pair) pair_guarded(c); else cell_guarded(c); break;
    case KU: if (pair) pair_unique(c); else cell_unique(c); break;
    case KS: if (pair) pair_shared(c); else cell_shared(c); break;
    case KW: if (pair) pair_weak(c); else cell_weak(c); break;
    case KC: cell_converse(c); break;
    default: if (pair) pair_array(c); else cell_array(c); break;
    }
    far_unmap();
    if (pair) VRT_COUNT("pair.cells");
    snprintf(nm, sizeof(nm), "cells.%s.%s", kname[c->kind], pr);
    vrt_count_dyn(nm, 1);
    VRT_COUNT("cells");
    vrt_sig(0, vrt_mix(vrt_mix(vrt_mix(c->kind * 100 + c->state, c->way), c->probe), (uint64_t)(c->pl + 1 + 100 * (c->far + 1))));
}
static uint64_t ncases(void) { build_cells(); return ncell; }
static void winit(void) { build_cells(); vrt_sig_name(0, "matrix-cells"); }
static const char *const required[] = { "cells.aborted-as-required", "originals-exercised", "proper-use.cells", "proper-use.calls-returned-normally",
                                        "side-effects.aborting-calls-observed-clean", "side-effects.strays-with-clear-callback-and-priv",
                                        "side-effects.strays-with-clear-callback", "side-effects.strays-without-clear-callback",
                                        "pair.cells", "pair.structs-duplicated-as-a-whole", "pair.hand-exchanged-objects-put-back", "pair.originals-exercised",
                                        "pair.placement.adjacent", "pair.placement.power-of-two-aligned", "pair.placement.4KiB-or-odd-unaligned",
                                        "pair.placement.separate-allocation",
                                        "far.cells", "far.aborted-as-required", "pair.placement.far-page-mapping",
                                        "far.aborted-as-required.plus-2pow32", "far.aborted-as-required.minus-2pow32", "far.aborted-as-required.plus-2pow33",
                                        "far.aborted-as-required.plus-3x2pow32", "far.aborted-as-required.plus-2pow16", "far.aborted-as-required.plus-2pow31",
                                        "far.pair.aborted-as-required.plus-2pow32", "far.pair.aborted-as-required.minus-2pow32", "far.pair.aborted-as-required.plus-2pow33", NULL };
static const struct vrt_harness H = { "guard", ncases, run_case, winit, NULL, required, 8 };
int main(int argc, char **argv) { return vrt_main(argc, argv, &H); }
