/*
 * C20 -- bitwise-copied smart pointers are caught before they can double-free.
 *
 * Matrix: object kind {guarded, unique, shared, weak, array} x object state x
 * way of straying {struct assignment, memcpy to another address, relocation
 * (bytes moved to a new address, original storage released)} x every public
 * function that reads/transfers/releases the pointer x argument position.
 * Oracle: the probed call must arrive in the library's abort() (interposed);
 * a normal return, a sanitizer report or a crash is a violation.  Afterwards
 * the original (or, for a relocation, a properly re-initialised object) is
 * exercised and everything is released; no library block may stay live.
 */
#include "vrt.h"
#include "cstl/memory.h"
#include "cstl/array.h"
#include <string.h>
#include <stdio.h>

enum { KG, KU, KS, KW, KA, KC /* converse: proper use only, nothing may abort */, NKIND };
static const char *kname[] = { "guarded", "unique", "shared", "weak", "array", "proper-use" };
enum { W_ASSIGN, W_MEMCPY, W_RELOCATE, NWAY };
static const char *wname[] = { "struct-assignment", "memcpy", "relocated" };

/* per kind: states and probes */
static const char *gstate[] = { "empty", "owning" };
static const char *ustate[] = { "empty", "owning" };
static const char *sstate[] = { "empty", "owning", "shared-with-another" };
static const char *wstate[] = { "empty", "live", "weak-only" };
static const char *astate[] = { "empty", "whole", "slice", "external" };

enum { G_GET, G_GET_CONST, G_COPY_SRC, G_SWAP_A, G_SWAP_B, NG };
static const char *gprobe[] = { "get", "get_const", "copy.src", "swap.a", "swap.b" };
enum { U_GET, U_GET_CONST, U_RELEASE, U_SWAP_A, U_SWAP_B, U_RESET, U_ALLOC, U_ALLOC_ZERO, NU_ };
static const char *uprobe[] = { "get", "get_const", "release", "swap.a", "swap.b", "reset", "alloc", "alloc.zero-size" };
enum { S_GET, S_GET_CONST, S_UNIQUE, S_SHARE_SRC, S_SHARE_DST, S_SWAP_A, S_SWAP_B, S_RESET, S_ALLOC, S_WEAK_FROM_SP, S_LOCK_SP,
       S_SHARE_DST_COPY_OF_SRC, S_SHARE_DST_COPY_OF_COOWNER, S_SHARE_DST_EMPTY_SRC, S_LOCK_SP_SAME_BLOCK, S_ALLOC_ZERO, NS_ };
static const char *sprobe[] = { "get", "get_const", "unique", "share.src", "share.dst", "swap.a", "swap.b", "reset", "alloc",
                                "weak_from.sp", "weak_lock.sp", "share.dst-is-copy-of-src", "share.dst-is-copy-of-coowner",
                                "share.dst.src-empty", "weak_lock.sp-refers-to-same-block", "alloc.zero-size" };
enum { WP_FROM_WP, WP_LOCK_WP, WP_SWAP_A, WP_SWAP_B, WP_RESET, WP_FROM_WP_SAME_BLOCK, NW_ };
static const char *wprobe[] = { "from.wp", "lock.wp", "swap.a", "swap.b", "reset", "from.wp-already-refers-to-sp-block" };
enum { A_ALLOC, A_SET, A_RELEASE, A_DATA, A_DATA_CONST, A_AT, A_AT_CONST, A_SLICE_A, A_SLICE_S, A_SLICE_INPLACE,
       A_UNSLICE_S, A_UNSLICE_A, A_UNSLICE_INPLACE, A_RESET, A_SLICE_S_COPY_OF_A, A_UNSLICE_A_COPY_OF_S,
       A_ALLOC_UNREPRESENTABLE, A_ALLOC_ZERO, A_SET_NULL, NA_ };
static const char *aprobe[] = { "alloc", "set", "release", "data", "data_const", "at", "at_const", "slice.a", "slice.s",
                                "slice.inplace", "unslice.s", "unslice.a", "unslice.inplace", "reset",
                                "slice.s-is-copy-of-a", "unslice.a-is-copy-of-s",
                                "alloc.unrepresentable-size", "alloc.zero-elements", "set.null-buffer" };

enum { PR_ZERO, PR_GARBAGE, PR_ONES, PR_LIVE_OBJECT_BYTES, NPRIOR };
static const char *prior[] = { "zeros", "garbage", "all-ones", "bytes-of-a-live-object" };
struct cell { int kind, state, way, probe; };
static struct cell cells[4096];
static int ncell;

static void build_cells(void)
{
    int s, w, p;
    ncell = 0;
#define ADD(K, NSTATE, NPROBE) for (s = 0; s < NSTATE; s++) for (w = 0; w < NWAY; w++) for (p = 0; p < NPROBE; p++) { \
        cells[ncell].kind = K; cells[ncell].state = s; cells[ncell].way = w; cells[ncell].probe = p; ncell++; }
    ADD(KG, 2, NG) ADD(KU, 2, NU_) ADD(KS, 3, NS_) ADD(KW, 3, NW_) ADD(KA, 4, NA_)
    /* converse cells: state = what the storage held before (NPRIOR), way = variant, probe = object kind */
    ADD(KC, NPRIOR, 5)
#undef ADD
}

static void clr_cb(void *mem, void *priv) { (void)priv; memset(mem, 0xa5, 8); VRT_COUNT("clear-callbacks"); }

/* make the stray copy of an object of size n living at *orig.  Returns the stray object's address.
 * W_RELOCATE: the bytes are moved to new storage and the old storage is released (so *orig becomes NULL). */
static void *stray(void **orig, size_t n, int way)
{
    void *c = vrt_alloc(n);
    switch (way) {
    case W_ASSIGN: {
        /* struct assignment of each kind is a plain bytewise copy; done per kind below would be identical */
        size_t i;
        for (i = 0; i < n; i++) ((volatile unsigned char *)c)[i] = ((unsigned char *)*orig)[i];
        break;
    }
    case W_MEMCPY:
        memcpy(c, *orig, n);
        break;
    default:
        memmove(c, *orig, n);
        memset(*orig, 0xdd, n);
        vrt_free(*orig);
        *orig = NULL;
        break;
    }
    return c;
}

static void must_abort(int aborted, const struct cell *c, const char *st, const char *pr)
{
    char key[160];
    if (aborted) { VRT_COUNT("cells.aborted-as-required"); return; }
    snprintf(key, sizeof(key), "guard.stray-copy-not-caught.%s.%s.%s", kname[c->kind], pr, st);
    vrt_fail(key, "%s %s (%s) through a %s copy returned normally instead of aborting", kname[c->kind], pr, st, wname[c->way]);
}

/* ---------------- converse: proper use never aborts ---------------- */
/* Storage that is about to become an object holds: zeros, 0x5a garbage, all-ones, or the bytes of a live,
 * owning object of the same kind that lives elsewhere (re-used storage; the documented way to make such
 * storage an object is the init function, and for the guarded pointer also set and copy, which "overwrite /
 * (re)initialise the destination regardless of its current state").  From then on the object is moved with
 * the provided functions only; every call must return normally and give the right answer. */
static const struct cell *conv_cell;
static void conv_fail(const char *step)
{
    char key[160];
    snprintf(key, sizeof(key), "guard.proper-use-aborted.%s.%s.storage-held-%s", kname[conv_cell->probe], step, prior[conv_cell->state]);
    vrt_fail(key, "%s: %s aborted although every object was initialised and moved with the library's own functions "
             "(storage previously held %s, variant %d)", kname[conv_cell->probe], step, prior[conv_cell->state], conv_cell->way);
}
#define MUST_NOT(stmt, step) do { VRT_OP0("proper-use." step, ""); if (VRT_ABORTS(stmt)) conv_fail(step); VRT_COUNT("proper-use.calls-returned-normally"); } while (0)

/* storage of n bytes in the given prior state; live = bytes of a live object of the same kind */
static void *storage(size_t n, int pr, const void *live)
{
    unsigned char *p = vrt_alloc(n);
    switch (pr) {
    case PR_ZERO: memset(p, 0, n); break;
    case PR_GARBAGE: memset(p, 0x5a, n); break;
    case PR_ONES: memset(p, 0xff, n); break;
    default: memcpy(p, live, n); break;
    }
    return p;
}

static void cell_converse(const struct cell *c)
{
    const int pr = c->state, v = c->way;
    conv_cell = c;
    vrt_state(prior[pr]);
    switch (c->probe) {
    case KG: {
        struct cstl_guarded_ptr *live = vrt_alloc(sizeof(*live)), *d, *d2, *src = vrt_alloc(sizeof(*src));
        void *blk = vrt_alloc(16), *blk2 = vrt_alloc(16), *volatile got = NULL;
        cstl_guarded_ptr_set(live, blk2);
        cstl_guarded_ptr_set(src, blk);
        d = storage(sizeof(*d), pr, live); d2 = storage(sizeof(*d2), pr, live);
        {
            /* re-seating after a bytewise relocation: the destination holds the bytes of the very object that is copied
             * into it (same pointer value, foreign self), and an EMPTY pointer copied over zeroed storage (same pointer
             * value NULL): "the destination is (re)initialised regardless of its current state" */
            struct cstl_guarded_ptr *r = vrt_alloc(sizeof(*r)), *e0 = vrt_alloc(sizeof(*e0)), *z = vrt_alloc(sizeof(*z));
            void *volatile g2 = NULL;
            memcpy(r, src, sizeof(*r));
            MUST_NOT(cstl_guarded_ptr_copy(r, src), "guarded.copy-to-relocated-bytes-of-the-source");
            MUST_NOT(g2 = cstl_guarded_ptr_get(r), "guarded.get-after-reseating");
            VRT_CHECK(g2 == blk, "guard.proper-use-wrong.guarded.reseat", "get after re-seating yields another pointer");
            cstl_guarded_ptr_init(e0);
            memset(z, 0, sizeof(*z));
            MUST_NOT(cstl_guarded_ptr_copy(z, e0), "guarded.copy-empty-to-zeroed-storage");
            MUST_NOT(g2 = cstl_guarded_ptr_get(z), "guarded.get-after-copy-of-empty");
            VRT_CHECK(g2 == NULL, "guard.proper-use-wrong.guarded.copy-empty", "copy of an empty pointer is not empty");
            memcpy(z, e0, sizeof(*z));
            MUST_NOT(cstl_guarded_ptr_copy(z, e0), "guarded.copy-empty-to-relocated-bytes");
            MUST_NOT((void)cstl_guarded_ptr_get_const(z), "guarded.get-after-copy-of-empty");
            vrt_free(r); vrt_free(e0); vrt_free(z);
        }
        switch (v) {
        case 0: MUST_NOT(cstl_guarded_ptr_init(d), "guarded.init"); MUST_NOT(cstl_guarded_ptr_set(d, blk), "guarded.set"); break;
        case 1: MUST_NOT(cstl_guarded_ptr_set(d, blk), "guarded.set-on-raw-storage"); break;
        default: MUST_NOT(cstl_guarded_ptr_copy(d, src), "guarded.copy-to-raw-storage"); break;
        }
        MUST_NOT(got = cstl_guarded_ptr_get(d), "guarded.get");
        VRT_CHECK(got == blk, "guard.proper-use-wrong.guarded.get", "get after init/set/copy yields another pointer");
        MUST_NOT(cstl_guarded_ptr_copy(d2, d), "guarded.copy-to-raw-storage");
        MUST_NOT(got = (void *)cstl_guarded_ptr_get_const(d2), "guarded.get_const");
        VRT_CHECK(got == blk, "guard.proper-use-wrong.guarded.copy", "the copy yields another pointer");
        /* copy over an initialised, occupied destination */
        MUST_NOT(cstl_guarded_ptr_copy(d2, live), "guarded.copy-to-occupied");
        MUST_NOT(cstl_guarded_ptr_swap(d, d2), "guarded.swap");
        MUST_NOT(got = cstl_guarded_ptr_get(d), "guarded.get");
        VRT_CHECK(got == blk2 && cstl_guarded_ptr_get(d2) == blk, "guard.proper-use-wrong.guarded.swap", "swap did not exchange the pointers");
        MUST_NOT(cstl_guarded_ptr_init(d), "guarded.init-occupied");
        VRT_CHECK(cstl_guarded_ptr_get(d) == NULL && cstl_guarded_ptr_get(live) == blk2 && cstl_guarded_ptr_get(src) == blk,
                  "guard.proper-use-wrong.guarded.originals", "the other objects changed");
        vrt_free(blk); vrt_free(blk2); vrt_free(live); vrt_free(src); vrt_free(d); vrt_free(d2);
        break;
    }
    case KU: {
        cstl_unique_ptr_t *live = vrt_alloc(sizeof(*live)), *d, *d2;
        void *volatile got = NULL; void *m1;
        cstl_unique_ptr_init(live); cstl_unique_ptr_alloc(live, 24, clr_cb, NULL);
        d = storage(sizeof(*d), pr, live); d2 = storage(sizeof(*d2), pr, live);
        MUST_NOT(cstl_unique_ptr_init(d), "unique.init"); MUST_NOT(cstl_unique_ptr_init(d2), "unique.init");
        MUST_NOT(got = cstl_unique_ptr_get(d), "unique.get");
        VRT_CHECK(got == NULL, "guard.proper-use-wrong.unique.init", "a freshly initialised unique pointer is not empty");
        if (v != 1) MUST_NOT(cstl_unique_ptr_alloc(d, 32, clr_cb, NULL), "unique.alloc");
        m1 = cstl_unique_ptr_get(d);
        MUST_NOT(cstl_unique_ptr_swap(d, d2), "unique.swap");
        MUST_NOT(got = cstl_unique_ptr_get(d2), "unique.get");
        VRT_CHECK(got == m1 && cstl_unique_ptr_get(d) == NULL, "guard.proper-use-wrong.unique.swap", "swap did not exchange");
        if (v == 2) { cstl_xtor_func_t *clr = NULL; void *pv = NULL; MUST_NOT(got = cstl_unique_ptr_release(d2, &clr, &pv), "unique.release");
                      VRT_CHECK(got == m1, "guard.proper-use-wrong.unique.release", "release yields another pointer"); if (got) vrt_lib_free_block(got); }
        MUST_NOT(cstl_unique_ptr_reset(d2), "unique.reset"); MUST_NOT(cstl_unique_ptr_reset(d), "unique.reset");
        VRT_CHECK(cstl_unique_ptr_get(live) != NULL, "guard.proper-use-wrong.unique.originals", "the other object changed");
        cstl_unique_ptr_reset(live);
        VRT_CHECK(vrt_lib_live() == 0, "guard.proper-use-wrong.unique.leak", "%zu library blocks live", vrt_lib_live());
        vrt_free(live); vrt_free(d); vrt_free(d2);
        break;
    }
    case KS: case KW: {
        cstl_shared_ptr_t *live = vrt_alloc(sizeof(*live)), *d, *d2, *d3;
        cstl_weak_ptr_t *w, *w2;
        void *volatile got = NULL; void *m1; volatile int un = 0;
        cstl_shared_ptr_init(live); cstl_shared_ptr_alloc(live, 24, clr_cb);
        d = storage(sizeof(*d), pr, live); d2 = storage(sizeof(*d2), pr, live); d3 = storage(sizeof(*d3), pr, live);
        w = storage(sizeof(*w), pr, live); w2 = storage(sizeof(*w2), pr, live);
        MUST_NOT(cstl_shared_ptr_init(d), "shared.init"); MUST_NOT(cstl_shared_ptr_init(d2), "shared.init"); MUST_NOT(cstl_shared_ptr_init(d3), "shared.init");
        MUST_NOT(cstl_weak_ptr_init(w), "weak.init"); MUST_NOT(cstl_weak_ptr_init(w2), "weak.init");
        MUST_NOT(got = cstl_shared_ptr_get(d), "shared.get");
        VRT_CHECK(got == NULL, "guard.proper-use-wrong.shared.init", "a freshly initialised shared pointer is not empty");
        if (v != 1) MUST_NOT(cstl_shared_ptr_alloc(d, 32, clr_cb), "shared.alloc");
        m1 = cstl_shared_ptr_get(d);
        MUST_NOT(cstl_shared_ptr_share(d, d2), "shared.share");
        MUST_NOT(cstl_shared_ptr_share(live, d3), "shared.share");
        MUST_NOT(cstl_shared_ptr_swap(d2, d3), "shared.swap");           /* d3: m1, d2: live's */
        MUST_NOT(un = cstl_shared_ptr_unique(d), "shared.unique");
        VRT_CHECK(cstl_shared_ptr_get(d3) == m1 && cstl_shared_ptr_get(d2) == cstl_shared_ptr_get(live) && (m1 == NULL || !un),
                  "guard.proper-use-wrong.shared.share-swap", "share/swap/unique results are wrong");
        MUST_NOT(cstl_weak_ptr_from(w, d), "weak.from");
        MUST_NOT(cstl_weak_ptr_from(w2, live), "weak.from");
        MUST_NOT(cstl_weak_ptr_swap(w, w2), "weak.swap");                /* w: live's, w2: m1 */
        MUST_NOT(cstl_weak_ptr_from(w, d), "weak.from-occupied");        /* w: m1 */
        MUST_NOT(cstl_shared_ptr_reset(d2), "shared.reset");
        MUST_NOT(cstl_weak_ptr_lock(w2, d2), "weak.lock");
        VRT_CHECK(cstl_shared_ptr_get(d2) == m1, "guard.proper-use-wrong.weak.lock", "lock yields another allocation");
        if (v == 2) {   /* weak-only, then expired lock */
            MUST_NOT(cstl_shared_ptr_reset(d), "shared.reset"); MUST_NOT(cstl_shared_ptr_reset(d2), "shared.reset"); MUST_NOT(cstl_shared_ptr_reset(d3), "shared.reset");
            MUST_NOT(cstl_weak_ptr_lock(w, d), "weak.lock-expired");
            VRT_CHECK(cstl_shared_ptr_get(d) == NULL, "guard.proper-use-wrong.weak.lock-expired", "lock of an expired weak pointer yields memory");
        }
        MUST_NOT(cstl_weak_ptr_reset(w), "weak.reset"); MUST_NOT(cstl_weak_ptr_reset(w2), "weak.reset");
        MUST_NOT(cstl_shared_ptr_reset(d), "shared.reset"); MUST_NOT(cstl_shared_ptr_reset(d2), "shared.reset"); MUST_NOT(cstl_shared_ptr_reset(d3), "shared.reset");
        VRT_CHECK(cstl_shared_ptr_get(live) != NULL && cstl_shared_ptr_unique(live), "guard.proper-use-wrong.shared.originals", "the other object changed");
        cstl_shared_ptr_reset(live);
        VRT_CHECK(vrt_lib_live() == 0, "guard.proper-use-wrong.shared.leak", "%zu library blocks live", vrt_lib_live());
        vrt_free(live); vrt_free(d); vrt_free(d2); vrt_free(d3); vrt_free(w); vrt_free(w2);
        break;
    }
    default: {
        cstl_array_t *live = vrt_alloc(sizeof(*live)), *d, *d2, *d3;
        void *ext = vrt_alloc(5 * 8), *rel = NULL;
        volatile size_t sz = 0; void *volatile got = NULL;
        cstl_array_init(live); cstl_array_alloc(live, 3, 8);
        d = storage(sizeof(*d), pr, live); d2 = storage(sizeof(*d2), pr, live); d3 = storage(sizeof(*d3), pr, live);
        MUST_NOT(cstl_array_init(d), "array.init"); MUST_NOT(cstl_array_init(d2), "array.init"); MUST_NOT(cstl_array_init(d3), "array.init");
        MUST_NOT(sz = cstl_array_size(d), "array.size");
        VRT_CHECK(sz == 0, "guard.proper-use-wrong.array.init", "a freshly initialised array is not empty");
        if (v == 1) MUST_NOT(cstl_array_set(d, ext, 5, 8), "array.set"); else MUST_NOT(cstl_array_alloc(d, 5, 8), "array.alloc");
        MUST_NOT(cstl_array_slice(d, 1, 4, d2), "array.slice");
        MUST_NOT(cstl_array_slice(d2, 1, 2, d2), "array.slice-in-place");
        MUST_NOT(cstl_array_unslice(d2, d3), "array.unslice");
        MUST_NOT(got = cstl_array_at(d2, 0), "array.at");
        VRT_CHECK(got == (char *)cstl_array_data(d) + 2 * 8 && cstl_array_size(d3) == 5, "guard.proper-use-wrong.array.slice", "slice/unslice results are wrong");
        MUST_NOT(cstl_array_slice(live, 0, 1, d3), "array.slice-to-occupied");
        if (v == 2) { MUST_NOT(cstl_array_alloc(d2, 2, 8), "array.alloc-occupied"); }
        MUST_NOT(cstl_array_reset(d2), "array.reset"); MUST_NOT(cstl_array_reset(d3), "array.reset");
        if (v == 1) { MUST_NOT(cstl_array_release(d, &rel), "array.release"); VRT_CHECK(rel == ext, "guard.proper-use-wrong.array.release", "release did not hand the buffer back"); }
        MUST_NOT(cstl_array_reset(d), "array.reset");
        VRT_CHECK(cstl_array_size(live) == 3, "guard.proper-use-wrong.array.originals", "the other object changed");
        cstl_array_reset(live);
        VRT_CHECK(vrt_lib_live() == 0, "guard.proper-use-wrong.array.leak", "%zu library blocks live", vrt_lib_live());
        vrt_free(ext); vrt_free(live); vrt_free(d); vrt_free(d2); vrt_free(d3);
        break;
    }
    }
    VRT_COUNT("proper-use.cells");
}

/* ---------------- guarded ---------------- */
static void cell_guarded(const struct cell *c)
{
    struct cstl_guarded_ptr *o = vrt_alloc(sizeof(*o)), *x, *other = vrt_alloc(sizeof(*other));
    void *blk = vrt_alloc(16);
    int ab;
    void *ov = o;
    cstl_guarded_ptr_init(o); cstl_guarded_ptr_init(other);
    if (c->state == 1) cstl_guarded_ptr_set(o, blk);
    x = stray(&ov, sizeof(*o), c->way); o = ov;
    vrt_state(gstate[c->state]);
    VRT_OP2("guarded_ptr.probe", "probe %ld way %ld", c->probe, c->way);
    switch (c->probe) {
    case G_GET: ab = VRT_ABORTS((void)cstl_guarded_ptr_get(x)); break;
    case G_GET_CONST: ab = VRT_ABORTS((void)cstl_guarded_ptr_get_const(x)); break;
    case G_COPY_SRC: ab = VRT_ABORTS(cstl_guarded_ptr_copy(other, x)); break;
    case G_SWAP_A: ab = VRT_ABORTS(cstl_guarded_ptr_swap(x, other)); break;
    default: ab = VRT_ABORTS(cstl_guarded_ptr_swap(other, x)); break;
    }
    must_abort(ab, c, gstate[c->state], gprobe[c->probe]);
    if (o != NULL) {
        VRT_OP0("guarded_ptr.get", "original after the stray probe");
        VRT_CHECK(cstl_guarded_ptr_get(o) == (c->state == 1 ? blk : NULL), "guard.original-broken.guarded", "original guarded pointer changed");
        VRT_COUNT("originals-exercised");
    }
    VRT_CHECK(cstl_guarded_ptr_get(other) == NULL, "guard.proper-argument-changed.guarded", "the proper argument was modified before the abort");
    vrt_free(blk); vrt_free(x); vrt_free(other); if (o) vrt_free(o);
}

/* ---------------- unique ---------------- */
static void cell_unique(const struct cell *c)
{
    cstl_unique_ptr_t *o = vrt_alloc(sizeof(*o)), *x, *other = vrt_alloc(sizeof(*other));
    void *ov = o, *mem = NULL;
    int ab;
    cstl_unique_ptr_init(o); cstl_unique_ptr_init(other);
    if (c->state == 1) { cstl_unique_ptr_alloc(o, 32, clr_cb, NULL); mem = cstl_unique_ptr_get(o); }
    x = stray(&ov, sizeof(*o), c->way); o = ov;
    vrt_state(ustate[c->state]);
    VRT_OP2("unique_ptr.probe", "probe %ld way %ld", c->probe, c->way);
    switch (c->probe) {
    case U_GET: ab = VRT_ABORTS((void)cstl_unique_ptr_get(x)); break;
    case U_GET_CONST: ab = VRT_ABORTS((void)cstl_unique_ptr_get_const(x)); break;
    case U_RELEASE: ab = VRT_ABORTS((void)cstl_unique_ptr_release(x, NULL, NULL)); break;
    case U_SWAP_A: ab = VRT_ABORTS(cstl_unique_ptr_swap(x, other)); break;
    case U_SWAP_B: ab = VRT_ABORTS(cstl_unique_ptr_swap(other, x)); break;
    case U_RESET: ab = VRT_ABORTS(cstl_unique_ptr_reset(x)); break;
    case U_ALLOC: ab = VRT_ABORTS(cstl_unique_ptr_alloc(x, 8, NULL, NULL)); break;
    default: ab = VRT_ABORTS(cstl_unique_ptr_alloc(x, 0, NULL, NULL)); break;
    }
    must_abort(ab, c, ustate[c->state], uprobe[c->probe]);
    VRT_OP0("unique_ptr.reset", "original / proper objects after the stray probe");
    if (o != NULL) {
        VRT_CHECK(cstl_unique_ptr_get(o) == mem, "guard.original-broken.unique", "original unique pointer changed");
        cstl_unique_ptr_reset(o);
        VRT_COUNT("originals-exercised");
    } else if (mem != NULL) {
        /* relocated: nobody can legitimately reach the block any more; release it from the harness */
        vrt_lib_free_block(mem);
    }
    cstl_unique_ptr_reset(other);
    VRT_CHECK(vrt_lib_live() == 0, "guard.leak-or-early-free.unique", "%zu library blocks live after releasing the originals", vrt_lib_live());
    vrt_free(x); vrt_free(other); if (o) vrt_free(o);
}

/* ---------------- shared / weak ---------------- */
static void release_blocks_of_relocated(void)
{
    /* after a relocation the counted reference is unreachable; drop whatever is left */
    vrt_lib_forget_all();
}

static void cell_shared(const struct cell *c)
{
    cstl_shared_ptr_t *o = vrt_alloc(sizeof(*o)), *x, *other = vrt_alloc(sizeof(*other)), *co = vrt_alloc(sizeof(*co));
    cstl_weak_ptr_t *wk = vrt_alloc(sizeof(*wk));
    void *ov = o, *mem = NULL;
    int ab;
    cstl_shared_ptr_init(o); cstl_shared_ptr_init(other); cstl_shared_ptr_init(co); cstl_weak_ptr_init(wk);
    if (c->state >= 1) { cstl_shared_ptr_alloc(o, 32, clr_cb); mem = cstl_shared_ptr_get(o); }
    if (c->state == 2) cstl_shared_ptr_share(o, co);
    /* "other" owns something of its own so that a wrongly executed transfer is visible */
    cstl_shared_ptr_alloc(other, 16, clr_cb);
    if (c->probe == S_LOCK_SP && c->state >= 1) cstl_weak_ptr_from(wk, other);
    if (c->probe == S_LOCK_SP_SAME_BLOCK) cstl_weak_ptr_from(wk, o);
    if (c->probe == S_SHARE_DST_EMPTY_SRC) cstl_shared_ptr_reset(other);
    if (c->probe == S_SHARE_DST_COPY_OF_COOWNER && c->state == 1) cstl_shared_ptr_share(o, co);
    x = stray(&ov, sizeof(*o), c->way); o = ov;
    vrt_state(sstate[c->state]);
    VRT_OP2("shared_ptr.probe", "probe %ld way %ld", c->probe, c->way);
    switch (c->probe) {
    case S_GET: ab = VRT_ABORTS((void)cstl_shared_ptr_get(x)); break;
    case S_GET_CONST: ab = VRT_ABORTS((void)cstl_shared_ptr_get_const(x)); break;
    case S_UNIQUE: ab = VRT_ABORTS((void)cstl_shared_ptr_unique(x)); break;
    case S_SHARE_SRC: ab = VRT_ABORTS(cstl_shared_ptr_share(x, other)); break;
    case S_SHARE_DST: ab = VRT_ABORTS(cstl_shared_ptr_share(other, x)); break;
    case S_SWAP_A: ab = VRT_ABORTS(cstl_shared_ptr_swap(x, other)); break;
    case S_SWAP_B: ab = VRT_ABORTS(cstl_shared_ptr_swap(other, x)); break;
    case S_RESET: ab = VRT_ABORTS(cstl_shared_ptr_reset(x)); break;
    case S_ALLOC: ab = VRT_ABORTS(cstl_shared_ptr_alloc(x, 8, NULL)); break;
    case S_WEAK_FROM_SP: ab = VRT_ABORTS(cstl_weak_ptr_from(wk, x)); break;
    case S_LOCK_SP: case S_LOCK_SP_SAME_BLOCK: ab = VRT_ABORTS(cstl_weak_ptr_lock(wk, x)); break;
    case S_SHARE_DST_EMPTY_SRC: ab = VRT_ABORTS(cstl_shared_ptr_share(other, x)); break;
    case S_ALLOC_ZERO: ab = VRT_ABORTS(cstl_shared_ptr_alloc(x, 0, NULL)); break;
    case S_SHARE_DST_COPY_OF_COOWNER:
        /* the stray destination refers to the very control block the source owns */
        ab = VRT_ABORTS(cstl_shared_ptr_share(co, x)); break;
    default:
        /* the destination is a stray copy of the source itself (needs the original: not for relocation) */
        if (o == NULL) { VRT_COUNT("cells.not-in-scope.copy-of-src-after-relocation"); ab = 1; break; }
        ab = VRT_ABORTS(cstl_shared_ptr_share(o, x)); break;
    }
    must_abort(ab, c, sstate[c->state], sprobe[c->probe]);
    VRT_OP0("shared_ptr.reset", "original / proper objects after the stray probe");
    if (o != NULL) {
        VRT_CHECK(cstl_shared_ptr_get(o) == mem, "guard.original-broken.shared", "original shared pointer no longer yields its memory");
        if (mem != NULL) VRT_CHECK(*(unsigned char *)mem != 0xa5, "guard.original-memory-cleared.shared", "the original's memory was cleared through the stray copy");
        cstl_shared_ptr_reset(o);
        VRT_COUNT("originals-exercised");
    }
    cstl_shared_ptr_reset(co); cstl_shared_ptr_reset(other); cstl_weak_ptr_reset(wk);
    if (o == NULL && c->state >= 1) release_blocks_of_relocated();
    VRT_CHECK(vrt_lib_live() == 0, "guard.leak-or-early-free.shared", "%zu library blocks live after releasing the originals", vrt_lib_live());
    vrt_free(x); vrt_free(other); vrt_free(co); vrt_free(wk); if (o) vrt_free(o);
}

static void cell_weak(const struct cell *c)
{
    cstl_weak_ptr_t *o = vrt_alloc(sizeof(*o)), *x, *otherw = vrt_alloc(sizeof(*otherw));
    cstl_shared_ptr_t *owner = vrt_alloc(sizeof(*owner)), *tgt = vrt_alloc(sizeof(*tgt));
    void *ov = o;
    int ab;
    cstl_weak_ptr_init(o); cstl_weak_ptr_init(otherw); cstl_shared_ptr_init(owner); cstl_shared_ptr_init(tgt);
    if (c->state >= 1) { cstl_shared_ptr_alloc(owner, 32, clr_cb); cstl_weak_ptr_from(o, owner); }
    if (c->state == 2) cstl_shared_ptr_reset(owner);     /* owners gone: weak-only */
    x = stray(&ov, sizeof(*o), c->way); o = ov;
    vrt_state(wstate[c->state]);
    VRT_OP2("weak_ptr.probe", "probe %ld way %ld", c->probe, c->way);
    switch (c->probe) {
    case WP_FROM_WP: case WP_FROM_WP_SAME_BLOCK: ab = VRT_ABORTS(cstl_weak_ptr_from(x, owner)); break;
    case WP_LOCK_WP: ab = VRT_ABORTS(cstl_weak_ptr_lock(x, tgt)); break;
    case WP_SWAP_A: ab = VRT_ABORTS(cstl_weak_ptr_swap(x, otherw)); break;
    case WP_SWAP_B: ab = VRT_ABORTS(cstl_weak_ptr_swap(otherw, x)); break;
    default: ab = VRT_ABORTS(cstl_weak_ptr_reset(x)); break;
    }
    must_abort(ab, c, wstate[c->state], wprobe[c->probe]);
    VRT_OP0("weak_ptr.reset", "original / proper objects after the stray probe");
    if (o != NULL) {
        cstl_weak_ptr_lock(o, tgt);
        VRT_CHECK((cstl_shared_ptr_get(tgt) != NULL) == (c->state == 1), "guard.original-broken.weak", "original weak pointer locks wrongly after the probe");
        cstl_weak_ptr_reset(o);
        VRT_COUNT("originals-exercised");
    }
    cstl_shared_ptr_reset(tgt); cstl_shared_ptr_reset(owner); cstl_weak_ptr_reset(otherw);
    if (o == NULL && c->state >= 1) release_blocks_of_relocated();
    VRT_CHECK(vrt_lib_live() == 0, "guard.leak-or-early-free.weak", "%zu library blocks live after releasing the originals", vrt_lib_live());
    vrt_free(x); vrt_free(otherw); vrt_free(owner); vrt_free(tgt); if (o) vrt_free(o);
}

/* ---------------- array ---------------- */
static void cell_array(const struct cell *c)
{
    cstl_array_t *o = vrt_alloc(sizeof(*o)), *x, *base = vrt_alloc(sizeof(*base)), *other = vrt_alloc(sizeof(*other));
    void *ov = o, *ext = vrt_alloc(4 * 8), *rel = NULL;
    int ab, applicable = 1;
    cstl_array_init(o); cstl_array_init(base); cstl_array_init(other);
    switch (c->state) {
    case 1: cstl_array_alloc(o, 4, 8); break;
    case 2: cstl_array_alloc(base, 6, 8); cstl_array_slice(base, 1, 4, o); break;
    case 3: cstl_array_set(o, ext, 4, 8); break;
    default: break;
    }
    cstl_array_alloc(other, 3, 8);
    x = stray(&ov, sizeof(*o), c->way); o = ov;
    vrt_state(astate[c->state]);
    VRT_OP2("array.probe", "probe %ld way %ld", c->probe, c->way);
    switch (c->probe) {
    case A_ALLOC: ab = VRT_ABORTS(cstl_array_alloc(x, 2, 8)); break;
    case A_SET: ab = VRT_ABORTS(cstl_array_set(x, ext, 4, 8)); break;
    case A_RELEASE: ab = VRT_ABORTS(cstl_array_release(x, &rel)); break;
    case A_DATA: ab = VRT_ABORTS((void)cstl_array_data(x)); break;
    case A_DATA_CONST: ab = VRT_ABORTS((void)cstl_array_data_const(x)); break;
    case A_AT:
        /* an index >= size aborts anyway: only cells with i < size separate the guard from the bounds check */
        if (c->state == 0) { applicable = 0; ab = 1; break; }
        ab = VRT_ABORTS((void)cstl_array_at(x, 0)); break;
    case A_AT_CONST:
        if (c->state == 0) { applicable = 0; ab = 1; break; }
        ab = VRT_ABORTS((void)cstl_array_at_const(x, 0)); break;
    case A_SLICE_A: ab = VRT_ABORTS(cstl_array_slice(x, 0, 0, other)); break;
    case A_SLICE_S: ab = VRT_ABORTS(cstl_array_slice(other, 0, 1, x)); break;
    case A_SLICE_INPLACE: ab = VRT_ABORTS(cstl_array_slice(x, 0, 0, x)); break;
    case A_UNSLICE_S: ab = VRT_ABORTS(cstl_array_unslice(x, other)); break;
    case A_UNSLICE_A: ab = VRT_ABORTS(cstl_array_unslice(other, x)); break;
    case A_UNSLICE_INPLACE: ab = VRT_ABORTS(cstl_array_unslice(x, x)); break;
    case A_RESET: ab = VRT_ABORTS(cstl_array_reset(x)); break;
    /* requests that take the rarely used paths of alloc/set must still look at the pointer first */
    case A_ALLOC_UNREPRESENTABLE: ab = VRT_ABORTS(cstl_array_alloc(x, SIZE_MAX / 4, 8)); break;
    case A_ALLOC_ZERO: ab = VRT_ABORTS(cstl_array_alloc(x, 0, 8)); break;
    case A_SET_NULL: ab = VRT_ABORTS(cstl_array_set(x, NULL, 0, 8)); break;
    case A_SLICE_S_COPY_OF_A:
        /* `s = a; cstl_array_slice(&a, i, j, &s)`: the stray destination shares the source's control block */
        if (o == NULL || c->state == 0) { applicable = 0; ab = 1; break; }
        ab = VRT_ABORTS(cstl_array_slice(o, 0, 1, x)); break;
    default:
        if (o == NULL || c->state == 0) { applicable = 0; ab = 1; break; }
        ab = VRT_ABORTS(cstl_array_unslice(o, x)); break;
    }
    if (!applicable) { VRT_COUNT("cells.not-in-scope.at-on-empty-or-copy-after-relocation"); }
    else must_abort(ab, c, astate[c->state], aprobe[c->probe]);
    VRT_OP0("array.reset", "original / proper objects after the stray probe");
    if (o != NULL) {
        if (c->state != 0) {
            VRT_CHECK(cstl_array_size(o) == (c->state == 2 ? 3u : 4u), "guard.original-broken.array.size", "original array size changed");
            *(volatile char *)cstl_array_at(o, 0) = 1;
            *(volatile char *)cstl_array_at(o, cstl_array_size(o) - 1) = 1;
        }
        cstl_array_reset(o);
        VRT_COUNT("originals-exercised");
    }
    cstl_array_reset(base); cstl_array_reset(other);
    if (o == NULL && c->state >= 1) release_blocks_of_relocated();
    VRT_CHECK(vrt_lib_live() == 0, "guard.leak-or-early-free.array", "%zu library blocks live after releasing the originals", vrt_lib_live());
    vrt_free(ext);
    vrt_free(x); vrt_free(base); vrt_free(other); if (o) vrt_free(o);
}

static void run_case(uint64_t idx)
{
    const struct cell *c = &cells[idx];
    const char *st, *pr;
    char nm[96];
    switch (c->kind) {
    case KG: st = gstate[c->state]; pr = gprobe[c->probe]; break;
    case KU: st = ustate[c->state]; pr = uprobe[c->probe]; break;
    case KS: st = sstate[c->state]; pr = sprobe[c->probe]; break;
    case KW: st = wstate[c->state]; pr = wprobe[c->probe]; break;
    case KC: st = prior[c->state]; pr = kname[c->probe]; break;
    default: st = astate[c->state]; pr = aprobe[c->probe]; break;
    }
    if (c->kind == KC) vrt_case_note("converse cell: proper use of %s objects in storage that held %s, variant %d", pr, st, c->way);
    else vrt_case_note("cell: %s object, state %s, strayed by %s, probe %s", kname[c->kind], st, wname[c->way], pr);
    switch (c->kind) {
    case KG: cell_guarded(c); break;
    case KU: cell_unique(c); break;
    case KS: cell_shared(c); break;
    case KW: cell_weak(c); break;
    case KC: cell_converse(c); break;
    default: cell_array(c); break;
    }
    snprintf(nm, sizeof(nm), "cells.%s.%s", kname[c->kind], pr);
    vrt_count_dyn(nm, 1);
    VRT_COUNT("cells");
    vrt_sig(0, vrt_mix(vrt_mix(c->kind * 100 + c->state, c->way), c->probe));
}
static uint64_t ncases(void) { build_cells(); return ncell; }
static void winit(void) { build_cells(); vrt_sig_name(0, "matrix-cells"); }
static const char *const required[] = { "cells.aborted-as-required", "originals-exercised", "proper-use.cells", "proper-use.calls-returned-normally", NULL };
static const struct vrt_harness H = { "guard", ncases, run_case, winit, NULL, required, 8 };
int main(int argc, char **argv) { return vrt_main(argc, argv, &H); }
