/*
 * C20 -- bitwise-copied smart pointers are caught before they can double-free.
 *
 * Matrix: object kind {guarded, unique, shared, weak, array} x object state x
 * way of straying {struct assignment, memcpy to another address, relocation
 * (bytes moved to a new address, original storage released)} x every public
 * function that reads/transfers/releases the pointer x argument position.
 * Oracle: the probed call must arrive in the library's abort() (interposed);
 * a normal return, a sanitizer report or a crash is a violation.  Afterwards
 * the original (or, for a relocation, a properly re-initialised object) is
 * exercised and everything is released; no library block may stay live.
 */
#include "vrt.h"
#include "cstl/memory.h"
#include "cstl/array.h"
#include <string.h>
#include <stdio.h>

enum { KG, KU, KS, KW, KA, NKIND };
static const char *kname[] = { "guarded", "unique", "shared", "weak", "array" };
enum { W_ASSIGN, W_MEMCPY, W_RELOCATE, NWAY };
static const char *wname[] = { "struct-assignment", "memcpy", "relocated" };

/* per kind: states and probes */
static const char *gstate[] = { "empty", "owning" };
static const char *ustate[] = { "empty", "owning" };
static const char *sstate[] = { "empty", "owning", "shared-with-another" };
static const char *wstate[] = { "empty", "live", "weak-only" };
static const char *astate[] = { "empty", "whole", "slice", "external" };

enum { G_GET, G_GET_CONST, G_COPY_SRC, G_SWAP_A, G_SWAP_B, NG };
static const char *gprobe[] = { "get", "get_const", "copy.src", "swap.a", "swap.b" };
enum { U_GET, U_GET_CONST, U_RELEASE, U_SWAP_A, U_SWAP_B, U_RESET, U_ALLOC, U_ALLOC_ZERO, NU_ };
static const char *uprobe[] = { "get", "get_const", "release", "swap.a", "swap.b", "reset", "alloc", "alloc.zero-size" };
enum { S_GET, S_GET_CONST, S_UNIQUE, S_SHARE_SRC, S_SHARE_DST, S_SWAP_A, S_SWAP_B, S_RESET, S_ALLOC, S_WEAK_FROM_SP, S_LOCK_SP,
       S_SHARE_DST_COPY_OF_SRC, S_SHARE_DST_COPY_OF_COOWNER, S_SHARE_DST_EMPTY_SRC, S_LOCK_SP_SAME_BLOCK, S_ALLOC_ZERO, NS_ };
static const char *sprobe[] = { "get", "get_const", "unique", "share.src", "share.dst", "swap.a", "swap.b", "reset", "alloc",
                                "weak_from.sp", "weak_lock.sp", "share.dst-is-copy-of-src", "share.dst-is-copy-of-coowner",
                                "share.dst.src-empty", "weak_lock.sp-refers-to-same-block", "alloc.zero-size" };
enum { WP_FROM_WP, WP_LOCK_WP, WP_SWAP_A, WP_SWAP_B, WP_RESET, WP_FROM_WP_SAME_BLOCK, NW_ };
static const char *wprobe[] = { "from.wp", "lock.wp", "swap.a", "swap.b", "reset", "from.wp-already-refers-to-sp-block" };
enum { A_ALLOC, A_SET, A_RELEASE, A_DATA, A_DATA_CONST, A_AT, A_AT_CONST, A_SLICE_A, A_SLICE_S, A_SLICE_INPLACE,
       A_UNSLICE_S, A_UNSLICE_A, A_UNSLICE_INPLACE, A_RESET, A_SLICE_S_COPY_OF_A, A_UNSLICE_A_COPY_OF_S,
       A_ALLOC_UNREPRESENTABLE, A_ALLOC_ZERO, A_SET_NULL, NA_ };
static const char *aprobe[] = { "alloc", "set", "release", "data", "data_const", "at", "at_const", "slice.a", "slice.s",
                                "slice.inplace", "unslice.s", "unslice.a", "unslice.inplace", "reset",
                                "slice.s-is-copy-of-a", "unslice.a-is-copy-of-s",
                                "alloc.unrepresentable-size", "alloc.zero-elements", "set.null-buffer" };

struct cell { int kind, state, way, probe; };
static struct cell cells[4096];
static int ncell;

static void build_cells(void)
{
    int s, w, p;
    ncell = 0;
#define ADD(K, NSTATE, NPROBE) for (s = 0; s < NSTATE; s++) for (w = 0; w < NWAY; w++) for (p = 0; p < NPROBE; p++) { \
        cells[ncell].kind = K; cells[ncell].state = s; cells[ncell].way = w; cells[ncell].probe = p; ncell++; }
    ADD(KG, 2, NG) ADD(KU, 2, NU_) ADD(KS, 3, NS_) ADD(KW, 3, NW_) ADD(KA, 4, NA_)
#undef ADD
}

static void clr_cb(void *mem, void *priv) { (void)priv; memset(mem, 0xa5, 8); VRT_COUNT("clear-callbacks"); }

/* make the stray copy of an object of size n living at *orig.  Returns the stray object's address.
 * W_RELOCATE: the bytes are moved to new storage and the old storage is released (so *orig becomes NULL). */
static void *stray(void **orig, size_t n, int way)
{
    void *c = vrt_alloc(n);
    switch (way) {
    case W_ASSIGN: {
        /* struct assignment of each kind is a plain bytewise copy; done per kind below would be identical */
        size_t i;
        for (i = 0; i < n; i++) ((volatile unsigned char *)c)[i] = ((unsigned char *)*orig)[i];
        break;
    }
    case W_MEMCPY:
        memcpy(c, *orig, n);
        break;
    default:
        memmove(c, *orig, n);
        memset(*orig, 0xdd, n);
        vrt_free(*orig);
        *orig = NULL;
        break;
    }
    return c;
}

static void must_abort(int aborted, const struct cell *c, const char *st, const char *pr)
{
    char key[160];
    if (aborted) { VRT_COUNT("cells.aborted-as-required"); return; }
    snprintf(key, sizeof(key), "guard.stray-copy-not-caught.%s.%s.%s", kname[c->kind], pr, st);
    vrt_fail(key, "%s %s (%s) through a %s copy returned normally instead of aborting", kname[c->kind], pr, st, wname[c->way]);
}

/* ---------------- guarded ---------------- */
static void cell_guarded(const struct cell *c)
{
    struct cstl_guarded_ptr *o = vrt_alloc(sizeof(*o)), *x, *other = vrt_alloc(sizeof(*other));
    void *blk = vrt_alloc(16);
    int ab;
    void *ov = o;
    cstl_guarded_ptr_init(o); cstl_guarded_ptr_init(other);
    if (c->state == 1) cstl_guarded_ptr_set(o, blk);
    x = stray(&ov, sizeof(*o), c->way); o = ov;
    vrt_state(gstate[c->state]);
    VRT_OP2("guarded_ptr.probe", "probe %ld way %ld", c->probe, c->way);
    switch (c->probe) {
    case G_GET: ab = VRT_ABORTS((void)cstl_guarded_ptr_get(x)); break;
    case G_GET_CONST: ab = VRT_ABORTS((void)cstl_guarded_ptr_get_const(x)); break;
    case G_COPY_SRC: ab = VRT_ABORTS(cstl_guarded_ptr_copy(other, x)); break;
    case G_SWAP_A: ab = VRT_ABORTS(cstl_guarded_ptr_swap(x, other)); break;
    default: ab = VRT_ABORTS(cstl_guarded_ptr_swap(other, x)); break;
    }
    must_abort(ab, c, gstate[c->state], gprobe[c->probe]);
    if (o != NULL) {
        VRT_OP0("guarded_ptr.get", "original after the stray probe");
        VRT_CHECK(cstl_guarded_ptr_get(o) == (c->state == 1 ? blk : NULL), "guard.original-broken.guarded", "original guarded pointer changed");
        VRT_COUNT("originals-exercised");
    }
    VRT_CHECK(cstl_guarded_ptr_get(other) == NULL, "guard.proper-argument-changed.guarded", "the proper argument was modified before the abort");
    vrt_free(blk); vrt_free(x); vrt_free(other); if (o) vrt_free(o);
}

/* ---------------- unique ---------------- */
static void cell_unique(const struct cell *c)
{
    cstl_unique_ptr_t *o = vrt_alloc(sizeof(*o)), *x, *other = vrt_alloc(sizeof(*other));
    void *ov = o, *mem = NULL;
    int ab;
    cstl_unique_ptr_init(o); cstl_unique_ptr_init(other);
    if (c->state == 1) { cstl_unique_ptr_alloc(o, 32, clr_cb, NULL); mem = cstl_unique_ptr_get(o); }
    x = stray(&ov, sizeof(*o), c->way); o = ov;
    vrt_state(ustate[c->state]);
    VRT_OP2("unique_ptr.probe", "probe %ld way %ld", c->probe, c->way);
    switch (c->probe) {
    case U_GET: ab = VRT_ABORTS((void)cstl_unique_ptr_get(x)); break;
    case U_GET_CONST: ab = VRT_ABORTS((void)cstl_unique_ptr_get_const(x)); break;
    case U_RELEASE: ab = VRT_ABORTS((void)cstl_unique_ptr_release(x, NULL, NULL)); break;
    case U_SWAP_A: ab = VRT_ABORTS(cstl_unique_ptr_swap(x, other)); break;
    case U_SWAP_B: ab = VRT_ABORTS(cstl_unique_ptr_swap(other, x)); break;
    case U_RESET: ab = VRT_ABORTS(cstl_unique_ptr_reset(x)); break;
    case U_ALLOC: ab = VRT_ABORTS(cstl_unique_ptr_alloc(x, 8, NULL, NULL)); break;
    default: ab = VRT_ABORTS(cstl_unique_ptr_alloc(x, 0, NULL, NULL)); break;
    }
    must_abort(ab, c, ustate[c->state], uprobe[c->probe]);
    VRT_OP0("unique_ptr.reset", "original / proper objects after the stray probe");
    if (o != NULL) {
        VRT_CHECK(cstl_unique_ptr_get(o) == mem, "guard.original-broken.unique", "original unique pointer changed");
        cstl_unique_ptr_reset(o);
        VRT_COUNT("originals-exercised");
    } else if (mem != NULL) {
        /* relocated: nobody can legitimately reach the block any more; release it from the harness */
        vrt_lib_free_block(mem);
    }
    cstl_unique_ptr_reset(other);
    VRT_CHECK(vrt_lib_live() == 0, "guard.leak-or-early-free.unique", "%zu library blocks live after releasing the originals", vrt_lib_live());
    vrt_free(x); vrt_free(other); if (o) vrt_free(o);
}

/* ---------------- shared / weak ---------------- */
static void release_blocks_of_relocated(void)
{
    /* after a relocation the counted reference is unreachable; drop whatever is left */
    vrt_lib_forget_all();
}

static void cell_shared(const struct cell *c)
{
    cstl_shared_ptr_t *o = vrt_alloc(sizeof(*o)), *x, *other = vrt_alloc(sizeof(*other)), *co = vrt_alloc(sizeof(*co));
    cstl_weak_ptr_t *wk = vrt_alloc(sizeof(*wk));
    void *ov = o, *mem = NULL;
    int ab;
    cstl_shared_ptr_init(o); cstl_shared_ptr_init(other); cstl_shared_ptr_init(co); cstl_weak_ptr_init(wk);
    if (c->state >= 1) { cstl_shared_ptr_alloc(o, 32, clr_cb); mem = cstl_shared_ptr_get(o); }
    if (c->state == 2) cstl_shared_ptr_share(o, co);
    /* "other" owns something of its own so that a wrongly executed transfer is visible */
    cstl_shared_ptr_alloc(other, 16, clr_cb);
    if (c->probe == S_LOCK_SP && c->state >= 1) cstl_weak_ptr_from(wk, other);
    if (c->probe == S_LOCK_SP_SAME_BLOCK) cstl_weak_ptr_from(wk, o);
    if (c->probe == S_SHARE_DST_EMPTY_SRC) cstl_shared_ptr_reset(other);
    if (c->probe == S_SHARE_DST_COPY_OF_COOWNER && c->state == 1) cstl_shared_ptr_share(o, co);
    x = stray(&ov, sizeof(*o), c->way); o = ov;
    vrt_state(sstate[c->state]);
    VRT_OP2("shared_ptr.probe", "probe %ld way %ld", c->probe, c->way);
    switch (c->probe) {
    case S_GET: ab = VRT_ABORTS((void)cstl_shared_ptr_get(x)); break;
    case S_GET_CONST: ab = VRT_ABORTS((void)cstl_shared_ptr_get_const(x)); break;
    case S_UNIQUE: ab = VRT_ABORTS((void)cstl_shared_ptr_unique(x)); break;
    case S_SHARE_SRC: ab = VRT_ABORTS(cstl_shared_ptr_share(x, other)); break;
    case S_SHARE_DST: ab = VRT_ABORTS(cstl_shared_ptr_share(other, x)); break;
    case S_SWAP_A: ab = VRT_ABORTS(cstl_shared_ptr_swap(x, other)); break;
    case S_SWAP_B: ab = VRT_ABORTS(cstl_shared_ptr_swap(other, x)); break;
    case S_RESET: ab = VRT_ABORTS(cstl_shared_ptr_reset(x)); break;
    case S_ALLOC: ab = VRT_ABORTS(cstl_shared_ptr_alloc(x, 8, NULL)); break;
    case S_WEAK_FROM_SP: ab = VRT_ABORTS(cstl_weak_ptr_from(wk, x)); break;
    case S_LOCK_SP: case S_LOCK_SP_SAME_BLOCK: ab = VRT_ABORTS(cstl_weak_ptr_lock(wk, x)); break;
    case S_SHARE_DST_EMPTY_SRC: ab = VRT_ABORTS(cstl_shared_ptr_share(other, x)); break;
    case S_ALLOC_ZERO: ab = VRT_ABORTS(cstl_shared_ptr_alloc(x, 0, NULL)); break;
    case S_SHARE_DST_COPY_OF_COOWNER:
        /* the stray destination refers to the very control block the source owns */
        ab = VRT_ABORTS(cstl_shared_ptr_share(co, x)); break;
    default:
        /* the destination is a stray copy of the source itself (needs the original: not for relocation) */
        if (o == NULL) { VRT_COUNT("cells.not-in-scope.copy-of-src-after-relocation"); ab = 1; break; }
        ab = VRT_ABORTS(cstl_shared_ptr_share(o, x)); break;
    }
    must_abort(ab, c, sstate[c->state], sprobe[c->probe]);
    VRT_OP0("shared_ptr.reset", "original / proper objects after the stray probe");
    if (o != NULL) {
        VRT_CHECK(cstl_shared_ptr_get(o) == mem, "guard.original-broken.shared", "original shared pointer no longer yields its memory");
        if (mem != NULL) VRT_CHECK(*(unsigned char *)mem != 0xa5, "guard.original-memory-cleared.shared", "the original's memory was cleared through the stray copy");
        cstl_shared_ptr_reset(o);
        VRT_COUNT("originals-exercised");
    }
    cstl_shared_ptr_reset(co); cstl_shared_ptr_reset(other); cstl_weak_ptr_reset(wk);
    if (o == NULL && c->state >= 1) release_blocks_of_relocated();
    VRT_CHECK(vrt_lib_live() == 0, "guard.leak-or-early-free.shared", "%zu library blocks live after releasing the originals", vrt_lib_live());
    vrt_free(x); vrt_free(other); vrt_free(co); vrt_free(wk); if (o) vrt_free(o);
}

static void cell_weak(const struct cell *c)
{
    cstl_weak_ptr_t *o = vrt_alloc(sizeof(*o)), *x, *otherw = vrt_alloc(sizeof(*otherw));
    cstl_shared_ptr_t *owner = vrt_alloc(sizeof(*owner)), *tgt = vrt_alloc(sizeof(*tgt));
    void *ov = o;
    int ab;
    cstl_weak_ptr_init(o); cstl_weak_ptr_init(otherw); cstl_shared_ptr_init(owner); cstl_shared_ptr_init(tgt);
    if (c->state >= 1) { cstl_shared_ptr_alloc(owner, 32, clr_cb); cstl_weak_ptr_from(o, owner); }
    if (c->state == 2) cstl_shared_ptr_reset(owner);     /* owners gone: weak-only */
    x = stray(&ov, sizeof(*o), c->way); o = ov;
    vrt_state(wstate[c->state]);
    VRT_OP2("weak_ptr.probe", "probe %ld way %ld", c->probe, c->way);
    switch (c->probe) {
    case WP_FROM_WP: case WP_FROM_WP_SAME_BLOCK: ab = VRT_ABORTS(cstl_weak_ptr_from(x, owner)); break;
    case WP_LOCK_WP: ab = VRT_ABORTS(cstl_weak_ptr_lock(x, tgt)); break;
    case WP_SWAP_A: ab = VRT_ABORTS(cstl_weak_ptr_swap(x, otherw)); break;
    case WP_SWAP_B: ab = VRT_ABORTS(cstl_weak_ptr_swap(otherw, x)); break;
    default: ab = VRT_ABORTS(cstl_weak_ptr_reset(x)); break;
    }
    must_abort(ab, c, wstate[c->state], wprobe[c->probe]);
    VRT_OP0("weak_ptr.reset", "original / proper objects after the stray probe");
    if (o != NULL) {
        cstl_weak_ptr_lock(o, tgt);
        VRT_CHECK((cstl_shared_ptr_get(tgt) != NULL) == (c->state == 1), "guard.original-broken.weak", "original weak pointer locks wrongly after the probe");
        cstl_weak_ptr_reset(o);
        VRT_COUNT("originals-exercised");
    }
    cstl_shared_ptr_reset(tgt); cstl_shared_ptr_reset(owner); cstl_weak_ptr_reset(otherw);
    if (o == NULL && c->state >= 1) release_blocks_of_relocated();
    VRT_CHECK(vrt_lib_live() == 0, "guard.leak-or-early-free.weak", "%zu library blocks live after releasing the originals", vrt_lib_live());
    vrt_free(x); vrt_free(otherw); vrt_free(owner); vrt_free(tgt); if (o) vrt_free(o);
}

/* ---------------- array ---------------- */
static void cell_array(const struct cell *c)
{
    cstl_array_t *o = vrt_alloc(sizeof(*o)), *x, *base = vrt_alloc(sizeof(*base)), *other = vrt_alloc(sizeof(*other));
    void *ov = o, *ext = vrt_alloc(4 * 8), *rel = NULL;
    int ab, applicable = 1;
    cstl_array_init(o); cstl_array_init(base); cstl_array_init(other);
    switch (c->state) {
    case 1: cstl_array_alloc(o, 4, 8); break;
    case 2: cstl_array_alloc(base, 6, 8); cstl_array_slice(base, 1, 4, o); break;
    case 3: cstl_array_set(o, ext, 4, 8); break;
    default: break;
    }
    cstl_array_alloc(other, 3, 8);
    x = stray(&ov, sizeof(*o), c->way); o = ov;
    vrt_state(astate[c->state]);
    VRT_OP2("array.probe", "probe %ld way %ld", c->probe, c->way);
    switch (c->probe) {
    case A_ALLOC: ab = VRT_ABORTS(cstl_array_alloc(x, 2, 8)); break;
    case A_SET: ab = VRT_ABORTS(cstl_array_set(x, ext, 4, 8)); break;
    case A_RELEASE: ab = VRT_ABORTS(cstl_array_release(x, &rel)); break;
    case A_DATA: ab = VRT_ABORTS((void)cstl_array_data(x)); break;
    case A_DATA_CONST: ab = VRT_ABORTS((void)cstl_array_data_const(x)); break;
    case A_AT:
        /* an index >= size aborts anyway: only cells with i < size separate the guard from the bounds check */
        if (c->state == 0) { applicable = 0; ab = 1; break; }
        ab = VRT_ABORTS((void)cstl_array_at(x, 0)); break;
    case A_AT_CONST:
        if (c->state == 0) { applicable = 0; ab = 1; break; }
        ab = VRT_ABORTS((void)cstl_array_at_const(x, 0)); break;
    case A_SLICE_A: ab = VRT_ABORTS(cstl_array_slice(x, 0, 0, other)); break;
    case A_SLICE_S: ab = VRT_ABORTS(cstl_array_slice(other, 0, 1, x)); break;
    case A_SLICE_INPLACE: ab = VRT_ABORTS(cstl_array_slice(x, 0, 0, x)); break;
    case A_UNSLICE_S: ab = VRT_ABORTS(cstl_array_unslice(x, other)); break;
    case A_UNSLICE_A: ab = VRT_ABORTS(cstl_array_unslice(other, x)); break;
    case A_UNSLICE_INPLACE: ab = VRT_ABORTS(cstl_array_unslice(x, x)); break;
    case A_RESET: ab = VRT_ABORTS(cstl_array_reset(x)); break;
    /* requests that take the rarely used paths of alloc/set must still look at the pointer first */
    case A_ALLOC_UNREPRESENTABLE: ab = VRT_ABORTS(cstl_array_alloc(x, SIZE_MAX / 4, 8)); break;
    case A_ALLOC_ZERO: ab = VRT_ABORTS(cstl_array_alloc(x, 0, 8)); break;
    case A_SET_NULL: ab = VRT_ABORTS(cstl_array_set(x, NULL, 0, 8)); break;
    case A_SLICE_S_COPY_OF_A:
        /* `s = a; cstl_array_slice(&a, i, j, &s)`: the stray destination shares the source's control block */
        if (o == NULL || c->state == 0) { applicable = 0; ab = 1; break; }
        ab = VRT_ABORTS(cstl_array_slice(o, 0, 1, x)); break;
    default:
        if (o == NULL || c->state == 0) { applicable = 0; ab = 1; break; }
        ab = VRT_ABORTS(cstl_array_unslice(o, x)); break;
    }
    if (!applicable) { VRT_COUNT("cells.not-in-scope.at-on-empty-or-copy-after-relocation"); }
    else must_abort(ab, c, astate[c->state], aprobe[c->probe]);
    VRT_OP0("array.reset", "original / proper objects after the stray probe");
    if (o != NULL) {
        if (c->state != 0) {
            VRT_CHECK(cstl_array_size(o) == (c->state == 2 ? 3u : 4u), "guard.original-broken.array.size", "original array size changed");
            *(volatile char *)cstl_array_at(o, 0) = 1;
            *(volatile char *)cstl_array_at(o, cstl_array_size(o) - 1) = 1;
        }
        cstl_array_reset(o);
        VRT_COUNT("originals-exercised");
    }
    cstl_array_reset(base); cstl_array_reset(other);
    if (o == NULL && c->state >= 1) release_blocks_of_relocated();
    VRT_CHECK(vrt_lib_live() == 0, "guard.leak-or-early-free.array", "%zu library blocks live after releasing the originals", vrt_lib_live());
    vrt_free(ext);
    vrt_free(x); vrt_free(base); vrt_free(other); if (o) vrt_free(o);
}

static void run_case(uint64_t idx)
{
    const struct cell *c = &cells[idx];
    const char *st, *pr;
    char nm[96];
    switch (c->kind) {
    case KG: st = gstate[c->state]; pr = gprobe[c->probe]; break;
    case KU: st = ustate[c->state]; pr = uprobe[c->probe]; break;
    case KS: st = sstate[c->state]; pr = sprobe[c->probe]; break;
    case KW: st = wstate[c->state]; pr = wprobe[c->probe]; break;
    default: st = astate[c->state]; pr = aprobe[c->probe]; break;
    }
    vrt_case_note("cell: %s object, state %s, strayed by %s, probe %s", kname[c->kind], st, wname[c->way], pr);
    switch (c->kind) {
    case KG: cell_guarded(c); break;
    case KU: cell_unique(c); break;
    case KS: cell_shared(c); break;
    case KW: cell_weak(c); break;
    default: cell_array(c); break;
    }
    snprintf(nm, sizeof(nm), "cells.%s.%s", kname[c->kind], pr);
    vrt_count_dyn(nm, 1);
    VRT_COUNT("cells");
    vrt_sig(0, vrt_mix(vrt_mix(c->kind * 100 + c->state, c->way), c->probe));
}
static uint64_t ncases(void) { build_cells(); return ncell; }
static void winit(void) { build_cells(); vrt_sig_name(0, "matrix-cells"); }
static const char *const required[] = { "cells.aborted-as-required", "originals-exercised", NULL };
static const struct vrt_harness H = { "guard", ncases, run_case, winit, NULL, required, 8 };
int main(int argc, char **argv) { return vrt_main(argc, argv, &H); }
