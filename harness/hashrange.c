/*
 * C17 -- bucket selection is fail-stop.
 *  A: cstl_hash_div / cstl_hash_mul stay in [0, m): the real functions are
 *     called over boundary/random/grid inputs and the result compared with m
 *     (UBSan float-cast-overflow is on in every build).
 *  B: a caller hash returning >= m makes the keyed call abort() (caught via
 *     __wrap_abort) before any out-of-bounds access (ASan; the bucket array
 *     is an exact-size heap block).
 *  C: tables using the built-in functions never abort (random histories).
 */
#include "vrt.h"
#include "cstl/hash.h"
#include <string.h>
#include <stdio.h>
#include <math.h>

/* ---------------- A: ranges ---------------- */
static size_t bm[512];
static int nbm;
static void build_m_set(void)
{
    int j;
    static const size_t small[] = { 1, 2, 3, 5, 7, 10, 11, 13, 100, 1000, 65537 };
    nbm = 0;
    for (j = 0; j < (int)(sizeof(small) / sizeof(small[0])); j++) bm[nbm++] = small[j];
    for (j = 1; j <= 63; j++) {
        size_t p = (size_t)1 << j;
        bm[nbm++] = p;
        bm[nbm++] = p + 1;
        if (p > 2) bm[nbm++] = p - 1;
    }
    for (j = 0; j <= 64; j++) bm[nbm++] = ((size_t)1 << 24) + j;
    bm[nbm++] = SIZE_MAX; bm[nbm++] = SIZE_MAX - 1; bm[nbm++] = SIZE_MAX / 2; bm[nbm++] = SIZE_MAX / 2 + 1;
    bm[nbm++] = SIZE_MAX - ((size_t)1 << 39); bm[nbm++] = SIZE_MAX - ((size_t)1 << 40) + 1;
}

static uint64_t worst_num, worst_den = 1;       /* largest result/m seen, as a fraction */
static inline void check_mul(size_t k, size_t m)
{
    const size_t r = cstl_hash_mul(k, m);
    if (r >= m) vrt_fail("hash.mul.out-of-range", "cstl_hash_mul(%zu, %zu) = %zu >= m", k, m, r);
    if ((unsigned __int128)r * worst_den > (unsigned __int128)worst_num * m) { worst_num = r; worst_den = m; }
}
static inline void check_div(size_t k, size_t m)
{
    const size_t r = cstl_hash_div(k, m);
    if (r >= m) vrt_fail("hash.div.out-of-range", "cstl_hash_div(%zu, %zu) = %zu >= m", k, m, r);
}

/* smallest m whose conversion to float is exactly F (F >= 1, F <= 2^64) */
static size_t smallest_m_for(float F)
{
    const float prev = nextafterf(F, 0.0f);
    unsigned __int128 lo, hi, mid2;
    size_t m;
    if (F < 16777216.0f) return (size_t)F;
    hi = (unsigned __int128)F; lo = (unsigned __int128)prev;
    mid2 = lo + hi;                     /* 2 * midpoint */
    m = (size_t)((mid2 + 1) / 2);       /* ceil(midpoint) */
    if ((unsigned __int128)m != (mid2 + 1) / 2) m = SIZE_MAX;
    while ((float)m != F && m < SIZE_MAX) m++;   /* tie rounded to the even neighbour */
    return m;
}

#define CHUNK_K ((size_t)1 << 18)
static uint64_t a1_chunks, a2_cases, a3_cases, a4_cases, a5_cases, adiv_cases, b_cases, c_cases;
static size_t topk[64];
static int ntopk;

static void find_topk(void)
{
    /* the keys whose result for m = 2^23 is largest, i.e. whose fractional part is largest */
    size_t k, best[64];
    int i, j;
    ntopk = 64;
    for (i = 0; i < ntopk; i++) { topk[i] = 0; best[i] = 0; }
    for (k = 0; k < ((size_t)1 << 22); k++) {
        const size_t r = cstl_hash_mul(k, (size_t)1 << 23);
        if (r > best[ntopk - 1]) {
            for (i = ntopk - 1; i > 0 && best[i - 1] < r; i--) { best[i] = best[i - 1]; topk[i] = topk[i - 1]; }
            best[i] = r; topk[i] = k;
        }
    }
    for (j = 0; j < 4; j++) VRT_OP2("hash.mul", "top key %ld: result for m=2^23 is %ld", topk[j], best[j]);
}

static void run_a1(uint64_t c)          /* all k in a chunk x the boundary m set */
{
    size_t k, k0 = c * CHUNK_K;
    int j;
    vrt_case_note("A1 mul: k in [%zu,%zu) x %d boundary m", k0, k0 + CHUNK_K, nbm);
    VRT_OP2("hash.mul", "k in [%ld, +%ld) x boundary m set", k0, CHUNK_K);
    for (j = 0; j < nbm; j++) {
        const size_t m = bm[j];
        for (k = k0; k < k0 + CHUNK_K; k++) check_mul(k, m);
    }
    VRT_COUNT_N("A.mul.evaluations", (uint64_t)CHUNK_K * nbm);
    VRT_COUNT_N("A.mul.small-k-exhaustive", CHUNK_K);
    vrt_sig(0, vrt_mix(0xA1, c));
}
static void run_a2(uint64_t c, uint64_t ncases)      /* k on the float grid above 2^25 */
{
    /* bit patterns of floats in [2^25, 2^64): 39 binades * 2^23 */
    const uint32_t b0 = 0x4c000000u, b1 = 0x5f800000u;
    const uint64_t total = b1 - b0, per = total / ncases + 1;
    uint64_t i, step = vrt_thorough ? 1 : 97;
    static const size_t ms[] = { 1, 3, 7, 1000, (size_t)1 << 23, ((size_t)1 << 24) + 3, (size_t)1 << 40, SIZE_MAX };
    vrt_case_note("A2 mul: one k per float in grid slice %llu (step %llu)", (unsigned long long)c, (unsigned long long)step);
    VRT_OP1("hash.mul", "float-grid keys slice %ld", c);
    for (i = c * per + (vrt_seed % step); i < (c + 1) * per && i < total; i += step) {
        union { uint32_t u; float f; } v;
        size_t k;
        unsigned j;
        v.u = b0 + (uint32_t)i;
        k = (size_t)v.f;
        for (j = 0; j < sizeof(ms) / sizeof(ms[0]); j++) check_mul(k, ms[j]);
        VRT_COUNT_N("A.mul.evaluations", sizeof(ms) / sizeof(ms[0]));
        VRT_COUNT("A.mul.float-grid-keys");
    }
    vrt_sig(0, vrt_mix(0xA2, c));
}
static void run_a3(uint64_t c, uint64_t ncases)      /* top keys x every scale factor on the float grid */
{
    /* scale factors (float)m: every integer below 2^24 is its own float; above, every float up to 2^64 */
    const uint32_t b0 = 0x4b800000u /* 2^24 */, b1 = 0x5f800000u /* 2^64 */;
    const uint64_t nsmall = (uint64_t)1 << 24, total = nsmall + ((uint64_t)b1 - b0 + 1), per = total / ncases + 1;
    const uint64_t step = vrt_thorough ? 1 : 257;
    const int nk = vrt_thorough ? 16 : 64;
    uint64_t i;
    if (ntopk == 0) find_topk();
    vrt_case_note("A3 mul: %d keys with the largest fractional part x scale-factor grid slice %llu (step %llu), smallest m per float",
                  nk, (unsigned long long)c, (unsigned long long)step);
    VRT_OP2("hash.mul", "scale grid slice %ld keys %ld", c, nk);
    for (i = c * per + (vrt_seed % step); i < (c + 1) * per && i < total; i += step) {
        size_t m;
        int j;
        if (i < nsmall) {
            m = (size_t)i;
            if (m == 0) continue;
        } else {
            union { uint32_t u; float f; } v;
            v.u = b0 + (uint32_t)(i - nsmall);
            m = smallest_m_for(v.f);
            if ((float)m != v.f) vrt_fail("harness.hashrange.smallest-m", "no m for float bits %x", v.u);
        }
        for (j = 0; j < nk; j++) check_mul(topk[j], m);
        VRT_COUNT_N("A.mul.evaluations", nk);
        VRT_COUNT("A.mul.scale-factor-grid-points");
    }
    vrt_sig(0, vrt_mix(0xA3, c));
}
/* A4: every 32-bit key (a change of the arithmetic, e.g. to double precision, moves the critical keys
 * off the single-precision grid, so the grid argument of A2 must not be relied upon) */
#define CHUNK32 ((uint64_t)1 << 24)
static void run_a4(uint64_t c)
{
    static const size_t ms_q[] = { 1, 2147483647u };
    static const size_t ms_t[] = { 1, 2, 3, 1000003, 2147483647u, (size_t)1 << 32, ((size_t)1 << 53) + 1, SIZE_MAX };
    const size_t *ms = vrt_thorough ? ms_t : ms_q;
    const int nm = vrt_thorough ? 8 : 2;
    uint64_t k;
    int j;
    vrt_case_note("A4 mul: every key in [%llu, %llu) x %d table sizes", (unsigned long long)(c * CHUNK32),
                  (unsigned long long)((c + 1) * CHUNK32), nm);
    VRT_OP2("hash.mul", "all 32-bit keys chunk %ld x %ld sizes", c, nm);
    for (j = 0; j < nm; j++) for (k = c * CHUNK32; k < (c + 1) * CHUNK32; k++) check_mul((size_t)k, ms[j]);
    VRT_COUNT_N("A.mul.evaluations", CHUNK32 * nm);
    VRT_COUNT_N("A.mul.all-32-bit-keys", CHUNK32);
    vrt_sig(0, vrt_mix(0xA4, c));
}
/* A5: random 64-bit keys of every magnitude, m = 1 (any non-zero result is out of range) and a large m */
static void run_a5(uint64_t c)
{
    vrt_rng g;
    uint64_t i, n = (uint64_t)1 << 23;
    vrt_rng_seed(&g, vrt_seed, 0xC17500 + c);
    vrt_case_note("A5 mul: %llu random 64-bit keys of random magnitude", (unsigned long long)n);
    VRT_OP1("hash.mul", "random 64-bit keys chunk %ld", c);
    for (i = 0; i < n; i++) {
        const size_t k = vrt_next(&g) >> (vrt_next(&g) & 31);
        check_mul(k, 1);
        check_mul(k, 0xfffffffffffull);
    }
    VRT_COUNT_N("A.mul.evaluations", 2 * n);
    VRT_COUNT_N("A.mul.random-64-bit-keys", n);
    vrt_sig(0, vrt_mix(0xA5, c));
}

static void run_adiv(uint64_t c)
{
    vrt_rng g;
    int i, j;
    static const size_t ks[] = { 0, 1, 2, SIZE_MAX, SIZE_MAX - 1, SIZE_MAX / 2, (size_t)1 << 32, ((size_t)1 << 32) - 1 };
    vrt_rng_seed(&g, vrt_seed, 0xC17D00 + c);
    vrt_case_note("Adiv: boundary x boundary and 500000 random (k,m) pairs");
    VRT_OP1("hash.div", "chunk %ld", c);
    for (i = 0; i < nbm; i++) for (j = 0; j < (int)(sizeof(ks) / sizeof(ks[0])); j++) {
        check_div(ks[j], bm[i]); check_mul(ks[j], bm[i]);
        check_div(bm[i], bm[(i * 7 + j) % nbm]); check_mul(bm[i], bm[(i * 7 + j) % nbm]);
    }
    for (i = 0; i < 500000; i++) {
        size_t k = vrt_next(&g), m = vrt_next(&g);
        const int sh = vrt_below(&g, 64);
        m >>= sh; if (m == 0) m = 1;
        if (i & 1) k >>= vrt_below(&g, 64);
        check_div(k, m);
        check_mul(k, m);
    }
    VRT_COUNT_N("A.div.evaluations", 500000 + (uint64_t)nbm * 16);
    VRT_COUNT_N("A.mul.evaluations", 500000 + (uint64_t)nbm * 16);
    vrt_sig(0, vrt_mix(0xAD, c));
}

/* ---------------- B: fail-stop matrix ---------------- */
struct elem { uint32_t magic; int id; struct cstl_hash_node node; uint64_t pad; };
#define NE 12
static struct elem *el[NE];
static struct cstl_hash T;

static int bad_on, bad_scope;           /* scope 0: every key, 1: only bad_key */
static size_t bad_key, bad_delta;       /* returns m + delta (delta == SIZE_MAX: returns SIZE_MAX) */
static int bad_returned;
static int bad_nth, bad_seen;           /* bad_nth > 0: only the bad_nth-th matching consultation since bad_on returns the bad value
                                         * (a function that is in range on one call and out of range on the next for the same key) */
#define BAD_HI32 ((size_t)-2)   /* 2^32 + an in-range value: survives only if the result is narrowed to 32 bits */
#define BAD_HI63 ((size_t)-3)   /* 2^63 + an in-range value: survives only if the result is treated as signed / narrowed */
static size_t badf(size_t k, size_t m)
{
    if (bad_on && (bad_scope == 0 || k == bad_key) && (bad_nth == 0 || ++bad_seen == bad_nth)) {
        bad_returned++;
        if (bad_delta == BAD_HI32) return ((size_t)1 << 32) + k % m;
        if (bad_delta == BAD_HI63) return ((size_t)1 << 63) + k % m;
        return bad_delta == SIZE_MAX ? SIZE_MAX : m + bad_delta;
    }
    return k % m;
}
static size_t goodf(size_t k, size_t m) { return (3 * k + 1) % m; }

enum { E_INSERT, E_FIND, E_ERASE };
enum { S_IDLE, S_PENDING_BAD_CURRENT, S_PENDING_BAD_PENDING };
static const char *ename[] = { "insert", "find", "erase" };
static const char *sname[] = { "idle", "pending-bad-is-current", "pending-bad-is-pending" };

/* cell index -> parameters */
struct cell { int entry, state, ret, scope, grow, n, nth; };
#define NCELL_N 4
static const int cell_n[NCELL_N] = { 1, 2, 4, 7 };
static uint64_t ncells(void) { return 3 * 3 * 5 * 3 * 2 * NCELL_N * 4; }
static void decode_cell(uint64_t i, struct cell *c)
{
    c->entry = i % 3; i /= 3;
    c->state = i % 3; i /= 3;
    c->ret = i % 5; i /= 5;
    c->scope = i % 3; i /= 3;          /* 0 all keys, 1 the call's key, 2 another element's key */
    c->grow = i % 2; i /= 2;
    c->n = cell_n[i % NCELL_N]; i /= NCELL_N;
    c->nth = i % 4;                      /* 0: every consultation is bad; 1..3: only that one */
}

static void run_cell(uint64_t idx)
{
    struct cell c;
    int i, aborted;
    size_t n2, callkey = 1, otherkey;
    char nm[96];
    decode_cell(idx, &c);
    n2 = c.grow ? (size_t)c.n + 3 : (c.n > 1 ? (size_t)c.n - 1 : 2);
    vrt_case_note("B cell: %s, %s, bad value %s, bad for %s (%s), n=%d -> %zu",
                  ename[c.entry], sname[c.state], c.ret == 0 ? "m" : c.ret == 1 ? "m+1" : c.ret == 2 ? "SIZE_MAX" : c.ret == 3 ? "2^32+in-range" : "2^63+in-range",
                  c.scope == 0 ? "every key" : c.scope == 1 ? "the call's key" : "another element's key",
                  c.nth == 0 ? "on every consultation" : c.nth == 1 ? "only on the 1st consultation in the call" : c.nth == 2 ? "only on the 2nd" : "only on the 3rd", c.n, n2);
    for (i = 0; i < NE; i++) {
        el[i] = vrt_alloc(sizeof(*el[i]));
        memset(el[i], 0x5e, sizeof(*el[i]));
        el[i]->magic = 0xe1e1; el[i]->id = i; el[i]->node.key = i; el[i]->node.next = NULL;
    }
    bad_on = 0; bad_returned = 0;
    bad_delta = c.ret == 0 ? 0 : c.ret == 1 ? 1 : c.ret == 2 ? SIZE_MAX : c.ret == 3 ? BAD_HI32 : BAD_HI63;
    cstl_hash_init(&T, offsetof(struct elem, node));
    VRT_OP1("hash.resize", "n=%ld (first)", c.n);
    cstl_hash_resize(&T, c.n, c.state == S_PENDING_BAD_PENDING ? goodf : badf);
    for (i = 0; i < 8; i++) {
        VRT_OP1("hash.insert", "key=%ld", i);
        cstl_hash_insert(&T, i, el[i]);
    }
    if (c.state != S_IDLE) {
        VRT_OP1("hash.resize", "n=%ld (leaves a rehash pending)", n2);
        cstl_hash_resize(&T, n2, c.state == S_PENDING_BAD_PENDING ? badf : goodf);
    }
    /* another element that currently shares the call key's bucket in the geometry it sits in */
    otherkey = callkey;
    for (i = 0; i < 8; i++) {
        size_t k = i;
        if (k == callkey) continue;
        if (c.state == S_PENDING_BAD_PENDING ? goodf(k, c.n) == goodf(callkey, c.n) : k % c.n == callkey % c.n) { otherkey = k; break; }
    }
    bad_scope = c.scope != 0;
    bad_key = c.scope == 2 ? otherkey : callkey;
    if (c.entry == E_INSERT) callkey = 9, bad_key = c.scope == 2 ? otherkey : callkey;
    bad_nth = c.nth; bad_seen = 0;
    bad_on = 1;
    vrt_state(sname[c.state]);
    switch (c.entry) {
    case E_INSERT:
        VRT_OP1("hash.insert", "key=%ld with out-of-range hash", callkey);
        el[9]->node.key = callkey;
        aborted = VRT_ABORTS(cstl_hash_insert(&T, callkey, el[9]));
        break;
    case E_FIND:
        VRT_OP1("hash.find", "key=%ld with out-of-range hash", callkey);
        aborted = VRT_ABORTS((void)cstl_hash_find(&T, callkey, NULL, NULL));
        break;
    default:
        VRT_OP1("hash.erase", "key=%ld with out-of-range hash", callkey);
        aborted = VRT_ABORTS(cstl_hash_erase(&T, el[callkey]));
        break;
    }
    bad_on = 0;
    snprintf(nm, sizeof(nm), "B.%s.%s.%s", ename[c.entry], sname[c.state], bad_returned ? "bad-value-arose" : "not-triggered");
    vrt_count_dyn(nm, 1);
    if (bad_returned > 0) {
        if (!aborted) {
            snprintf(nm, sizeof(nm), "hash.failstop.returned-normally.%s.%s", ename[c.entry], sname[c.state]);
            vrt_fail(nm, "hash function returned a value >= m %d time(s) during %s but the call returned normally",
                     bad_returned, ename[c.entry]);
        }
        VRT_COUNT("B.cells.aborted-as-required");
        if (c.scope == 2) VRT_COUNT("B.cells.bad-value-on-relocation-path");
        if (c.nth >= 2) VRT_COUNT("B.cells.bad-value-only-on-a-later-consultation");
        vrt_sig(0, vrt_mix(0xB0, idx));
    } else {
        if (aborted) {
            snprintf(nm, sizeof(nm), "hash.failstop.abort-without-bad-value.%s.%s", ename[c.entry], sname[c.state]);
            vrt_fail(nm, "%s aborted although every hash value was in range", ename[c.entry]);
        }
        VRT_COUNT("B.cells.not-triggered");
    }
    /* abandon: the table may be mid-update; release what we can name */
    cstl_hash_clear(&T, NULL);
    for (i = 0; i < NE; i++) vrt_free(el[i]);
    VRT_COUNT("B.cells");
}

/* ---------------- C: built-in functions never abort ---------------- */
static void run_c(uint64_t idx)
{
    vrt_rng g;
    struct elem *p[64];
    int live[64], i, nops = 600;
    size_t keys[64];
    vrt_rng_seed(&g, vrt_seed, 0xC17C00 + idx);
    vrt_case_note("C: random history on a table using cstl_hash_div/mul, boundary and random 64-bit keys");
    for (i = 0; i < 64; i++) {
        p[i] = vrt_alloc(sizeof(*p[i])); memset(p[i], 0, sizeof(*p[i])); live[i] = 0;
        switch (vrt_below(&g, 4)) {
        case 0: keys[i] = vrt_next(&g); break;
        case 1: keys[i] = ((size_t)1 << vrt_below(&g, 64)) - vrt_below(&g, 2); break;
        case 2: keys[i] = SIZE_MAX - vrt_below(&g, 3); break;
        default: keys[i] = vrt_below(&g, 2000); break;
        }
    }
    cstl_hash_init(&T, offsetof(struct elem, node));
    vrt_state("builtin");
    for (i = 0; i < nops; i++) {
        const int e = vrt_below(&g, 64), r = vrt_below(&g, 10);
        if (i == 0 || r == 0) {
            size_t n = 1 + vrt_below(&g, vrt_below(&g, 4) ? 16 : 5000);
            VRT_OP2("hash.resize", "n=%ld f=%ld", n, i & 1);
            cstl_hash_resize(&T, n, vrt_below(&g, 3) == 0 ? NULL : (vrt_below(&g, 2) ? cstl_hash_div : cstl_hash_mul));
        } else if (r < 5 && !live[e]) {
            VRT_OP1("hash.insert", "key=%ld", keys[e]);
            cstl_hash_insert(&T, keys[e], p[e]); live[e] = 1;
        } else if (r < 8) {
            void *f;
            VRT_OP1("hash.find", "key=%ld", keys[e]);
            f = cstl_hash_find(&T, keys[e], NULL, NULL);
            if (live[e] && f == NULL) vrt_fail("hash.builtin.lost-element", "element with key %zu not found", keys[e]);
        } else if (live[e]) {
            VRT_OP1("hash.erase", "key=%ld", keys[e]);
            cstl_hash_erase(&T, p[e]); live[e] = 0;
        }
    }
    cstl_hash_clear(&T, NULL);
    for (i = 0; i < 64; i++) vrt_free(p[i]);
    VRT_COUNT("C.histories-without-abort");
    VRT_COUNT_N("C.calls", nops);
}

static uint64_t ncases(void)
{
    build_m_set();
    a1_chunks = vrt_thorough ? ((size_t)1 << 25) / CHUNK_K + 1 : ((size_t)1 << 24) / CHUNK_K;
    a2_cases = vrt_thorough ? 256 : 32;
    a3_cases = vrt_thorough ? 1024 : 64;
    adiv_cases = vrt_thorough ? 64 : 16;
    b_cases = ncells();
    c_cases = vrt_thorough ? 4000 : 400;
    a4_cases = 256;
    a5_cases = vrt_thorough ? 256 : 32;
    return a1_chunks + a2_cases + a3_cases + adiv_cases + b_cases + c_cases + a4_cases + a5_cases;
}
static void run_case(uint64_t idx)
{
    if (idx < a1_chunks) { run_a1(idx); return; }
    idx -= a1_chunks;
    if (idx < a2_cases) { run_a2(idx, a2_cases); return; }
    idx -= a2_cases;
    if (idx < a3_cases) { run_a3(idx, a3_cases); return; }
    idx -= a3_cases;
    if (idx < adiv_cases) { run_adiv(idx); return; }
    idx -= adiv_cases;
    if (idx < b_cases) { run_cell(idx); return; }
    idx -= b_cases;
    if (idx < c_cases) { run_c(idx); return; }
    idx -= c_cases;
    if (idx < a4_cases) { run_a4(idx); return; }
    idx -= a4_cases;
    run_a5(idx);
}
static void winit(void)
{
    (void)ncases();
    vrt_sig_name(0, "input-slices-and-matrix-cells");
}
static void wfini(void)
{
    /* largest result/m ratio observed by this worker, in parts per 2^32 */
    if (worst_den) vrt_max_dyn("max.A.mul.result-over-m.per-2^32", (uint64_t)(((unsigned __int128)worst_num << 32) / worst_den));
}
static const char *const required[] = {
    "A.mul.evaluations", "A.div.evaluations", "A.mul.scale-factor-grid-points", "A.mul.float-grid-keys", "A.mul.all-32-bit-keys", "A.mul.random-64-bit-keys",
    "B.cells.aborted-as-required", "B.cells.bad-value-on-relocation-path", "C.histories-without-abort", NULL
};
static const struct vrt_harness H = { "hashrange", ncases, run_case, winit, wfini, required, 16 };
int main(int argc, char **argv) { return vrt_main(argc, argv, &H); }
