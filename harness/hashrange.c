/*
 * C17 -- bucket selection is fail-stop.
 *  A: cstl_hash_div / cstl_hash_mul stay in [0, m): the real functions are
 *     called over boundary/random/grid inputs and the result compared with m
 *     (UBSan float-cast-overflow is on in every build).
 *  B: a caller hash returning >= m makes the keyed call abort() (caught via
 *     __wrap_abort) before any out-of-bounds access (ASan; the bucket array
 *     is an exact-size heap block).
 *  C: tables using the built-in functions never abort (random histories).
 *  D: the same fail-stop rule on every call of scripted table lives that vary HOW the function came to be in
 *     force (kept by NULL resizes, swapped in, across shrink_to_fit / clear, next to a built-in function).
 */
#include "vrt.h"
#include "cstl/hash.h"
#include <string.h>
#include <stdio.h>
#include <math.h>

/* ---------------- A: ranges ---------------- */
static size_t bm[512];
static int nbm;
static void build_m_set(void)
{
    int j;
    static const size_t small[] = { 1, 2, 3, 5, 7, 10, 11, 13, 100, 1000, 65537 };
    nbm = 0;
    for (j = 0; j < (int)(sizeof(small) / sizeof(small[0])); j++) bm[nbm++] = small[j];
    for (j = 1; j <= 63; j++) {
        size_t p = (size_t)1 << j;
        bm[nbm++] = p;
        bm[nbm++] = p + 1;
        if (p > 2) bm[nbm++] = p - 1;
    }
    for (j = 0; j <= 64; j++) bm[nbm++] = ((size_t)1 << 24) + j;
    bm[nbm++] = SIZE_MAX; bm[nbm++] = SIZE_MAX - 1; bm[nbm++] = SIZE_MAX / 2; bm[nbm++] = SIZE_MAX / 2 + 1;
    bm[nbm++] = SIZE_MAX - ((size_t)1 << 39); bm[nbm++] = SIZE_MAX - ((size_t)1 << 40) + 1;
}

static uint64_t worst_num, worst_den = 1;       /* largest result/m seen, as a fraction */
static inline void check_mul(size_t k, size_t m)
{
    const size_t r = cstl_hash_mul(k, m);
    if (r >= m) vrt_fail("hash.mul.out-of-range", "cstl_hash_mul(%zu, %zu) = %zu >= m", k, m, r);
    if ((unsigned __int128)r * worst_den > (unsigned __int128)worst_num * m) { worst_num = r; worst_den = m; }
}
static inline void check_div(size_t k, size_t m)
{
    const size_t r = cstl_hash_div(k, m);
    if (r >= m) vrt_fail("hash.div.out-of-range", "cstl_hash_div(%zu, %zu) = %zu >= m", k, m, r);
}

/* smallest m whose conversion to float is exactly F (F >= 1, F <= 2^64) */
static size_t smallest_m_for(float F)
{
    const float prev = nextafterf(F, 0.0f);
    unsigned __int128 lo, hi, mid2;
    size_t m;
    if (F < 16777216.0f) return (size_t)F;
    hi = (unsigned __int128)F; lo = (unsigned __int128)prev;
    mid2 = lo + hi;                     /* 2 * midpoint */
    m = (size_t)((mid2 + 1) / 2);       /* ceil(midpoint) */
    if ((unsigned __int128)m != (mid2 + 1) / 2) m = SIZE_MAX;
    while ((float)m != F && m < SIZE_MAX) m++;   /* tie rounded to the even neighbour */
    return m;
}

#define CHUNK_K ((size_t)1 << 18)
static uint64_t a1_chunks, a2_cases, a3_cases, a4_cases, a5_cases, adiv_cases, b_cases, c_cases, d_cases;
static size_t topk[64];
static int ntopk;

static void find_topk(void)
{
    /* the keys whose result for m = 2^23 is largest, i.e. whose fractional part is largest */
    size_t k, best[64];
    int i, j;
    ntopk = 64;
    for (i = 0; i < ntopk; i++) { topk[i] = 0; best[i] = 0; }
    for (k = 0; k < ((size_t)1 << 22); k++) {
        const size_t r = cstl_hash_mul(k, (size_t)1 << 23);
        if (r > best[ntopk - 1]) {
            for (i = ntopk - 1; i > 0 && best[i - 1] < r; i--) { best[i] = best[i - 1]; topk[i] = topk[i - 1]; }
            best[i] = r; topk[i] = k;
        }
    }
    for (j = 0; j < 4; j++) VRT_OP2("hash.mul", "top key %ld: result for m=2^23 is %ld", topk[j], best[j]);
}

static void run_a1(uint64_t c)          /* all k in a chunk x the boundary m set */
{
    size_t k, k0 = c * CHUNK_K;
    int j;
    vrt_case_note("A1 mul: k in [%zu,%zu) x %d boundary m", k0, k0 + CHUNK_K, nbm);
    VRT_OP2("hash.mul", "k in [%ld, +%ld) x boundary m set", k0, CHUNK_K);
    for (j = 0; j < nbm; j++) {
        const size_t m = bm[j];
        for (k = k0; k < k0 + CHUNK_K; k++) check_mul(k, m);
    }
    VRT_COUNT_N("A.mul.evaluations", (uint64_t)CHUNK_K * nbm);
    VRT_COUNT_N("A.mul.small-k-exhaustive", CHUNK_K);
    vrt_sig(0, vrt_mix(0xA1, c));
}
static void run_a2(uint64_t c, uint64_t ncases)      /* k on the float grid above 2^25 */
{
    /* bit patterns of floats in [2^25, 2^64): 39 binades * 2^23 */
    const uint32_t b0 = 0x4c000000u, b1 = 0x5f800000u;
    const uint64_t total = b1 - b0, per = total / ncases + 1;
    uint64_t i, step = vrt_thorough ? 1 : 97;
    static const size_t ms[] = { 1, 3, 7, 1000, (size_t)1 << 23, ((size_t)1 << 24) + 3, (size_t)1 << 40, SIZE_MAX };
    vrt_case_note("A2 mul: one k per float in grid slice %llu (step %llu)", (unsigned long long)c, (unsigned long long)step);
    VRT_OP1("hash.mul", "float-grid keys slice %ld", c);
    for (i = c * per + (vrt_seed % step); i < (c + 1) * per && i < total; i += step) {
        union { uint32_t u; float f; } v;
        size_t k;
        unsigned j;
        v.u = b0 + (uint32_t)i;
        k = (size_t)v.f;
        for (j = 0; j < sizeof(ms) / sizeof(ms[0]); j++) check_mul(k, ms[j]);
        VRT_COUNT_N("A.mul.evaluations", sizeof(ms) / sizeof(ms[0]));
        VRT_COUNT("A.mul.float-grid-keys");
    }
    vrt_sig(0, vrt_mix(0xA2, c));
}
static void run_a3(uint64_t c, uint64_t ncases)      /* top keys x every scale factor on the float grid */
{
    /* scale factors (float)m: every integer below 2^24 is its own float; above, every float up to 2^64 */
    const uint32_t b0 = 0x4b800000u /* 2^24 */, b1 = 0x5f800000u /* 2^64 */;
    const uint64_t nsmall = (uint64_t)1 << 24, total = nsmall + ((uint64_t)b1 - b0 + 1), per = total / ncases + 1;
    const uint64_t step = vrt_thorough ? 1 : 257;
    const int nk = vrt_thorough ? 16 : 64;
    uint64_t i;
    if (ntopk == 0) find_topk();
    vrt_case_note("A3 mul: %d keys with the largest fractional part x scale-factor grid slice %llu (step %llu), smallest m per float",
                  nk, (unsigned long long)c, (unsigned long long)step);
    VRT_OP2("hash.mul", "scale grid slice %ld keys %ld", c, nk);
    for (i = c * per + (vrt_seed % step); i < (c + 1) * per && i < total; i += step) {
        size_t m;
        int j;
        if (i < nsmall) {
            m = (size_t)i;
            if (m == 0) continue;
        } else {
            union { uint32_t u; float f; } v;
            v.u = b0 + (uint32_t)(i - nsmall);
            m = smallest_m_for(v.f);
            if ((float)m != v.f) vrt_fail("harness.hashrange.smallest-m", "no m for float bits %x", v.u);
        }
        for (j = 0; j < nk; j++) check_mul(topk[j], m);
        VRT_COUNT_N("A.mul.evaluations", nk);
        VRT_COUNT("A.mul.scale-factor-grid-points");
    }
    vrt_sig(0, vrt_mix(0xA3, c));
}
/* A4: every 32-bit key (a change of the arithmetic, e.g. to double precision, moves the critical keys
 * off the single-precision grid, so the grid argument of A2 must not be relied upon) */
#define CHUNK32 ((uint64_t)1 << 24)
static void run_a4(uint64_t c)
{
    static const size_t ms_q[] = { 1, 2147483647u };
    static const size_t ms_t[] = { 1, 2, 3, 1000003, 2147483647u, (size_t)1 << 32, ((size_t)1 << 53) + 1, SIZE_MAX };
    const size_t *ms = vrt_thorough ? ms_t : ms_q;
    const int nm = vrt_thorough ? 8 : 2;
    uint64_t k;
    int j;
    vrt_case_note("A4 mul: every key in [%llu, %llu) x %d table sizes", (unsigned long long)(c * CHUNK32),
                  (unsigned long long)((c + 1) * CHUNK32), nm);
    VRT_OP2("hash.mul", "all 32-bit keys chunk %ld x %ld sizes", c, nm);
    for (j = 0; j < nm; j++) for (k = c * CHUNK32; k < (c + 1) * CHUNK32; k++) check_mul((size_t)k, ms[j]);
    VRT_COUNT_N("A.mul.evaluations", CHUNK32 * nm);
    VRT_COUNT_N("A.mul.all-32-bit-keys", CHUNK32);
    vrt_sig(0, vrt_mix(0xA4, c));
}
/* A5: random 64-bit keys of every magnitude, m = 1 (any non-zero result is out of range) and a large m */
static void run_a5(uint64_t c)
{
    vrt_rng g;
    uint64_t i, n = (uint64_t)1 << 23;
    vrt_rng_seed(&g, vrt_seed, 0xC17500 + c);
    vrt_case_note("A5 mul: %llu random 64-bit keys of random magnitude", (unsigned long long)n);
    VRT_OP1("hash.mul", "random 64-bit keys chunk %ld", c);
    for (i = 0; i < n; i++) {
        const size_t k = vrt_next(&g) >> (vrt_next(&g) & 31);
        check_mul(k, 1);
        check_mul(k, 0xfffffffffffull);
    }
    VRT_COUNT_N("A.mul.evaluations", 2 * n);
    VRT_COUNT_N("A.mul.random-64-bit-keys", n);
    vrt_sig(0, vrt_mix(0xA5, c));
}

static void run_adiv(uint64_t c)
{
    vrt_rng g;
    int i, j;
    static const size_t ks[] = { 0, 1, 2, SIZE_MAX, SIZE_MAX - 1, SIZE_MAX / 2, (size_t)1 << 32, ((size_t)1 << 32) - 1 };
    vrt_rng_seed(&g, vrt_seed, 0xC17D00 + c);
    vrt_case_note("Adiv: boundary x boundary and 500000 random (k,m) pairs");
    VRT_OP1("hash.div", "chunk %ld", c);
    for (i = 0; i < nbm; i++) for (j = 0; j < (int)(sizeof(ks) / sizeof(ks[0])); j++) {
        check_div(ks[j], bm[i]); check_mul(ks[j], bm[i]);
        check_div(bm[i], bm[(i * 7 + j) % nbm]); check_mul(bm[i], bm[(i * 7 + j) % nbm]);
    }
    for (i = 0; i < 500000; i++) {
        size_t k = vrt_next(&g), m = vrt_next(&g);
        const int sh = vrt_below(&g, 64);
        m >>= sh; if (m == 0) m = 1;
        if (i & 1) k >>= vrt_below(&g, 64);
        check_div(k, m);
        check_mul(k, m);
    }
    VRT_COUNT_N("A.div.evaluations", 500000 + (uint64_t)nbm * 16);
    VRT_COUNT_N("A.mul.evaluations", 500000 + (uint64_t)nbm * 16);
    vrt_sig(0, vrt_mix(0xAD, c));
}

/* ---------------- B: fail-stop matrix ---------------- */
struct elem { uint32_t magic; int id; struct cstl_hash_node node; uint64_t pad; };
#define NE 12
static struct elem *el[NE];
static struct cstl_hash T;

static int bad_on, bad_scope;           /* scope 0: every key, 1: only bad_key */
static size_t bad_key, bad_delta;       /* returns m + delta (delta == SIZE_MAX: returns SIZE_MAX) */
static int bad_returned;
static int bad_nth, bad_seen;           /* bad_nth > 0: only the bad_nth-th matching consultation since bad_on returns the bad value
                                         * (a function that is in range on one call and out of range on the next for the same key) */
#define BAD_HI32 ((size_t)-2)   /* 2^32 + an in-range value: survives only if the result is narrowed to 32 bits */
#define BAD_HI63 ((size_t)-3)   /* 2^63 + an in-range value: survives only if the result is treated as signed / narrowed */
static size_t badf(size_t k, size_t m)
{
    if (bad_on && (bad_scope == 0 || k == bad_key) && (bad_nth == 0 || ++bad_seen == bad_nth)) {
        bad_returned++;
        if (bad_delta == BAD_HI32) return ((size_t)1 << 32) + k % m;
        if (bad_delta == BAD_HI63) return ((size_t)1 << 63) + k % m;
        return bad_delta == SIZE_MAX ? SIZE_MAX : m + bad_delta;
    }
    return k % m;
}
static size_t goodf(size_t k, size_t m) { return (3 * k + 1) % m; }

enum { E_INSERT, E_FIND, E_ERASE };
enum { S_IDLE, S_PENDING_BAD_CURRENT, S_PENDING_BAD_PENDING };
static const char *ename[] = { "insert", "find", "erase" };
static const char *sname[] = { "idle", "pending-bad-is-current", "pending-bad-is-pending" };

/* cell index -> parameters */
struct cell { int entry, state, ret, scope, grow, n, nth; };
#define NCELL_N 4
static const int cell_n[NCELL_N] = { 1, 2, 4, 7 };
static uint64_t ncells(void) { return 3 * 3 * 5 * 3 * 2 * NCELL_N * 4; }
static void decode_cell(uint64_t i, struct cell *c)
{
    c->entry = i % 3; i /= 3;
    c->state = i % 3; i /= 3;
    c->ret = i % 5; i /= 5;
    c->scope = i % 3; i /= 3;          /* 0 all keys, 1 the call's key, 2 another element's key */
    c->grow = i % 2; i /= 2;
    c->n = cell_n[i % NCELL_N]; i /= NCELL_N;
    c->nth = i % 4;                      /* 0: every consultation is bad; 1..3: only that one */
}

static void run_cell(uint64_t idx)
{
    struct cell c;
    int i, aborted;
    size_t n2, callkey = 1, otherkey;
    char nm[96];
    decode_cell(idx, &c);
    n2 = c.grow ? (size_t)c.n + 3 : (c.n > 1 ? (size_t)c.n - 1 : 2);
    vrt_case_note("B cell: %s, %s, bad value %s, bad for %s (%s), n=%d -> %zu",
                  ename[c.entry], sname[c.state], c.ret == 0 ? "m" : c.ret == 1 ? "m+1" : c.ret == 2 ? "SIZE_MAX" : c.ret == 3 ? "2^32+in-range" : "2^63+in-range",
                  c.scope == 0 ? "every key" : c.scope == 1 ? "the call's key" : "another element's key",
                  c.nth == 0 ? "on every consultation" : c.nth == 1 ? "only on the 1st consultation in the call" : c.nth == 2 ? "only on the 2nd" : "only on the 3rd", c.n, n2);
    for (i = 0; i < NE; i++) {
        el[i] = vrt_alloc(sizeof(*el[i]));
        memset(el[i], 0x5e, sizeof(*el[i]));
        el[i]->magic = 0xe1e1; el[i]->id = i; el[i]->node.key = i; el[i]->node.next = NULL;
    }
    bad_on = 0; bad_returned = 0;
    bad_delta = c.ret == 0 ? 0 : c.ret == 1 ? 1 : c.ret == 2 ? SIZE_MAX : c.ret == 3 ? BAD_HI32 : BAD_HI63;
    cstl_hash_init(&T, offsetof(struct elem, node));
    VRT_OP1("hash.resize", "n=%ld (first)", c.n);
    cstl_hash_resize(&T, c.n, c.state == S_PENDING_BAD_PENDING ? goodf : badf);
    for (i = 0; i < 8; i++) {
        VRT_OP1("hash.insert", "key=%ld", i);
        cstl_hash_insert(&T, i, el[i]);
    }
    if (c.state != S_IDLE) {
        VRT_OP1("hash.resize", "n=%ld (leaves a rehash pending)", n2);
        cstl_hash_resize(&T, n2, c.state == S_PENDING_BAD_PENDING ? badf : goodf);
    }
    /* another element that currently shares the call key's bucket in the geometry it sits in */
    otherkey = callkey;
    for (i = 0; i < 8; i++) {
        size_t k = i;
        if (k == callkey) continue;
        if (c.state == S_PENDING_BAD_PENDING ? goodf(k, c.n) == goodf(callkey, c.n) : k % c.n == callkey % c.n) { otherkey = k; break; }
    }
    bad_scope = c.scope != 0;
    bad_key = c.scope == 2 ? otherkey : callkey;
    if (c.entry == E_INSERT) callkey = 9, bad_key = c.scope == 2 ? otherkey : callkey;
    bad_nth = c.nth; bad_seen = 0;
    bad_on = 1;
    vrt_state(sname[c.state]);
    switch (c.entry) {
    case E_INSERT:
        VRT_OP1("hash.insert", "key=%ld with out-of-range hash", callkey);
        el[9]->node.key = callkey;
        aborted = VRT_ABORTS(cstl_hash_insert(&T, callkey, el[9]));
        break;
    case E_FIND:
        VRT_OP1("hash.find", "key=%ld with out-of-range hash", callkey);
        aborted = VRT_ABORTS((void)cstl_hash_find(&T, callkey, NULL, NULL));
        break;
    default:
        VRT_OP1("hash.erase", "key=%ld with out-of-range hash", callkey);
        aborted = VRT_ABORTS(cstl_hash_erase(&T, el[callkey]));
        break;
    }
    bad_on = 0;
    snprintf(nm, sizeof(nm), "B.%s.%s.%s", ename[c.entry], sname[c.state], bad_returned ? "bad-value-arose" : "not-triggered");
    vrt_count_dyn(nm, 1);
    if (bad_returned > 0) {
        if (!aborted) {
            snprintf(nm, sizeof(nm), "hash.failstop.returned-normally.%s.%s", ename[c.entry], sname[c.state]);
            vrt_fail(nm, "hash function returned a value >= m %d time(s) during %s but the call returned normally",
                     bad_returned, ename[c.entry]);
        }
        VRT_COUNT("B.cells.aborted-as-required");
        if (c.scope == 2) VRT_COUNT("B.cells.bad-value-on-relocation-path");
        if (c.nth >= 2) VRT_COUNT("B.cells.bad-value-only-on-a-later-consultation");
        vrt_sig(0, vrt_mix(0xB0, idx));
    } else {
        if (aborted) {
            snprintf(nm, sizeof(nm), "hash.failstop.abort-without-bad-value.%s.%s", ename[c.entry], sname[c.state]);
            vrt_fail(nm, "%s aborted although every hash value was in range", ename[c.entry]);
        }
        VRT_COUNT("B.cells.not-triggered");
    }
    /* abandon: the table may be mid-update; release what we can name */
    cstl_hash_clear(&T, NULL);
    for (i = 0; i < NE; i++) vrt_free(el[i]);
    VRT_COUNT("B.cells");
}

/* ---------------- D: how the function came to be in force ---------------- */
/* Every library call of a scripted life of the table is made with the abort expectation armed and judged by the
 * same rule: it aborts iff the hash function returned a value >= the m it was called with during that call.
 * The scripts vary how the function got there (kept by NULL resizes, swapped in, kept across shrink_to_fit /
 * clear + fresh resize, following or followed by a built-in function) independently of what it returns. */
static size_t fix_mod, mod_bad_m;
static size_t modf_(size_t k, size_t m)    /* ignores m: in range only for tables of at least fix_mod buckets / small residues */
{
    const size_t v = k % fix_mod;
    if (v >= m) { bad_returned++; mod_bad_m = m; }
    return v;
}
static struct cstl_hash U;
enum { X_RESIZE, X_REHASH, X_FOREACH, X_SHRINK, X_INSERT, X_FIND, X_ERASE, X_SWAP, X_CLEAR, NX };
static const char *const xname[NX] = { "resize", "rehash", "foreach", "shrink_to_fit", "insert", "find", "erase", "swap", "clear" };
enum { S_OTHER, S_DIRECT, S_NULL_P, S_NULL_F, S_NULL2_P, S_NULL2_F, S_SAME_P, S_SAME_F, S_SWAP_I, S_SWAP_P, S_SWNULL_P, S_SWNULL_F,
       S_STF, S_STFNULL_P, S_CLEAR, S_CLEARB, S_BC_P, S_BC_F, S_CB_P, S_CB_F, NS };
static const struct { const char *name; int pending; } dst[NS] = {
    { "other-table", 0 }, { "direct", 0 }, { "null-resize.pending", 1 }, { "null-resize.finished", 0 },
    { "two-null-resizes.pending", 1 }, { "two-null-resizes.finished", 0 },
    { "same-function-again.pending", 1 }, { "same-function-again.finished", 0 },
    { "swapped-in.idle", 0 }, { "swapped-in.pending", 1 },
    { "swapped-in-then-null-resize.pending", 1 }, { "swapped-in-then-null-resize.finished", 0 },
    { "after-shrink-to-fit", 0 }, { "shrink-to-fit-then-null-resize.pending", 1 },
    { "clear-then-fresh-resize.idle", 0 }, { "builtin-life-then-clear.idle", 0 },
    { "builtin-then-caller.pending", 1 }, { "builtin-then-caller.finished", 0 },
    { "caller-then-builtin.pending", 1 }, { "caller-then-builtin.finished", 0 },
};
static int d_st, d_abort_st;
static int d_xid[NX][2], d_sid[NS][2], d_ids_ready;
static int d_visit(void *e, void *p) { (void)e; ++*(int *)p; return 0; }

/* one library call under the rule; returns 1 when it aborted (the table is then abandoned) */
static int d_step(struct cstl_hash *h, int x, size_t a, void *e, cstl_hash_func_t *f)
{
    const int before = bad_returned;
    int aborted, arose, cnt = 0;
    char nm[160];
    if (!d_ids_ready) {
        int i, j;
        for (i = 0; i < NX; i++) for (j = 0; j < 2; j++) {
            snprintf(nm, sizeof(nm), "D.entry.%s.%s", xname[i], j ? "bad-arose" : "in-range"); d_xid[i][j] = vrt_counter_id(nm);
        }
        for (i = 0; i < NS; i++) for (j = 0; j < 2; j++) {
            snprintf(nm, sizeof(nm), "D.state.%s.%s", dst[i].name, j ? "bad-arose" : "in-range"); d_sid[i][j] = vrt_counter_id(nm);
        }
        d_ids_ready = 1;
    }
    vrt_state(dst[d_st].name);
    switch (x) {
    case X_RESIZE:
        VRT_OP2("hash.resize", "n=%ld f=%ld (0 NULL, 1 the caller's, 2 other caller's, 3 div, 4 mul)", a,
                f == NULL ? 0 : f == goodf ? 2 : f == cstl_hash_div ? 3 : f == cstl_hash_mul ? 4 : 1);
        aborted = VRT_ABORTS(cstl_hash_resize(h, a, f)); break;
    case X_REHASH:  VRT_OP0("hash.rehash", ""); aborted = VRT_ABORTS(cstl_hash_rehash(h)); break;
    case X_FOREACH: VRT_OP0("hash.foreach", ""); aborted = VRT_ABORTS((void)cstl_hash_foreach(h, d_visit, &cnt)); break;
    case X_SHRINK:  VRT_OP0("hash.shrink_to_fit", ""); aborted = VRT_ABORTS(cstl_hash_shrink_to_fit(h)); break;
    case X_INSERT:  VRT_OP1("hash.insert", "key=%ld", a); aborted = VRT_ABORTS(cstl_hash_insert(h, a, e)); break;
    case X_FIND:    VRT_OP1("hash.find", "key=%ld", a); aborted = VRT_ABORTS((void)cstl_hash_find(h, a, NULL, NULL)); break;
    case X_ERASE:   VRT_OP1("hash.erase", "key=%ld", a); aborted = VRT_ABORTS(cstl_hash_erase(h, e)); break;
    case X_SWAP:    VRT_OP0("hash.swap", "with the other table"); aborted = VRT_ABORTS(cstl_hash_swap(&T, &U)); break;
    default:        VRT_OP0("hash.clear", ""); aborted = VRT_ABORTS(cstl_hash_clear(h, NULL)); break;
    }
    arose = bad_returned - before;
    vrt_ctr[d_xid[x][arose != 0]]++;
    vrt_ctr[d_sid[d_st][arose != 0]]++;
    if (arose && !aborted) {
        snprintf(nm, sizeof(nm), "hash.failstop.returned-normally.%s.%s", xname[x], dst[d_st].name);
        vrt_fail(nm, "hash function returned a value >= m %d time(s) during %s but the call returned normally", arose, xname[x]);
    }
    if (!arose && aborted) {
        snprintf(nm, sizeof(nm), "hash.failstop.abort-without-bad-value.%s.%s", xname[x], dst[d_st].name);
        vrt_fail(nm, "%s aborted although every hash value was in range", xname[x]);
    }
    if (aborted) d_abort_st = d_st;
    return aborted;
}

enum { P_DIRECT, P_NULL_P, P_NULL_F, P_NULL2_P, P_NULL2_F, P_SAME_P, P_SAME_F, P_SWAP_I, P_SWAP_P, P_SWNULL_P, P_SWNULL_F,
       P_STF, P_STFNULL, P_CLEAR, P_CLEARB, P_BC_P, P_BC_F, P_CB_P, P_CB_F, NP };
enum { K_SW_M, K_SW_MAX_ONE, K_SW_HI32, K_MOD_LO, K_MOD_HI, K_MOD_WIDE, K_DIV, K_IMPLICIT, NK };
static const char *const kname[NK] = { "returns m for every key when switched on", "returns SIZE_MAX for one key when switched on",
    "returns 2^32 + in-range when switched on", "key % larger count, small residues only", "key % larger count, call's key has a large residue",
    "key % larger count, residents have large residues", "cstl_hash_div passed explicitly", "NULL on a fresh table (cstl_hash_mul)" };
#define ND_SZ 4
static const size_t d_big[ND_SZ] = { 64, 8, 3, 17 }, d_small[ND_SZ] = { 32, 5, 1, 16 };
#define ND_FIN 7    /* final call: X_RESIZE .. X_ERASE */
static uint64_t ndcells(void) { return (uint64_t)NP * ND_FIN * NK * 2 * ND_SZ; }
#define ND_EL 12

static void run_d(uint64_t idx)
{
    uint64_t i0 = idx;
    int path, fin, kind, grow, sz, i, tpre, h_is_u, target;
    size_t nbig, nsmall, ninst, nfin, nmid, rkey[8], finkey;
    struct elem *de[ND_EL];
    struct cstl_hash *h = &T;
    cstl_hash_func_t *F;
    path = i0 % NP; i0 /= NP;
    fin = i0 % ND_FIN; i0 /= ND_FIN;
    kind = i0 % NK; i0 /= NK;
    grow = i0 % 2; i0 /= 2;
    sz = i0 % ND_SZ;
    nbig = d_big[sz]; nsmall = d_small[sz];
    ninst = grow ? nsmall : nbig; nfin = grow ? nbig : nsmall;
    nmid = (nsmall + nbig) / 2;
    if (nmid == nsmall || nmid == nbig) nmid = nbig + 3;
    F = kind <= K_SW_HI32 ? badf : kind <= K_MOD_WIDE ? modf_ : kind == K_DIV ? cstl_hash_div : NULL;
    tpre = (int)(vrt_mix(0xD7, idx) & 1);
    h_is_u = path == P_SWAP_I || path == P_SWAP_P || path == P_SWNULL_P || path == P_SWNULL_F;
    vrt_case_note("D cell: path %s, then %s; function: %s; %zu -> %zu buckets%s", dst[path == P_DIRECT ? S_DIRECT : path + 1].name,
                  xname[fin], kname[kind], ninst, nfin, h_is_u ? (tpre ? "; receiving table had its own function" : "; receiving table fresh") : "");
    for (i = 0; i < ND_EL; i++) {
        de[i] = vrt_alloc(sizeof(*de[i]));
        memset(de[i], 0x5e, sizeof(*de[i]));
        de[i]->magic = 0xe1e1; de[i]->id = i;
    }
    /* residents: residues below the smaller count, except for the "wide" kind; multipliers reach above bit 33 */
    for (i = 0; i < 8; i++) {
        const size_t res = kind == K_MOD_WIDE ? (size_t)i * (nbig - 1) / 7 : (size_t)i % nsmall;
        rkey[i] = res + nbig * ((size_t)i + 1 + ((i & 1) ? (size_t)1 << 33 : 0));
    }
    bad_on = 0; bad_returned = 0; bad_nth = 0; bad_seen = 0; bad_scope = 0; fix_mod = nbig; mod_bad_m = 0; d_abort_st = -1;
    bad_delta = kind == K_SW_M ? 0 : kind == K_SW_MAX_ONE ? SIZE_MAX : BAD_HI32;
    memset(&T, 0x5e, sizeof(T)); memset(&U, 0x5e, sizeof(U));
    if (idx & 1) { cstl_hash_init(&T, offsetof(struct elem, node)); cstl_hash_init(&U, offsetof(struct elem, node)); }
    else { const struct cstl_hash ini = CSTL_HASH_INITIALIZER(struct elem, node); T = ini; U = ini; }
#define STEP(hh, x, a, e, f) do { if (d_step(hh, x, a, e, f)) goto over; } while (0)
#define FILL(hh) do { for (i = 0; i < 8; i++) STEP(hh, X_INSERT, rkey[i], de[i], NULL); } while (0)
    if (h_is_u) {
        h = &U;
        if (tpre) {     /* the table that will receive the function by swap has a life of its own */
            d_st = S_OTHER;
            STEP(&T, X_RESIZE, 5, NULL, goodf);
            STEP(&T, X_INSERT, 100, de[10], NULL);
            STEP(&T, X_INSERT, 101, de[11], NULL);
        }
    }
    d_st = S_DIRECT;
    switch (path) {
    case P_DIRECT:
        STEP(h, X_RESIZE, nfin, NULL, F); FILL(h);
        break;
    case P_NULL_P: case P_NULL_F: case P_NULL2_P: case P_NULL2_F: case P_STF: case P_STFNULL:
        STEP(h, X_RESIZE, ninst, NULL, F); FILL(h);
        if (path == P_NULL2_P || path == P_NULL2_F) { STEP(h, X_RESIZE, nmid, NULL, NULL); d_st = S_NULL_P; }
        STEP(h, X_RESIZE, nfin, NULL, NULL);
        d_st = (path == P_NULL2_P || path == P_NULL2_F) ? S_NULL2_P : S_NULL_P;
        if (path == P_NULL_F || path == P_NULL2_F) { STEP(h, X_REHASH, 0, NULL, NULL); d_st++; }
        if (path == P_STF || path == P_STFNULL) { STEP(h, X_SHRINK, 0, NULL, NULL); d_st = S_STF; }
        if (path == P_STFNULL) { STEP(h, X_RESIZE, nfin + 2, NULL, NULL); d_st = S_STFNULL_P; }
        break;
    case P_SAME_P: case P_SAME_F:
        STEP(h, X_RESIZE, ninst, NULL, F); FILL(h);
        STEP(h, X_RESIZE, nfin, NULL, F); d_st = S_SAME_P;
        if (path == P_SAME_F) { STEP(h, X_REHASH, 0, NULL, NULL); d_st = S_SAME_F; }
        break;
    case P_SWAP_I:
        STEP(h, X_RESIZE, nfin, NULL, F); FILL(h);
        STEP(h, X_SWAP, 0, NULL, NULL); d_st = S_SWAP_I;
        break;
    case P_SWAP_P:
        STEP(h, X_RESIZE, ninst, NULL, F); FILL(h);
        STEP(h, X_RESIZE, nfin, NULL, NULL); d_st = S_NULL_P;
        STEP(h, X_SWAP, 0, NULL, NULL); d_st = S_SWAP_P;
        break;
    case P_SWNULL_P: case P_SWNULL_F:
        STEP(h, X_RESIZE, ninst, NULL, F); FILL(h);
        STEP(h, X_SWAP, 0, NULL, NULL); d_st = S_SWAP_I;
        STEP(&T, X_RESIZE, nfin, NULL, NULL); d_st = S_SWNULL_P;
        if (path == P_SWNULL_F) { STEP(&T, X_REHASH, 0, NULL, NULL); d_st = S_SWNULL_F; }
        break;
    case P_CLEAR: case P_CLEARB:
        STEP(h, X_RESIZE, ninst, NULL, path == P_CLEARB ? NULL : F); FILL(h);
        if (idx & 2) STEP(h, X_RESIZE, nmid, NULL, NULL);       /* cleared while a rehash is pending */
        STEP(h, X_CLEAR, 0, NULL, NULL);
        d_st = path == P_CLEARB ? S_CLEARB : S_CLEAR;
        STEP(h, X_RESIZE, nfin, NULL, F); FILL(h);
        break;
    case P_BC_P: case P_BC_F:
        STEP(h, X_RESIZE, ninst, NULL, (idx & 2) ? cstl_hash_div : NULL); FILL(h);
        STEP(h, X_RESIZE, nfin, NULL, F); d_st = S_BC_P;
        if (path == P_BC_F) { STEP(h, X_REHASH, 0, NULL, NULL); d_st = S_BC_F; }
        break;
    default:
        STEP(h, X_RESIZE, ninst, NULL, F); FILL(h);
        STEP(h, X_RESIZE, nfin, NULL, (idx & 2) ? cstl_hash_div : cstl_hash_mul); d_st = S_CB_P;
        if (path == P_CB_F) { STEP(h, X_REHASH, 0, NULL, NULL); d_st = S_CB_F; }
        break;
    }
    /* the final call on the table that now has the function */
    target = kind == K_MOD_WIDE ? 7 : 1;
    finkey = rkey[target];
    if (fin == X_INSERT) finkey = (kind == K_MOD_HI ? nbig - 1 : 0) + nbig * 1000;
    if (fin == X_FIND && kind == K_MOD_HI) finkey = nbig - 1 + nbig * 2000;       /* an absent key */
    if (kind == K_SW_MAX_ONE) { bad_scope = 1; bad_key = fin >= X_INSERT ? finkey : rkey[2]; }
    bad_on = kind <= K_SW_HI32;
    STEP(&T, fin, fin == X_RESIZE ? nfin + 1 : finkey, fin == X_INSERT ? de[8] : de[target], NULL);
    bad_on = 0;
    if (h_is_u && tpre) { d_st = S_OTHER; STEP(&U, X_FIND, 100, NULL, NULL); }   /* what went the other way keeps working */
    VRT_COUNT("D.cells.completed-without-abort");
over:
#undef STEP
#undef FILL
    bad_on = 0;
    if (d_abort_st >= 0) {
        VRT_COUNT("D.cells.aborted-as-required");
        if (F == modf_ && mod_bad_m == nsmall && !grow) VRT_COUNT("D.mod.in-range-when-installed-bad-for-later-smaller-count");
        if (F == modf_ && mod_bad_m == nsmall && grow && dst[d_abort_st].pending) VRT_COUNT("D.mod.in-range-for-new-count-bad-for-old-count-being-swept");
    }
    cstl_hash_clear(&T, NULL); cstl_hash_clear(&U, NULL);
    for (i = 0; i < ND_EL; i++) vrt_free(de[i]);
    VRT_COUNT("D.cells");
    vrt_sig(0, vrt_mix(0xD0, idx));
}

/* ---------------- C: built-in functions never abort ---------------- */
static void run_c(uint64_t idx)
{
    vrt_rng g;
    struct elem *p[64];
    int live[64], i, nops = 600;
    size_t keys[64];
    vrt_rng_seed(&g, vrt_seed, 0xC17C00 + idx);
    vrt_case_note("C: random history on a table using cstl_hash_div/mul, boundary and random 64-bit keys");
    for (i = 0; i < 64; i++) {
        p[i] = vrt_alloc(sizeof(*p[i])); memset(p[i], 0, sizeof(*p[i])); live[i] = 0;
        switch (vrt_below(&g, 4)) {
        case 0: keys[i] = vrt_next(&g); break;
        case 1: keys[i] = ((size_t)1 << vrt_below(&g, 64)) - vrt_below(&g, 2); break;
        case 2: keys[i] = SIZE_MAX - vrt_below(&g, 3); break;
        default: keys[i] = vrt_below(&g, 2000); break;
        }
    }
    cstl_hash_init(&T, offsetof(struct elem, node));
    vrt_state("builtin");
    for (i = 0; i < nops; i++) {
        const int e = vrt_below(&g, 64), r = vrt_below(&g, 10);
        if (i == 0 || r == 0) {
            size_t n = 1 + vrt_below(&g, vrt_below(&g, 4) ? 16 : 5000);
            VRT_OP2("hash.resize", "n=%ld f=%ld", n, i & 1);
            cstl_hash_resize(&T, n, vrt_below(&g, 3) == 0 ? NULL : (vrt_below(&g, 2) ? cstl_hash_div : cstl_hash_mul));
        } else if (r == 9 && vrt_below(&g, 3) == 0) {
            /* the calls that consult the function without a key, and a second life after clear */
            int cnt = 0, j;
            switch (vrt_below(&g, 4)) {
            case 0: VRT_OP0("hash.rehash", ""); cstl_hash_rehash(&T); VRT_COUNT("C.rehash"); break;
            case 1: VRT_OP0("hash.foreach", ""); cstl_hash_foreach(&T, d_visit, &cnt); VRT_COUNT("C.foreach"); break;
            case 2: VRT_OP0("hash.shrink_to_fit", ""); cstl_hash_shrink_to_fit(&T); VRT_COUNT("C.shrink_to_fit"); break;
            default:
                VRT_OP0("hash.clear", ""); cstl_hash_clear(&T, NULL);
                for (j = 0; j < 64; j++) live[j] = 0;
                VRT_OP1("hash.resize", "n=%ld (fresh, after clear)", 1 + (i & 15));
                cstl_hash_resize(&T, 1 + (i & 15), (i & 16) ? NULL : (i & 32) ? cstl_hash_div : cstl_hash_mul);
                VRT_COUNT("C.clear-then-fresh-resize");
                break;
            }
        } else if (r < 5 && !live[e]) {
            VRT_OP1("hash.insert", "key=%ld", keys[e]);
            cstl_hash_insert(&T, keys[e], p[e]); live[e] = 1;
        } else if (r < 8) {
            void *f;
            VRT_OP1("hash.find", "key=%ld", keys[e]);
            f = cstl_hash_find(&T, keys[e], NULL, NULL);
            if (live[e] && f == NULL) vrt_fail("hash.builtin.lost-element", "element with key %zu not found", keys[e]);
        } else if (live[e]) {
            VRT_OP1("hash.erase", "key=%ld", keys[e]);
            cstl_hash_erase(&T, p[e]); live[e] = 0;
        }
    }
    cstl_hash_clear(&T, NULL);
    for (i = 0; i < 64; i++) vrt_free(p[i]);
    VRT_COUNT("C.histories-without-abort");
    VRT_COUNT_N("C.calls", nops);
}

/* ---------------- A6: keys that are adversarial for multiplicative hashing at ANY precision ---------------- */
/* Whatever arithmetic computes frac(k * phi) * m, the result can reach m only for keys whose product with the golden
 * ratio has a fractional part within one unit of that arithmetic's precision of 1 (or of 0).  Random keys never hit a
 * 2^-54 window, so such keys are constructed: (i) Fibonacci / Lucas numbers (best rational approximations of phi),
 * their multiples and neighbours; (ii) for every common fixed-point golden multiplier A of b bits the keys
 * +-j * A^-1 mod 2^b (products j and 2^b - j); (iii) for the golden ratio at every floating precision (and the
 * 12-digit literal a library may use instead) the record keys of the continued-fraction walk, their sums and their
 * multiples scaled to every magnitude 2^20 .. 2^63.  Every key x every table size of the sweeps above, mul and div;
 * a sample of them goes through real tables. */
typedef unsigned __int128 u128;
static size_t am[600];
static int nam;
static uint64_t G64, fibs[96], lucs[96];
static u128 G128;                   /* ~ 2^128 * (phi - 1) */
static int nfib, nluc;
static struct { uint64_t a; int b; } gm[160];
static int ngm;
#define NCF 7
static const char *const cfname[NCF] = { "phi to 128 bits", "phi as long double", "phi as double", "phi as float",
    "literal 1.61803398875 as long double", "as double", "as float" };
static u128 cfg[NCF];
#define NTAB_SZ 9
static const size_t tab_sz[NTAB_SZ] = { 1, 2, 3, 7, 64, 1000, 65537, ((size_t)1 << 17) - 1, (size_t)1 << 20 };
static uint64_t a6_cases;

static void add_mult(uint64_t a, int b)
{
    int i;
    if (b < 64) a &= ((uint64_t)1 << b) - 1;
    if (a == 0) return;
    while (!(a & 1)) { a >>= 1; b--; }
    for (i = 0; i < ngm; i++) if (gm[i].a == a && gm[i].b == b) return;
    if (ngm < (int)(sizeof(gm) / sizeof(gm[0]))) { gm[ngm].a = a; gm[ngm].b = b; ngm++; }
}
static void add_mult2(uint64_t a, int b)     /* as a b-bit multiplier, and with the product taken mod 2^64 (without / with integer bit) */
{
    add_mult(a, b); add_mult(a, 64);
    if (b < 64) add_mult(a | ((uint64_t)1 << b), 64);
}
static u128 frac_of(long double c) { return (u128)(uint64_t)((c - 1.0L) * 0x1p63L) << 65; }
static void build_adv(void)
{
    static const size_t extra[] = { 7, 1000, 1000003, 0xfffffffffffull, ((size_t)1 << 53) + 1, ((size_t)1 << 53) - 1, SIZE_MAX / 2 };
    static const int bits[] = { 16, 24, 32, 48, 52, 53, 56, 63, 64 };
    volatile long double lit_l = 1.61803398875L, phi_l;
    volatile double lit_d = 1.61803398875, phi_d;
    volatile float lit_f = 1.61803398875f, phi_f;
    u128 r1;
    int i, j;
    nam = 0;
    for (i = 0; i < nbm; i++) am[nam++] = bm[i];
    for (i = 0; i < (int)(sizeof(extra) / sizeof(extra[0])); i++) {
        for (j = 0; j < nam && am[j] != extra[i]; j++) ;
        if (j == nam) am[nam++] = extra[i];
    }
    fibs[0] = 0; fibs[1] = 1; nfib = 2;
    while (fibs[nfib - 1] <= UINT64_MAX - fibs[nfib - 2]) { fibs[nfib] = fibs[nfib - 1] + fibs[nfib - 2]; nfib++; }
    lucs[0] = 2; lucs[1] = 1; nluc = 2;
    while (lucs[nluc - 1] <= UINT64_MAX - lucs[nluc - 2]) { lucs[nluc] = lucs[nluc - 1] + lucs[nluc - 2]; nluc++; }
    /* phi - 1 = lim F(n-1)/F(n); the last pair below 2^64 is good to ~2^-129 */
    G128 = ((u128)fibs[nfib - 2] << 64) / fibs[nfib - 1];
    r1 = ((u128)fibs[nfib - 2] << 64) % fibs[nfib - 1];
    G64 = (uint64_t)G128;
    G128 = (G128 << 64) | (uint64_t)((r1 << 64) / fibs[nfib - 1]);
    phi_l = 1.0L + (long double)G64 * 0x1p-64L; phi_d = (double)phi_l; phi_f = (float)phi_l;
    ngm = 0;
    for (i = -2; i <= 2; i++) add_mult2(0x9E3779B97F4A7C15ull + (uint64_t)i, 64);
    add_mult2(0x9E3779B1u, 32); add_mult2(0x9E3779B9u, 32); add_mult2(2654435761u, 32); add_mult2(2654435769u, 32);
    add_mult2(40503, 16);
    for (i = 0; i < (int)(sizeof(bits) / sizeof(bits[0])); i++) {
        const uint64_t fl = bits[i] == 64 ? G64 : G64 >> (64 - bits[i]);
        add_mult2(fl, bits[i]); add_mult2(fl + 1, bits[i]);
    }
    add_mult2((uint64_t)((lit_f - 1.0f) * 0x1p23f), 23); add_mult2((uint64_t)((phi_f - 1.0f) * 0x1p23f), 23);
    add_mult2((uint64_t)((lit_d - 1.0) * 0x1p52), 52);    add_mult2((uint64_t)((phi_d - 1.0) * 0x1p52), 52);
    add_mult2((uint64_t)((lit_l - 1.0L) * 0x1p63L), 63);  add_mult2((uint64_t)((phi_l - 1.0L) * 0x1p63L), 63);
    cfg[0] = G128; cfg[1] = frac_of(phi_l); cfg[2] = frac_of(phi_d); cfg[3] = frac_of(phi_f);
    cfg[4] = frac_of(lit_l); cfg[5] = frac_of(lit_d); cfg[6] = frac_of(lit_f);
    a6_cases = 2 + (uint64_t)ngm + NCF + 3 * NTAB_SZ;
}

/* what happens to a generated key: evaluated against every table size, or sampled for the table cases */
#define ADV_NSAMP 8192
static int adv_collect, adv_pri, adv_nsamp;
static size_t *adv_samp;
static uint64_t adv_evals, adv_t[6];    /* keys; exact fraction of k*c: zero, within 2^-52 / 2^-60 of 1, within 2^-52 / 2^-60 of 0 */
static void adv_key(size_t k)
{
    int j;
    adv_t[0]++;
    if (adv_collect) {
        if (adv_pri ? adv_nsamp < ADV_NSAMP * 3 / 4 : (adv_nsamp < ADV_NSAMP && vrt_mix(vrt_seed, k) % 509 == 0)) adv_samp[adv_nsamp++] = k;
        return;
    }
    for (j = 0; j < nam; j++) { check_mul(k, am[j]); check_div(k, am[j]); }
    adv_evals += nam;
}
static void adv_class(size_t k, u128 g)
{
    const u128 fr = (u128)k * g, d1 = (u128)0 - fr;
    if (fr == 0) { adv_t[1]++; return; }
    if (d1 <= (u128)1 << 76) adv_t[2]++;
    if (d1 <= (u128)1 << 68) adv_t[3]++;
    if (fr <= (u128)1 << 76) adv_t[4]++;
    if (fr <= (u128)1 << 68) adv_t[5]++;
}
static void gen_fib(const uint64_t *f, int n)
{
    int i, d;
    uint64_t c;
    for (i = 0; i < n; i++) for (c = 1; c <= 64; c++) {
        if (f[i] != 0 && c > UINT64_MAX / f[i]) break;
        for (d = -2; d <= 2; d++) {
            const size_t k = (size_t)(c * f[i]) + (size_t)d;
            adv_pri = c == 1 && d == 0;
            adv_class(k, G128);
            adv_key(k);
        }
        if (f[i] == 0) break;
    }
}
static void gen_mult(int mi)
{
    const uint64_t a = gm[mi].a, mask = gm[mi].b == 64 ? ~(uint64_t)0 : ((uint64_t)1 << gm[mi].b) - 1;
    uint64_t inv = a, j;
    int s, v;
    for (s = 0; s < 6; s++) inv *= 2 - a * inv;
    if (a * inv != 1) vrt_fail("harness.hashrange.modular-inverse", "no inverse for multiplier %llx", (unsigned long long)a);
    for (j = 0; j <= 4096; j++) for (s = 0; s < 2; s++) {
        const uint64_t want = (s ? (uint64_t)0 - j : j) & mask, k0 = (want * inv) & mask;
        if (((k0 * a) & mask) != want) vrt_fail("harness.hashrange.modular-inverse", "product for multiplier %llx is not the wanted one", (unsigned long long)a);
        adv_pri = j <= 2;
        adv_key((size_t)k0);
        if (s && j >= 1 && j <= 2) adv_t[2]++;
        /* keys wider than the multiplier: everything above bit b set, or arbitrary */
        for (v = 0; v < 2 && mask != ~(uint64_t)0 && j <= 1024; v++)
            adv_key((size_t)(k0 | (v ? vrt_mix(0xA6, k0) << gm[mi].b : ~mask)));
    }
}
/* the keys at which frac(k*c) comes closer to 0 or to 1 than for every smaller key (c = 1 + g / 2^128), in increasing order;
 * of a long run of intermediate ones the first two and the last two */
static int cf_records(u128 g, uint64_t *rec, int max)
{
    u128 du = g, dv = (u128)0 - g, ku = 1, kv = 1;
    int n = 0;
    rec[n++] = 1;
    while (du != 0 && dv != 0 && n + 4 <= max) {
        const int up = du < dv;             /* the key nearest 1 moves closer by adding the key nearest 0, or the other way round */
        u128 *const kk = up ? &kv : &ku, *const dk = up ? &dv : &du;
        const u128 ko = up ? ku : kv, dd = up ? du : dv, t = *dk / dd;
        u128 i;
        for (i = 1; i <= t; i++) {
            if (i > 2 && i + 1 < t) i = t - 1;
            if (i > UINT64_MAX / ko || *kk + i * ko > UINT64_MAX) return n;
            rec[n++] = (uint64_t)(*kk + i * ko);
        }
        *kk += t * ko; *dk -= t * dd;
    }
    return n;
}
static void cf_key(size_t k, u128 g, int pri) { adv_pri = pri; adv_class(k, g); adv_key(k); }
static void gen_cf(int ci)
{
    static uint64_t rec[1024];
    const u128 g = cfg[ci];
    const int n = cf_records(g, rec, 1024);
    int i, j, l, e;
    uint64_t t;
    for (i = 0; i < n; i++) {
        const uint64_t q = rec[i];
        cf_key(q, g, 1);
        cf_key(q - 1, g, 0); cf_key(q + 1, g, 0); cf_key(q - 2, g, 0); cf_key(q + 2, g, 0);
        for (t = 2; t <= 8 && q <= UINT64_MAX / t; t++) cf_key(t * q, g, 0);
        for (j = i > 9 ? i - 9 : 0; j <= i; j++) {       /* sums of two and three neighbouring record keys */
            if (q > UINT64_MAX - rec[j]) continue;
            cf_key(q + rec[j], g, 0);
            for (l = j; l <= i; l++) if (q + rec[j] <= UINT64_MAX - rec[l]) cf_key(q + rec[j] + rec[l], g, 0);
        }
    }
    for (e = 20; e <= 63; e++) {                         /* record keys scaled into the magnitude 2^e */
        const uint64_t lim = (uint64_t)1 << e;
        for (i = n - 1; i > 0 && rec[i] > lim; i--) ;
        for (j = i; j >= 0 && j > i - 6; j--) {
            const uint64_t t0 = (lim + rec[j] - 1) / rec[j];
            cf_key(t0 * rec[j], g, 0);
            if (t0 + 1 <= UINT64_MAX / rec[j]) cf_key((t0 + 1) * rec[j], g, 0);
        }
    }
}
static void adv_begin(int collect)
{
    memset(adv_t, 0, sizeof(adv_t)); adv_evals = 0; adv_collect = collect; adv_pri = 0; adv_nsamp = 0;
    if (G64 != 0x9E3779B97F4A7C15ull || nfib != 94)
        vrt_fail("harness.hashrange.golden-constant", "2^64 * (phi - 1) came out as %llx from %d Fibonacci numbers", (unsigned long long)G64, nfib);
}
static void adv_end(void)
{
    VRT_COUNT_N("A.mul.evaluations", adv_evals);
    VRT_COUNT_N("A.div.evaluations", adv_evals);
    VRT_COUNT_N("A.mul.adversarial-keys-x-every-table-size", adv_t[0]);
}
static void run_a6_table(uint64_t c);
static void run_a6(uint64_t c)
{
    vrt_sig(0, vrt_mix(vrt_mix(0xA6, 0xadce55a1), c));      /* (small tags with small slice numbers collide in vrt_mix) */
    if (c < 2) {
        vrt_case_note("A6 mul/div: %s numbers below 2^64, multiples c <= 64, neighbours +-1 +-2 x %d table sizes", c ? "Lucas" : "Fibonacci", nam);
        VRT_OP2("hash.mul", "Fibonacci (0) / Lucas (1) keys: %ld x %ld table sizes", c, nam);
        adv_begin(0);
        gen_fib(c ? lucs : fibs, c ? nluc : nfib);
        adv_end();
        VRT_COUNT_N("A.mul.fib.keys", adv_t[0]);
        VRT_COUNT_N("A.mul.fib.frac-within-2^-52-of-1", adv_t[2]); VRT_COUNT_N("A.mul.fib.frac-within-2^-60-of-1", adv_t[3]);
        VRT_COUNT_N("A.mul.fib.frac-within-2^-52-of-0", adv_t[4]); VRT_COUNT_N("A.mul.fib.frac-within-2^-60-of-0", adv_t[5]);
        return;
    }
    c -= 2;
    if (c < (uint64_t)ngm) {
        vrt_case_note("A6 mul/div: keys +-j / A mod 2^%d, j <= 4096, for the fixed-point golden multiplier A = 0x%llx (also with high bits) x %d table sizes",
                      gm[c].b, (unsigned long long)gm[c].a, nam);
        VRT_OP2("hash.mul", "keys whose product with multiplier %lx mod 2^%ld is within 4096 of 0 / of 2^b", gm[c].a, gm[c].b);
        adv_begin(0);
        gen_mult((int)c);
        adv_end();
        VRT_COUNT_N("A.mul.fixedpoint.keys", adv_t[0]);
        VRT_COUNT_N("A.mul.fixedpoint.keys-with-product-within-2-of-2^b", adv_t[2]);
        VRT_COUNT("A.mul.fixedpoint.multipliers");
        if (gm[c].b == 64) VRT_COUNT("A.mul.fixedpoint.multipliers.mod-2^64"); else VRT_COUNT("A.mul.fixedpoint.multipliers.narrower");
        return;
    }
    c -= ngm;
    if (c < NCF) {
        vrt_case_note("A6 mul/div: continued-fraction record keys of %s, sums, multiples scaled to 2^20..2^63 x %d table sizes", cfname[c], nam);
        VRT_OP2("hash.mul", "continued-fraction keys of constant %ld x %ld table sizes", c, nam);
        adv_begin(0);
        gen_cf((int)c);
        adv_end();
        VRT_COUNT_N("A.mul.cf.keys", adv_t[0]);
        VRT_COUNT_N("A.mul.cf.frac-exactly-0", adv_t[1]);
        VRT_COUNT_N("A.mul.cf.frac-within-2^-52-of-1", adv_t[2]); VRT_COUNT_N("A.mul.cf.frac-within-2^-60-of-1", adv_t[3]);
        VRT_COUNT_N("A.mul.cf.frac-within-2^-52-of-0", adv_t[4]); VRT_COUNT_N("A.mul.cf.frac-within-2^-60-of-0", adv_t[5]);
        return;
    }
    run_a6_table(c - NCF);
}
/* a sample of all of them (the most pointed ones always) lives in a real table using the built-in functions */
static void run_a6_table(uint64_t c)
{
    const size_t n = tab_sz[c % NTAB_SZ];
    const int fn = (int)(c / NTAB_SZ);          /* 0 mul, 1 NULL (= mul), 2 div */
    struct elem **p;
    int i, cnt, vis = 0;
    adv_samp = vrt_alloc(ADV_NSAMP * sizeof(*adv_samp));
    adv_begin(1);
    gen_fib(fibs, nfib); gen_fib(lucs, nluc);
    for (i = 0; i < ngm; i++) gen_mult(i);
    for (i = 0; i < NCF; i++) gen_cf(i);
    cnt = n < 64 ? (adv_nsamp < 768 ? adv_nsamp : 768) : adv_nsamp;
    vrt_case_note("A6 table: %d adversarial keys in a table of %zu buckets using %s", cnt, n, fn == 0 ? "cstl_hash_mul" : fn == 1 ? "NULL (cstl_hash_mul)" : "cstl_hash_div");
    p = vrt_alloc((size_t)cnt * sizeof(*p));
    for (i = 0; i < cnt; i++) {
        const int s = n < 64 ? (int)((uint64_t)i * adv_nsamp / cnt) : i;
        p[i] = vrt_alloc(sizeof(*p[i])); memset(p[i], 0x5e, sizeof(*p[i])); p[i]->magic = 0xe1e1; p[i]->id = i;
        p[i]->node.key = adv_samp[s]; p[i]->node.next = NULL;
    }
    vrt_state("builtin.adversarial-keys");
    cstl_hash_init(&T, offsetof(struct elem, node));
    VRT_OP2("hash.resize", "n=%ld f=%ld (0 mul, 1 NULL, 2 div)", n, fn);
    cstl_hash_resize(&T, n, fn == 0 ? cstl_hash_mul : fn == 1 ? NULL : cstl_hash_div);
    for (i = 0; i < cnt; i++) {
        const size_t k = p[i]->node.key;
        VRT_OP1("hash.insert", "key=%ld", k);
        cstl_hash_insert(&T, k, p[i]);
    }
    VRT_OP1("hash.resize", "n=%ld f=NULL (rehash pending from here on)", n + 2);
    cstl_hash_resize(&T, n + 2, NULL);
    for (i = 0; i < cnt; i++) {
        const size_t k = p[i]->node.key;
        const struct elem *f;
        VRT_OP1("hash.find", "key=%ld", k);
        f = cstl_hash_find(&T, k, NULL, NULL);
        if (f == NULL || f->node.key != k) vrt_fail("hash.builtin.lost-element", "element with key %zu not found", k);
    }
    VRT_OP0("hash.foreach", ""); cstl_hash_foreach(&T, d_visit, &vis);
    if (vis != cnt) vrt_fail("hash.builtin.lost-element", "foreach visited %d of %d elements", vis, cnt);
    for (i = 0; i < cnt; i += 2) {
        VRT_OP1("hash.erase", "key=%ld", p[i]->node.key);
        cstl_hash_erase(&T, p[i]);
    }
    VRT_OP0("hash.rehash", ""); cstl_hash_rehash(&T);
    for (i = 1; i < cnt; i += 2) {
        VRT_OP1("hash.find", "key=%ld", p[i]->node.key);
        if (cstl_hash_find(&T, p[i]->node.key, NULL, NULL) == NULL) vrt_fail("hash.builtin.lost-element", "element with key %zu not found", (size_t)p[i]->node.key);
    }
    cstl_hash_clear(&T, NULL);
    for (i = 0; i < cnt; i++) vrt_free(p[i]);
    vrt_free(p); vrt_free(adv_samp); adv_samp = NULL;
    VRT_COUNT_N("A.table.adversarial-keys-inserted", cnt);
    VRT_COUNT("A.table.histories-without-abort");
}

static uint64_t ncases(void)
{
    build_m_set();
    build_adv();
    a1_chunks = vrt_thorough ? ((size_t)1 << 25) / CHUNK_K + 1 : ((size_t)1 << 24) / CHUNK_K;
    a2_cases = vrt_thorough ? 256 : 32;
    a3_cases = vrt_thorough ? 1024 : 64;
    adiv_cases = vrt_thorough ? 64 : 16;
    b_cases = ncells();
    c_cases = vrt_thorough ? 4000 : 400;
    a4_cases = 256;
    a5_cases = vrt_thorough ? 256 : 32;
    d_cases = ndcells();
    return a1_chunks + a2_cases + a3_cases + adiv_cases + b_cases + c_cases + a4_cases + a5_cases + d_cases + a6_cases;
}
static void run_case(uint64_t idx)
{
    if (idx < a1_chunks) { run_a1(idx); return; }
    idx -= a1_chunks;
    if (idx < a2_cases) { run_a2(idx, a2_cases); return; }
    idx -= a2_cases;
    if (idx < a3_cases) { run_a3(idx, a3_cases); return; }
    idx -= a3_cases;
    if (idx < adiv_cases) { run_adiv(idx); return; }
    idx -= adiv_cases;
    if (idx < b_cases) { run_cell(idx); return; }
    idx -= b_cases;
    if (idx < c_cases) { run_c(idx); return; }
    idx -= c_cases;
    if (idx < a4_cases) { run_a4(idx); return; }
    idx -= a4_cases;
    if (idx < a5_cases) { run_a5(idx); return; }
    idx -= a5_cases;
    if (idx < d_cases) { run_d(idx); return; }
    idx -= d_cases;
    run_a6(idx);
}
static void winit(void)
{
    (void)ncases();
    vrt_sig_name(0, "input-slices-and-matrix-cells");
}
static void wfini(void)
{
    /* largest result/m ratio observed by this worker, in parts per 2^32 */
    if (worst_den) vrt_max_dyn("max.A.mul.result-over-m.per-2^32", (uint64_t)(((unsigned __int128)worst_num << 32) / worst_den));
}
static const char *const required[] = {
    "A.mul.evaluations", "A.div.evaluations", "A.mul.scale-factor-grid-points", "A.mul.float-grid-keys", "A.mul.all-32-bit-keys", "A.mul.random-64-bit-keys",
    "A.mul.fib.keys", "A.mul.fib.frac-within-2^-60-of-1", "A.mul.fib.frac-within-2^-60-of-0",
    "A.mul.fixedpoint.keys", "A.mul.fixedpoint.keys-with-product-within-2-of-2^b", "A.mul.fixedpoint.multipliers.mod-2^64", "A.mul.fixedpoint.multipliers.narrower",
    "A.mul.cf.keys", "A.mul.cf.frac-within-2^-52-of-1", "A.mul.cf.frac-within-2^-60-of-1", "A.mul.cf.frac-within-2^-60-of-0",
    "A.table.adversarial-keys-inserted", "A.table.histories-without-abort",
    "B.cells.aborted-as-required", "B.cells.bad-value-on-relocation-path", "C.histories-without-abort",
    "C.rehash", "C.foreach", "C.shrink_to_fit", "C.clear-then-fresh-resize",
    "D.cells.aborted-as-required", "D.cells.completed-without-abort",
    "D.mod.in-range-when-installed-bad-for-later-smaller-count", "D.mod.in-range-for-new-count-bad-for-old-count-being-swept",
    "D.state.null-resize.pending.bad-arose", "D.state.null-resize.finished.bad-arose", "D.state.two-null-resizes.finished.bad-arose",
    "D.state.same-function-again.pending.bad-arose", "D.state.same-function-again.finished.bad-arose",
    "D.state.swapped-in.idle.bad-arose", "D.state.swapped-in.pending.bad-arose", "D.state.swapped-in-then-null-resize.finished.bad-arose",
    "D.state.after-shrink-to-fit.bad-arose", "D.state.shrink-to-fit-then-null-resize.pending.bad-arose",
    "D.state.clear-then-fresh-resize.idle.bad-arose", "D.state.builtin-life-then-clear.idle.bad-arose",
    "D.state.builtin-then-caller.pending.bad-arose", "D.state.caller-then-builtin.pending.bad-arose",
    "D.state.caller-then-builtin.finished.in-range",
    "D.entry.insert.bad-arose", "D.entry.find.bad-arose", "D.entry.erase.bad-arose", "D.entry.rehash.bad-arose", "D.entry.foreach.bad-arose",
    "D.entry.shrink_to_fit.bad-arose", NULL
};
static const struct vrt_harness H = { "hashrange", ncases, run_case, winit, wfini, required, 16 };
int main(int argc, char **argv) { return vrt_main(argc, argv, &H); }
