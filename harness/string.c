/*
 * C10 -- strings equal a reference string after every edit and stay
 * NUL-terminated; narrow (cstl_string/char/str*) and wide
 * (cstl_wstring/wchar_t/wcs*) through the same generic body
 * (string_body.h, included twice).
 *
 * Oracle: harness-side character array + length per object.  After every
 * call: size, str()[0..size] incl. the NUL at index size, at(i) == str + i,
 * at(size) aborts; find and compare functions are compared with the C library run on
 * the reference copy.  Domain rules of DESIGN.md section 3 (C10):
 *   pos > size                     must abort (object unchanged)
 *   insert at pos == size          must succeed
 *   erase/substr/find at pos==size abort or natural result, counted
 *   counts past the end            clamped to size - pos (any magnitude)
 *   growth above the allocator cap / not representable
 *                                  must abort, object unchanged
 *                                  (set_str: previous content or empty)
 *   reserve that cannot be satisfied  quiet no-op
 *
 * cases: [0, nclosure)                       closure scopes (width x scope x alphabet slice)
 *        [nclosure, nclosure + nmatrix)      op x position x count x state-class matrix
 *        [.., ..+nrandom)                    seeded random histories (even: narrow, odd: wide)
 *        [.., ..+NLONG)                      long strings (4095 .. 140000 characters) x the overflow argument classes
 */
#include "vrt.h"
#include "explore.h"
#include "cstl/string.h"
#include <string.h>
#include <wchar.h>
#include <stdio.h>
#include <sys/types.h>

enum {
    K_SET_STR = 1, K_INSERT, K_INSERT_STR, K_INSERT_STR_N, K_INSERT_CH,
    K_APPEND, K_APPEND_CH, K_APPEND_STR, K_APPEND_STR_N,
    K_ERASE, K_SUBSTR, K_RESIZE, K_RESERVE, K_SWAP, K_CLEAR,
    K_AT, K_AT_CONST, K_FIND_CH, K_FIND_STR, K_FIND, K_COMPARE, K_COMPARE_STR, K_NKINDS
};
static const char *const kname[K_NKINDS] = {
    "none", "set_str", "insert", "insert_str", "insert_str_n", "insert_ch",
    "append", "append_ch", "append_str", "append_str_n",
    "erase", "substr", "resize", "reserve", "swap", "clear",
    "at", "at_const", "find_ch", "find_str", "find", "compare", "compare_str"
};

/* op code: kind 6 bits | object 1 | position code 5 | count code 5 | aux 4 */
#define OP(kind, d, p, c, a) ((uint32_t)(kind) | (uint32_t)(d) << 6 | (uint32_t)(p) << 7 | (uint32_t)(c) << 12 | (uint32_t)(a) << 17)
#define OP_KIND(o) ((int)((o) & 63))
#define OP_D(o)    ((int)(((o) >> 6) & 1))
#define OP_POS(o)  ((int)(((o) >> 7) & 31))
#define OP_CNT(o)  ((int)(((o) >> 12) & 31))
#define OP_AUX(o)  ((int)(((o) >> 17) & 15))

/* position codes: 0..7 literal */
enum { P_SIZE = 8, P_SIZE_M1, P_SIZE_P1, P_MID, P_MAX, P_MAX_M1, P_MAX_M2, P_2_63, P_SIZE_P2, P_NCODES };
/* count codes: 0..7 literal */
enum {
    C_AVAIL = 8, C_AVAIL_P1, C_AVAIL_M1, C_MAX, C_MAX_M1, C_MAX_M2,
    C_MAXPOS, C_MAXPOS_P1, C_MAXPOS_M1, C_MAXSIZE, C_MAXSIZE_P1, C_MAXSIZE_M1,
    C_2_62, C_2_63, C_OVERCAP, C_OVERCAP_BIG, C_UNREP, C_UNREP_P1, C_UNREP_M1, C_UNREP_M2,
    C_16, C_40, C_NCODES
};
static const char *const ccodename[C_NCODES] = {
    "0", "1", "2", "3", "4", "5", "6", "7",
    "size-pos", "size-pos+1", "size-pos-1", "SIZE_MAX", "SIZE_MAX-1", "SIZE_MAX-2",
    "SIZE_MAX-pos", "SIZE_MAX-pos+1", "SIZE_MAX-pos-1", "SIZE_MAX-size", "SIZE_MAX-size+1", "SIZE_MAX-size-1",
    "2^62", "2^63", "cap/w+1", "cap", "SIZE_MAX/w", "SIZE_MAX/w+1", "SIZE_MAX/w-1", "SIZE_MAX/w-2",
    "16", "40"
};

static int resolve_pos(int code, size_t size, size_t *pos)
{
    if (code < 8) { *pos = (size_t)code; return 1; }
    switch (code) {
    case P_SIZE: *pos = size; return 1;
    case P_SIZE_M1: if (size == 0) return 0; *pos = size - 1; return 1;
    case P_SIZE_P1: *pos = size + 1; return 1;
    case P_SIZE_P2: *pos = size + 2; return 1;
    case P_MID: if (size < 3) return 0; *pos = size / 2; return 1;
    case P_MAX: *pos = SIZE_MAX; return 1;
    case P_MAX_M1: *pos = SIZE_MAX - 1; return 1;
    case P_MAX_M2: *pos = SIZE_MAX - 2; return 1;
    case P_2_63: *pos = (size_t)1 << 63; return 1;
    }
    return 0;
}
static int resolve_cnt(int code, size_t pos, size_t size, size_t w, size_t *cnt)
{
    const size_t avail = pos <= size ? size - pos : 0;
    if (code < 8) { *cnt = (size_t)code; return 1; }
    switch (code) {
    case C_AVAIL: *cnt = avail; return 1;
    case C_AVAIL_P1: *cnt = avail + 1; return 1;
    case C_AVAIL_M1: if (avail == 0) return 0; *cnt = avail - 1; return 1;
    case C_MAX: *cnt = SIZE_MAX; return 1;
    case C_MAX_M1: *cnt = SIZE_MAX - 1; return 1;
    case C_MAX_M2: *cnt = SIZE_MAX - 2; return 1;
    case C_MAXPOS: *cnt = SIZE_MAX - pos; return 1;
    case C_MAXPOS_P1: *cnt = SIZE_MAX - pos + 1; return 1;
    case C_MAXPOS_M1: *cnt = SIZE_MAX - pos - 1; return 1;
    case C_MAXSIZE: *cnt = SIZE_MAX - size; return 1;
    case C_MAXSIZE_P1: *cnt = SIZE_MAX - size + 1; return 1;
    case C_MAXSIZE_M1: *cnt = SIZE_MAX - size - 1; return 1;
    case C_2_62: *cnt = (size_t)1 << 62; return 1;
    case C_2_63: *cnt = (size_t)1 << 63; return 1;
    case C_OVERCAP: *cnt = VRT_ALLOC_CAP / w + 1; return 1;
    case C_OVERCAP_BIG: *cnt = VRT_ALLOC_CAP; return 1;
    case C_UNREP: *cnt = SIZE_MAX / w; return 1;
    case C_UNREP_P1: *cnt = SIZE_MAX / w + 1; return 1;
    case C_UNREP_M1: *cnt = SIZE_MAX / w - 1; return 1;
    case C_UNREP_M2: *cnt = SIZE_MAX / w - 2; return 1;
    case C_16: *cnt = 16; return 1;
    case C_40: *cnt = 40; return 1;
    }
    return 0;
}

/* position classes */
enum { PC_0, PC_IN, PC_LAST, PC_END, PC_END1, PC_BEYOND, PC_MAX, PC_N };
static const char *const pcname[PC_N] = { "pos=0", "pos-inside", "pos=size-1", "pos=size", "pos=size+1", "pos-beyond", "pos~SIZE_MAX" };
static int posclass(size_t pos, size_t size)
{
    if (pos > size) return pos - size == 1 ? PC_END1 : pos >= SIZE_MAX - 2 ? PC_MAX : PC_BEYOND;
    if (pos == size) return PC_END;
    if (pos == 0) return PC_0;
    if (pos == size - 1) return PC_LAST;
    return PC_IN;
}
/* count classes */
enum {
    CC_NONE, CC_ANY,
    CC_0, CC_IN, CC_TOEND, CC_PAST1, CC_PAST, CC_MAXPOS, CC_MAX,        /* erase / substr: relative to size - pos */
    CC_FITS, CC_OVERCAP, CC_UNREP, CC_WRAPS,                            /* growth: resulting length */
    CC_SHRINK, CC_SAME, CC_GROW,                                        /* resize / reserve */
    CC_PART, CC_ALL,                                                    /* *_str_n */
    CC_N
};
static const char *const ccname[CC_N] = {
    "", "n=any", "n=0", "n-inside", "n=to-end", "n=to-end+1", "n-past-end", "n~SIZE_MAX-pos", "n~SIZE_MAX",
    "len-fits", "len-over-cap", "len-unrepresentable", "len-wraps",
    "shrink", "same", "grow", "n-part", "n-all"
};
static int cntclass(size_t cnt, size_t avail, size_t pos)
{
    if (cnt == 0) return CC_0;
    if (cnt < avail) return CC_IN;
    if (cnt == avail) return CC_TOEND;
    if (cnt == avail + 1) return CC_PAST1;
    if (cnt >= SIZE_MAX - 2) return CC_MAX;
    if (cnt >= SIZE_MAX - pos - 1 && cnt - (SIZE_MAX - pos - 1) <= 2) return CC_MAXPOS;
    return CC_PAST;
}
static int growclass(size_t size, size_t n, int wrapped, size_t w)
{
    unsigned __int128 need;
    if (n == 0) return CC_0;
    if (wrapped || n > SIZE_MAX - size) return CC_WRAPS;
    need = ((unsigned __int128)(size + n) + 1) * w;
    if (size + n == SIZE_MAX || need > (unsigned __int128)SIZE_MAX) return CC_UNREP;
    if (need > (unsigned __int128)vrt_alloc_cap) return CC_OVERCAP;
    return CC_FITS;
}
enum { GR_OK, GR_ABORT, GR_EITHER };

/* object state classes */
enum { SC_NEVER, SC_EMPTY, SC_SHORT, SC_NUL, SC_SLACK, SC_RESERVED, SC_N };

/* raw (caller-supplied) strings; 'a','b','c' stand for the three alphabet characters */
#define NRAW 12
#define NVARIANTS 2         /* character alphabets, see string_body.h */
#define NRAW_SHORT 10
static const char *const rawtmpl[NRAW] = {
    "", "a", "b", "c", "ab", "bc", "ca", "abc", "abca", "cc",
    "abcabcaabbccabcabcbacbaa", "bcabcabcacbabcbbcaaacbbcabcabcacbabcbbca"
};
enum { RAW_EMPTY = 0, RAW_A, RAW_B, RAW_C, RAW_AB, RAW_BC, RAW_CA, RAW_ABC, RAW_ABCA, RAW_CC, RAW_LONG24, RAW_LONG40 };
/* long strings: *_str_n with aux == RAW_PATTERN reads from a PATLEN-character pattern buffer */
#define RAW_PATTERN NRAW
#define PATLEN ((size_t)140000)
#define PATSLACK ((size_t)64)

/* scope of the running generator */
static size_t g_maxlen = SIZE_MAX;      /* results longer than this are outside the scope */
static int g_allow_grow = 1;            /* resize may grow (embedded NULs) */
static size_t g_refcap = 64;
static const char *g_after = "init";    /* last executed entry point, for audit keys */
static unsigned g_flip;
static uint64_t g_ncalls[2], g_naborts[2];

/* evidence: calls by op x position class x count class; cells incl. width and state class as a signature set */
static void count_cell(int kind, int pc, int cc, int wide, int sc)
{
    static int ids[K_NKINDS][PC_N][CC_N], callid[K_NKINDS], init;
    char nm[64];
    int haspos = 0;
    if (!init) { memset(ids, 0xff, sizeof(ids)); memset(callid, 0xff, sizeof(callid)); init = 1; }
    if (callid[kind] < 0) { snprintf(nm, sizeof(nm), "call.%s", kname[kind]); callid[kind] = vrt_counter_id(nm); }
    vrt_ctr[callid[kind]]++;
    switch (kind) {
    case K_INSERT: case K_INSERT_STR: case K_INSERT_STR_N: case K_INSERT_CH: case K_ERASE: case K_SUBSTR:
    case K_FIND_CH: case K_FIND_STR: case K_FIND: case K_AT: case K_AT_CONST:
        haspos = 1;
    }
    if (kind == K_AT_CONST) kind = K_AT;
    if (!haspos) pc = 0;
    if (haspos && pc >= PC_END1 && cc != CC_NONE) cc = CC_ANY;
    if (haspos || cc != CC_NONE) {
        if (ids[kind][pc][cc] < 0) {
            if (haspos && cc != CC_NONE) snprintf(nm, sizeof(nm), "x.%s.%s.%s", kname[kind], pcname[pc], ccname[cc]);
            else if (haspos) snprintf(nm, sizeof(nm), "x.%s.%s", kname[kind], pcname[pc]);
            else snprintf(nm, sizeof(nm), "x.%s.%s", kname[kind], ccname[cc]);
            ids[kind][pc][cc] = vrt_counter_id(nm);
        }
        vrt_ctr[ids[kind][pc][cc]]++;
    }
    vrt_sig(1, vrt_mix(vrt_mix(kind * 64 + pc * 8 + wide, cc), sc + 1));
}
static void count_code(int code)
{
    static int ids[C_NCODES], init;
    if (!init) { memset(ids, 0xff, sizeof(ids)); init = 1; }
    if (code == C_AVAIL || code == C_AVAIL_P1 || code == C_AVAIL_M1 || code == C_16 || code == C_40) return;
    if (ids[code] < 0) {
        char nm[64];
        snprintf(nm, sizeof(nm), "arg.%s", ccodename[code]);
        ids[code] = vrt_counter_id(nm);
    }
    vrt_ctr[ids[code]]++;
}

static int sgn(long v) { return (v > 0) - (v < 0); }

#define WIDE 0
#include "string_body.h"
#undef WIDE
#define WIDE 1
#include "string_body.h"
#undef WIDE

/* ------------------------------------------------------------------ */
/* closure scopes                                                       */
/* ------------------------------------------------------------------ */
static const struct vex n_model = { n_create, n_destroy, n_apply, n_sig, n_nontrivial, 0, NULL };
static const struct vex w_model = { w_create, w_destroy, w_apply, w_sig, w_nontrivial, 0, NULL };

/* what: 0 = one object only (the other stays untouched), single-object ops
 *       1 = two objects, generating subset + the ops that involve both objects
 *       2 = two objects, everything */
struct cscope { int maxlen, nchars, grow, what, nslices; uint64_t max_states; int variant; };
static const struct cscope quick_scopes[] = {
    { 4, 3, 0, 0, 4, 100000 },      /* one object, lengths 0..4 over 3 characters */
    { 4, 2, 1, 0, 4, 100000 },      /* one object, 2 characters + NUL via resize */
    { 3, 3, 0, 1, 8, 100000 },      /* all pairs of strings of length 0..3 */
    { 3, 2, 1, 1, 8, 100000 },
    { 2, 3, 1, 2, 4, 100000 },      /* pairs of length 0..2 incl. NUL, every op */
    /* alphabet variant 1: top-bit bytes / WCHAR_MAX and a negative wchar_t */
    { 3, 3, 0, 0, 2, 100000, 1 },
    { 3, 2, 1, 0, 2, 100000, 1 },
    { 2, 3, 0, 2, 4, 100000, 1 },
};
static const struct cscope thorough_scopes[] = {
    { 5, 3, 0, 0, 8, 400000 },
    { 4, 3, 1, 0, 8, 400000 },
    { 4, 3, 0, 1, 8, 400000 },      /* all pairs of strings of length 0..4 */
    { 4, 2, 1, 1, 8, 400000 },
    { 3, 3, 0, 2, 16, 400000 },     /* pairs of length 0..3, every op in every state */
    { 3, 2, 1, 2, 16, 400000 },
    { 4, 3, 0, 0, 8, 400000, 1 },
    { 4, 2, 1, 0, 8, 400000, 1 },
    { 3, 3, 0, 1, 8, 400000, 1 },
    { 3, 2, 1, 2, 16, 400000, 1 },
};
static const struct cscope *scopes;
static int nscopes, nclosure;

/* generating subset: reaches every string (pair) of the scope, the fresh and the reserved-only flavour */
static int gen_alphabet(const struct cscope *s, uint32_t *al)
{
    int n = 0, d, c;
    /* kept small: it is repeated in every slice.  Appending one character reaches every string */
    for (d = 0; d < (s->what ? 2 : 1); d++) {
        for (c = 0; c < s->nchars; c++) al[n++] = OP(K_INSERT_CH, d, P_SIZE, 1, c);
        al[n++] = OP(K_CLEAR, d, 0, 0, 0);
        al[n++] = OP(K_RESIZE, d, 0, 0, 0);
        al[n++] = OP(K_RESERVE, d, 0, 2, 0);
        if (s->grow) al[n++] = OP(K_RESIZE, d, 0, C_AVAIL_P1, 0);
    }
    if (s->what) al[n++] = OP(K_SWAP, 0, 0, 0, 0);
    return n;
}
/* everything else; distributed over the slices */
static int full_alphabet(const struct cscope *s, uint32_t *al)
{
    static const int poscodes[] = { 0, 1, 2, 3, 4, 5, 6, P_SIZE_P1, P_MAX, P_MAX_M1, P_2_63 };
    static const int cntcodes[] = { 0, 1, 2, 3, 4, 5, 6, C_MAX, C_MAX_M1, C_MAXPOS, C_MAXPOS_P1, C_MAXPOS_M1, C_2_63 };
    static const int paircnt[] = { 0, 1, 2, 5, C_MAX, C_MAXPOS, C_MAXPOS_P1 };
    static const int growcodes[] = { 0, 1, 2, C_MAX, C_MAX_M1, C_MAXSIZE, C_MAXSIZE_P1, C_MAXSIZE_M1, C_2_62, C_2_63,
                                     C_OVERCAP, C_UNREP, C_UNREP_P1, C_UNREP_M1, C_UNREP_M2 };
    static const int lencodes[] = { 0, 1, 2, 3, 4, 5, 6, C_MAX, C_MAX_M1, C_2_62, C_2_63, C_OVERCAP, C_OVERCAP_BIG,
                                    C_UNREP, C_UNREP_P1, C_UNREP_M1, C_UNREP_M2 };
    static const int raws[] = { RAW_EMPTY, RAW_A, RAW_BC, RAW_ABC, RAW_CC };
    static const int ndls[] = { RAW_EMPTY, RAW_A, RAW_B, RAW_AB, RAW_BC, RAW_ABCA };
    const int npos = sizeof(poscodes) / sizeof(int), ncnt = sizeof(cntcodes) / sizeof(int), npc = sizeof(paircnt) / sizeof(int);
    const int ngrow = sizeof(growcodes) / sizeof(int), nlen = sizeof(lencodes) / sizeof(int);
    const int single = s->what != 1, pair = s->what != 0;
    int n = 0, d, i, j, c;
    for (d = 0; d < (s->what ? 2 : 1); d++) {
        for (i = 0; i < npos; i++) {
            const int p = poscodes[i];
            if (p < 8 && p > s->maxlen + 2) continue;
            if (pair) {
                al[n++] = OP(K_INSERT, d, p, 0, 0);
                al[n++] = OP(K_FIND, d, p, 0, 0);
                if (s->what == 1) for (j = 0; j < npc; j++) al[n++] = OP(K_SUBSTR, d, p, paircnt[j], 0);
                else for (j = 0; j < ncnt; j++) al[n++] = OP(K_SUBSTR, d, p, cntcodes[j], 0);
            }
            if (!single) continue;
            for (j = 0; j < ngrow; j++) {
                if (p != 0 && p != P_SIZE_P1 && p != P_MAX && p != 2 && j >= 3) continue;
                for (c = 0; c < s->nchars; c++) {
                    if (j >= 3 && c > 0) continue;
                    al[n++] = OP(K_INSERT_CH, d, p, growcodes[j], c);
                }
            }
            for (j = 0; j < 5; j++) {
                if ((raws[j] == RAW_CC || raws[j] == RAW_ABC) && s->nchars < 3) continue;
                al[n++] = OP(K_INSERT_STR, d, p, 0, raws[j] == RAW_BC && s->nchars < 3 ? RAW_AB : raws[j]);
            }
            for (j = 0; j <= 2; j++) al[n++] = OP(K_INSERT_STR_N, d, p, j, s->nchars < 3 ? RAW_AB : RAW_ABC);
            for (j = 0; j < ncnt; j++) al[n++] = OP(K_ERASE, d, p, cntcodes[j], 0);
            for (c = 0; c < 4; c++) if (c == 3 || c < s->nchars) al[n++] = OP(K_FIND_CH, d, p, 0, c);
            for (j = 0; j < 6; j++) al[n++] = OP(K_FIND_STR, d, p, 0, ndls[j]);
            al[n++] = OP(i & 1 ? K_AT : K_AT_CONST, d, p, 0, 0);
        }
        if (pair) {
            al[n++] = OP(K_APPEND, d, 0, 0, 0);
            al[n++] = OP(K_COMPARE, d, 0, 0, 0);
        }
        if (!single) continue;
        for (j = 0; j < 5; j++) {
            if ((raws[j] == RAW_CC || raws[j] == RAW_ABC) && s->nchars < 3) continue;
            al[n++] = OP(K_SET_STR, d, 0, 0, raws[j] == RAW_BC && s->nchars < 3 ? RAW_AB : raws[j]);
            al[n++] = OP(K_APPEND_STR, d, 0, 0, raws[j] == RAW_BC && s->nchars < 3 ? RAW_AB : raws[j]);
        }
        for (j = 0; j <= 2; j++) al[n++] = OP(K_APPEND_STR_N, d, 0, j, s->nchars < 3 ? RAW_AB : RAW_ABC);
        for (j = 0; j < ngrow; j++)
            for (c = 0; c < s->nchars; c++) {
                if (j >= 3 && c > 0) continue;
                al[n++] = OP(K_APPEND_CH, d, 0, growcodes[j], c);
            }
        for (j = 0; j < nlen; j++) {
            if (lencodes[j] != 0) al[n++] = OP(K_RESIZE, d, 0, lencodes[j], 0);
            al[n++] = OP(K_RESERVE, d, 0, lencodes[j], 0);
        }
        al[n++] = OP(K_RESERVE, d, 0, C_40, 0);
        for (j = 0; j < 6; j++) al[n++] = OP(K_COMPARE_STR, d, 0, 0, ndls[j]);
    }
    return n;
}

static void run_closure(int ci)
{
    const int wide = ci & 1;
    int si = ci >> 1, k, slice, n = 0, nfull, i;
    const struct cscope *s;
    static uint32_t al[4096], full[4096];
    struct vex_result r;

    for (k = 0; k < nscopes && si >= scopes[k].nslices; k++) si -= scopes[k].nslices;
    s = &scopes[k]; slice = si;
    g_maxlen = (size_t)s->maxlen; g_allow_grow = s->grow; g_refcap = 16;
    n_set_variant(s->variant); w_set_variant(s->variant);
    n = gen_alphabet(s, al);
    nfull = full_alphabet(s, full);
    for (i = slice; i < nfull; i += s->nslices) al[n++] = full[i];
    vrt_case_note("closure %s %s charset=%d maxlen=%d chars=%d%s slice=%d/%d alphabet=%d (of %d)", wide ? "wide" : "narrow",
                  s->what == 0 ? "one object" : s->what == 1 ? "pairs, two-object ops" : "pairs, all ops",
                  s->variant, s->maxlen, s->nchars, s->grow ? "+NUL" : "", slice, s->nslices, n, nfull);
    vex_closure(wide ? &w_model : &n_model, 0x100 * (s->maxlen * 16 + s->nchars * 2 + s->grow) + s->variant * 2 + wide, al, n, s->max_states, 60, &r);
    if (vrt_verbose) vrt_log("closure: states %llu transitions %llu replayed %llu depth %llu closed %d\n", (unsigned long long)r.states,
                             (unsigned long long)r.transitions, (unsigned long long)r.applied, (unsigned long long)r.maxdepth, r.closed);
    VRT_COUNT_N("closure.states", r.states);
    VRT_COUNT_N("closure.transitions", r.transitions);
    VRT_COUNT_N("closure.replayed-ops", r.applied);
    VRT_MAX("max.closure.depth", r.maxdepth);
    VRT_MAX("max.closure.states-per-scope", r.states);
    if (r.closed) VRT_COUNT("closure.scopes-closed"); else VRT_COUNT("closure.scopes-capped");
    if (wide) VRT_COUNT("closure.wide"); else VRT_COUNT("closure.narrow");
    if (s->variant) VRT_COUNT("closure.charset-extremes");
    g_maxlen = SIZE_MAX; g_allow_grow = 1;
}

/* ------------------------------------------------------------------ */
/* matrix: every op x position code x count code x state class          */
/* ------------------------------------------------------------------ */
#define NCAPMODES 2
static int nmatrix;
static void run_matrix(int mi)
{
    const int wide = mi & 1, lowcap = (mi >> 1) % NCAPMODES;
    const int sc = (mi / (2 * NCAPMODES)) % SC_N, kind = 1 + (mi / (2 * NCAPMODES * SC_N)) % (K_NKINDS - 1);
    const int variant = mi / (2 * NCAPMODES * SC_N * (K_NKINDS - 1));
    int p, c, a, osc, made;
    uint64_t cells = 0;
    int (*apply)(uint32_t, int) = wide ? w_apply : n_apply;

    g_maxlen = SIZE_MAX; g_allow_grow = 1; g_refcap = 200;
    n_set_variant(variant); w_set_variant(variant);
    vrt_case_note("matrix %s charset=%d op=%s class=%d cap=%s", wide ? "wide" : "narrow", variant, kname[kind], sc, lowcap ? "lowered" : "standard");
    for (p = 0; p < P_NCODES; p++) for (c = 0; c < C_NCODES; c++) for (a = 0; a < 12; a++) for (osc = 0; osc < 3; osc++) {
        int haspos = 0, hascnt = 0, naux = 1, useso = 0;
        switch (kind) {
        case K_INSERT_CH: haspos = hascnt = 1; naux = 3; break;
        case K_INSERT_STR_N: haspos = hascnt = 1; naux = NRAW; break;
        case K_INSERT_STR: haspos = 1; naux = NRAW; break;
        case K_INSERT: haspos = 1; useso = 1; break;
        case K_ERASE: haspos = hascnt = 1; break;
        case K_SUBSTR: haspos = hascnt = 1; useso = 1; break;
        case K_FIND_CH: haspos = 1; naux = 4; break;
        case K_FIND_STR: haspos = 1; naux = NRAW; break;
        case K_FIND: haspos = 1; useso = 1; break;
        case K_AT: case K_AT_CONST: haspos = 1; break;
        case K_APPEND_CH: hascnt = 1; naux = 3; break;
        case K_APPEND_STR_N: hascnt = 1; naux = NRAW; break;
        case K_RESIZE: case K_RESERVE: hascnt = 1; break;
        case K_SET_STR: case K_APPEND_STR: case K_COMPARE_STR: naux = NRAW; break;
        case K_APPEND: case K_COMPARE: case K_SWAP: useso = 1; break;
        }
        if ((!haspos && p > 0) || (!hascnt && c > 0) || a >= naux || (!useso && osc > 0)) continue;
        if ((kind == K_INSERT_STR_N || kind == K_APPEND_STR_N) && c >= 8 && c != C_16 && c != C_40) continue;
        vrt_trace_reset();
        vrt_alloc_cap = VRT_ALLOC_CAP;
        if (wide) w_create(0); else n_create(0);
        if (wide) { w_make_class(0, sc); w_make_class(1, osc == 0 ? SC_SHORT : osc == 1 ? SC_NEVER : SC_NUL); }
        else { n_make_class(0, sc); n_make_class(1, osc == 0 ? SC_SHORT : osc == 1 ? SC_NEVER : SC_NUL); }
        /* lowered cap: room for about 12 characters; longer results cannot be satisfied */
        if (lowcap) vrt_alloc_cap = 14 * (wide ? sizeof(wchar_t) : 1);
        made = apply(OP(kind, 0, p, c, a), 1);
        vrt_alloc_cap = VRT_ALLOC_CAP;
        if (made) {
            cells++;
            vrt_sig(0, vrt_mix(vrt_mix(0x3a7 + mi, p * 64 + c), a * 4 + osc));
            /* the objects stay usable after whatever happened (incl. expected aborts) */
            apply(OP(K_APPEND_CH, 0, 0, 1, 1), 1);
            apply(OP(K_INSERT, 1, 0, 0, 0), 1);
            if (wide) { w_queries(0); w_queries(1); } else { n_queries(0); n_queries(1); }
        }
        if (wide) w_destroy(); else n_destroy();
    }
    VRT_COUNT_N("matrix.cells", cells);
    if (lowcap) VRT_COUNT_N("matrix.cells.lowered-cap", cells);
    if (wide) VRT_COUNT("matrix.cases.wide"); else VRT_COUNT("matrix.cases.narrow");
    if (variant) VRT_COUNT_N("matrix.cells.charset-extremes", cells);
}

/* ------------------------------------------------------------------ */
/* random histories                                                     */
/* ------------------------------------------------------------------ */
static size_t rnd_pos(vrt_rng *g, size_t size)
{
    switch (vrt_below(g, 16)) {
    case 0: return 0;
    case 1: return size;
    case 2: return size ? size - 1 : 0;
    case 3: return size + 1;
    case 4: return SIZE_MAX - vrt_below(g, 3);
    case 5: return size + 2 + vrt_below(g, 100);
    case 6: return (size_t)vrt_next(g);
    default: return size ? vrt_below(g, (uint32_t)size) : 0;
    }
}
static size_t rnd_cnt(vrt_rng *g, size_t pos, size_t size)
{
    const size_t avail = pos <= size ? size - pos : 0;
    switch (vrt_below(g, 16)) {
    case 0: return 0;
    case 1: return avail;
    case 2: return avail + 1;
    case 3: return SIZE_MAX - vrt_below(g, 3);
    case 4: return SIZE_MAX - pos - 1 + vrt_below(g, 3);
    case 5: return (size_t)vrt_next(g);
    case 6: return avail + 2 + vrt_below(g, 50);
    case 7: return (size_t)1 << (62 + vrt_below(g, 2));
    default: return avail ? 1 + vrt_below(g, (uint32_t)avail) : 1;
    }
}
static size_t rnd_len(vrt_rng *g, size_t size, size_t w, size_t softmax)
{
    switch (vrt_below(g, 20)) {
    case 0: return SIZE_MAX - vrt_below(g, 2);
    case 1: return SIZE_MAX / w - 2 + vrt_below(g, 4);
    case 2: return (size_t)1 << (62 + vrt_below(g, 2));
    case 3: return VRT_ALLOC_CAP / w + vrt_below(g, 100);
    case 4: return SIZE_MAX - size - 1 + vrt_below(g, 3);
    case 5: return (size_t)vrt_next(g) | (size_t)1 << 40;
    case 6: return size;
    case 7: return size + 1;
    case 8: return size ? size - 1 : 0;
    case 9: return 0;
    default: return vrt_below(g, (uint32_t)softmax + 1);
    }
}

static void run_random(uint64_t idx)
{
    vrt_rng g;
    const int wide = (int)(idx & 1);
    const size_t w = wide ? sizeof(wchar_t) : 1;
    int (*do_op)(int, int, size_t, size_t, int, int) = wide ? w_do_op : n_do_op;
    int nops, i, lowcap_left = 0, nchars;
    size_t softmax;

    vrt_rng_seed(&g, vrt_seed, 0xC10000 + idx);
    softmax = ((idx >> 1) % 8 == 7) ? 300 + vrt_below(&g, 400) : 4 + vrt_below(&g, 28);
    nchars = 1 + vrt_below(&g, 3);
    nops = vrt_thorough ? 1500 : 1000;
    g_maxlen = SIZE_MAX; g_allow_grow = 1; g_refcap = 2 * softmax + 64;
    n_set_variant((int)((idx >> 4) & 1)); w_set_variant((int)((idx >> 4) & 1));
    vrt_case_note("random %s charset=%d softmax=%zu chars=%d ops=%d", wide ? "wide" : "narrow", (int)((idx >> 4) & 1), softmax, nchars, nops);
    if (wide) w_create(0); else n_create(0);
    for (i = 0; i < nops; i++) {
        const int d = vrt_below(&g, 2), r = vrt_below(&g, 100);
        const size_t size = wide ? w_R[d].n : n_R[d].n, osize = wide ? w_R[1 - d].n : n_R[1 - d].n;
        size_t pos = rnd_pos(&g, size), cnt;
        const int ch = vrt_below(&g, nchars), raw = vrt_below(&g, NRAW);
        const int full = size >= softmax;

        if (lowcap_left > 0 && --lowcap_left == 0) vrt_alloc_cap = VRT_ALLOC_CAP;
        else if (lowcap_left == 0 && vrt_chance(&g, 1, 150)) {
            /* episode with a small allocator: growth beyond it cannot be satisfied */
            lowcap_left = 8 + vrt_below(&g, 24);
            vrt_alloc_cap = (size + 2 + vrt_below(&g, 12)) * w;
            VRT_COUNT("random.lowered-cap-episodes");
        }
        if (r < 10) {
            cnt = vrt_chance(&g, 1, 4) ? rnd_len(&g, size, w, 4) : full ? 0 : vrt_below(&g, 4);
            do_op(K_INSERT_CH, d, pos, cnt, ch, 1);
        } else if (r < 16) {
            do_op(full ? K_ERASE : K_INSERT_STR, d, pos, 2, raw, 1);
        } else if (r < 22) {
            cnt = vrt_below(&g, 1 + (uint32_t)(wide ? w_rawlen[raw] : n_rawlen[raw]));
            do_op(full ? K_ERASE : K_INSERT_STR_N, d, pos, cnt, raw, 1);
        } else if (r < 27) {
            do_op(size + osize > 2 * softmax ? K_ERASE : K_INSERT, d, pos, osize, 0, 1);
        } else if (r < 30) {
            do_op(size + osize > 2 * softmax ? K_CLEAR : K_APPEND, d, 0, 0, 0, 1);
        } else if (r < 34) {
            cnt = vrt_chance(&g, 1, 4) ? rnd_len(&g, size, w, 4) : full ? 0 : vrt_below(&g, 4);
            do_op(K_APPEND_CH, d, 0, cnt, ch, 1);
        } else if (r < 37) {
            do_op(full ? K_SET_STR : K_APPEND_STR, d, 0, 0, raw, 1);
        } else if (r < 40) {
            cnt = vrt_below(&g, 1 + (uint32_t)(wide ? w_rawlen[raw] : n_rawlen[raw]));
            do_op(full ? K_SET_STR : K_APPEND_STR_N, d, 0, cnt, raw, 1);
        } else if (r < 44) {
            do_op(K_SET_STR, d, 0, 0, raw, 1);
        } else if (r < 60) {
            cnt = rnd_cnt(&g, pos, size);
            do_op(K_ERASE, d, pos, cnt, 0, 1);
        } else if (r < 70) {
            cnt = rnd_cnt(&g, pos, size);
            do_op(K_SUBSTR, d, pos, cnt, 0, 1);
        } else if (r < 77) {
            do_op(K_RESIZE, d, 0, rnd_len(&g, size, w, softmax), 0, 1);
        } else if (r < 82) {
            do_op(K_RESERVE, d, 0, rnd_len(&g, size, w, 2 * softmax), 0, 1);
        } else if (r < 85) {
            do_op(K_SWAP, 0, 0, 0, 0, 1);
        } else if (r < 87) {
            do_op(K_CLEAR, d, 0, 0, 0, 1);
        } else if (r < 89) {
            do_op(vrt_chance(&g, 1, 2) ? K_AT : K_AT_CONST, d, pos, 0, 0, 0);
        } else if (r < 92) {
            do_op(K_FIND_CH, d, pos, 0, vrt_below(&g, 4), 0);
        } else if (r < 95) {
            do_op(K_FIND_STR, d, pos, 0, raw, 0);
        } else if (r < 97) {
            do_op(K_FIND, d, pos, 0, 0, 0);
        } else if (r < 98) {
            do_op(K_COMPARE, d, 0, 0, 0, 0);
        } else {
            do_op(K_COMPARE_STR, d, 0, 0, raw, 0);
        }
        if (i % 16 == 15) { if (wide) w_queries(d); else n_queries(d); }
        if (i % 32 == 31) vrt_sig(2, wide ? w_sig() : n_sig());
    }
    vrt_alloc_cap = VRT_ALLOC_CAP;
    if (wide) { w_audit_all(3); w_queries(0); w_queries(1); } else { n_audit_all(3); n_queries(0); n_queries(1); }
    vrt_sig(0, vrt_mix(wide ? w_sig() : n_sig(), idx));
    if (wide) w_destroy(); else n_destroy();
    VRT_COUNT("random.histories");
    if ((idx >> 4) & 1) VRT_COUNT("random.histories.charset-extremes");
    if (wide) VRT_COUNT("random.histories.wide"); else VRT_COUNT("random.histories.narrow");
}

/* ------------------------------------------------------------------ */
/* long strings x overflow argument classes (cells in string_body.h)    */
/* ------------------------------------------------------------------ */
static const size_t longlens[] = { 4095, 4096, 4097, 5000, 65535, 65536, 70000, 140000 };
#define NLONGLEN ((int)(sizeof(longlens) / sizeof(longlens[0])))
#define NLONG (NLONGLEN * 4)
static void run_long(int li)
{
    /* the most expensive lengths first */
    const int wide = li & 1, spare = (li >> 1) & 1, k = NLONGLEN - 1 - (li >> 2);
    const size_t L = longlens[k];
    const int variant = (int)((vrt_seed + (unsigned)k + (unsigned)spare) & 1u);
    char nm[64];

    g_maxlen = SIZE_MAX; g_allow_grow = 1; g_refcap = L + PATLEN + 64;
    n_set_variant(variant); w_set_variant(variant);
    vrt_case_note("long %s charset=%d length=%zu capacity=%s", wide ? "wide" : "narrow", variant, L, spare ? "spare" : "size");
    if (wide) w_run_long(L, spare ? 64 : 0); else n_run_long(L, spare ? 64 : 0);
    snprintf(nm, sizeof(nm), "long.length.%zu", L);
    vrt_count_dyn(nm, 1);
    if (wide) VRT_COUNT("long.cases.wide"); else VRT_COUNT("long.cases.narrow");
    if (spare) VRT_COUNT("long.cases.spare-capacity"); else VRT_COUNT("long.cases.built-to-size");
}

/* ------------------------------------------------------------------ */
#include <time.h>
static double cpu_now(void)
{
    struct timespec t;
    clock_gettime(CLOCK_PROCESS_CPUTIME_ID, &t);
    return (double)t.tv_sec + (double)t.tv_nsec * 1e-9;
}
static uint64_t nrandom(void) { return vrt_thorough ? 40000 : 10000; }
static uint64_t ncases(void)
{
    int k;
    if (vrt_thorough) { scopes = thorough_scopes; nscopes = sizeof(thorough_scopes) / sizeof(scopes[0]); }
    else { scopes = quick_scopes; nscopes = sizeof(quick_scopes) / sizeof(scopes[0]); }
    nclosure = 0;
    for (k = 0; k < nscopes; k++) nclosure += 2 * scopes[k].nslices;
    nmatrix = 2 * NCAPMODES * SC_N * (K_NKINDS - 1) * NVARIANTS;
    return (uint64_t)nclosure + nmatrix + nrandom() + NLONG;
}
static void run_case(uint64_t idx)
{
    const uint64_t c0[2] = { g_ncalls[0], g_ncalls[1] }, a0[2] = { g_naborts[0], g_naborts[1] };
    const double t0 = cpu_now();
    vrt_alloc_cap = VRT_ALLOC_CAP;
    if (idx < (uint64_t)nclosure) { run_closure((int)idx); VRT_COUNT_N("cpu-ms.closure", (cpu_now() - t0) * 1e3); }
    else if (idx < (uint64_t)(nclosure + nmatrix)) { run_matrix((int)(idx - nclosure)); VRT_COUNT_N("cpu-ms.matrix", (cpu_now() - t0) * 1e3); }
    else if (idx < (uint64_t)(nclosure + nmatrix) + nrandom()) { run_random(idx - nclosure - nmatrix); VRT_COUNT_N("cpu-us.random", (cpu_now() - t0) * 1e6); }
    else { run_long((int)(idx - nclosure - nmatrix - nrandom())); VRT_COUNT_N("cpu-ms.long", (cpu_now() - t0) * 1e3); }
    VRT_COUNT_N("calls.narrow", g_ncalls[0] - c0[0]);
    VRT_COUNT_N("calls.wide", g_ncalls[1] - c0[1]);
    VRT_COUNT_N("aborts.observed.narrow", g_naborts[0] - a0[0]);
    VRT_COUNT_N("aborts.observed.wide", g_naborts[1] - a0[1]);
}
static void winit(void)
{
    vrt_sig_name(0, "string-states-and-inputs");
    vrt_sig_name(1, "op-x-posclass-x-countclass-x-stateclass-x-width-cells");
    vrt_sig_name(2, "string-pair-contents-in-random-histories");
    n_init_raws();
    w_init_raws();
    (void)ncases();
}

static const char *const required[] = {
    "call.set_str", "call.insert", "call.insert_str", "call.insert_str_n", "call.insert_ch",
    "call.append", "call.append_ch", "call.append_str", "call.append_str_n",
    "call.erase", "call.substr", "call.resize", "call.reserve", "call.swap", "call.clear",
    "call.at", "call.at_const", "call.find_ch", "call.find_str", "call.find", "call.compare", "call.compare_str",
    "call.size", "call.str", "call.data", "call.capacity",
    "calls.narrow", "calls.wide", "aborts.observed.narrow", "aborts.observed.wide",
    "abort.required.pos-beyond-end", "abort.required.at-index", "abort.required.growth-over-cap",
    "abort.required.growth-unrepresentable", "abort.required.growth-over-lowered-cap",
    "count.clamped.erase", "count.clamped.substr",
    "x.erase.pos-inside.n~SIZE_MAX", "x.erase.pos-inside.n~SIZE_MAX-pos", "x.substr.pos-inside.n~SIZE_MAX",
    "x.substr.pos-inside.n~SIZE_MAX-pos", "x.insert_ch.pos=size.len-fits", "x.insert_ch.pos=size+1.n=any",
    "x.insert_ch.pos-inside.len-wraps", "x.resize.len-unrepresentable", "x.resize.len-over-cap",
    "arg.SIZE_MAX", "arg.SIZE_MAX-1", "arg.2^62", "arg.2^63", "arg.SIZE_MAX/w+1", "arg.SIZE_MAX/w-1", "arg.cap/w+1",
    "reserve.unsatisfiable.quiet-no-op", "reserve.on-never-allocated", "resize.grew.embedded-nul",
    "audit.object.embedded-nul", "audit.never-allocated", "insert.zero-length.never-allocated",
    "find_ch.nul.libc-points-at-terminator", "audit.query-sweeps",
    "compare.first-chars-differ-in-sign", "find_ch.negative-char.found", "find_str.needle-with-negative-char.found",
    "closure.charset-extremes", "matrix.cells.charset-extremes", "random.histories.charset-extremes",
    "closure.states", "matrix.cells", "random.histories.narrow", "random.histories.wide",
    "long.cases.narrow", "long.cases.wide", "long.cases.spare-capacity", "long.cases.built-to-size", "long.strings.spare-capacity",
    "long.length.4095", "long.length.4096", "long.length.4097", "long.length.5000", "long.length.65535", "long.length.65536",
    "long.length.70000", "long.length.140000", "long.cells", "long.audit.object.size>=65535",
    "long.abort.object-unchanged", "long.abort.pos-beyond-end", "long.abort.growth-over-lowered-cap",
    "long.abort.growth-unrepresentable-or-over-cap", "long.abort.no-undersized-request",
    "long.erase-most", "long.erase-most.then-shrink", NULL
};
static const struct vrt_harness H = { "string", ncases, run_case, winit, NULL, required, 16 };

/*
 * Local workaround (the runtime is not ours to edit): with
 * detect_stack_use_after_return=1 every longjmp out of an expected abort makes
 * ASan garbage-collect its fake stack, ~30 us per abort with the default fake
 * stack size (measured), and this harness provokes two aborts per audit.  A
 * smaller fake stack (same checks, 2^16 bytes per size class) brings that to
 * ~3 us.  ASan reads ASAN_OPTIONS only at start-up, hence the re-exec; all other
 * options stay those of __asan_default_options in rt/vrt.c.
 */
#include <stdlib.h>
#include <unistd.h>
int main(int argc, char **argv)
{
    if (getenv("C10_HARNESS_REEXEC") == NULL && getenv("ASAN_OPTIONS") == NULL) {
        setenv("C10_HARNESS_REEXEC", "1", 1);
        setenv("ASAN_OPTIONS", "max_uar_stack_size_log=16", 1);
        execv("/proc/self/exe", argv);
    }
    return vrt_main(argc, argv, &H);
}
