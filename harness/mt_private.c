/*
 * Thread-compatibility of independent objects (supplement to C01 C02 C03 C07
 * C08 C09 C10 C12 C13 C14): several threads each drive containers that are
 * PRIVATE to them, with no synchronisation between the threads.  Operations on
 * independent objects must be independent: hidden shared state inside the
 * library (a static scratch node, a cached pointer, a shared sentinel) is a
 * data race under ThreadSanitizer and typically also breaks the per-thread
 * reference checks below.  Built with -fsanitize=thread (config "tsan").
 *
 * mode selects the container family: trees, map, heap, slist, dlist, hash,
 * vector, string, array.  A failing harness thread records the violation,
 * raises a flag and parks; the worker's main thread leaves the case.
 */
#include "vrt.h"
#include "cstl/rbtree.h"
#include "cstl/map.h"
#include "cstl/heap.h"
#include "cstl/slist.h"
#include "cstl/dlist.h"
#include "cstl/hash.h"
#include "cstl/vector.h"
#include "cstl/string.h"
#include "cstl/array.h"
#include <pthread.h>
#include <stdatomic.h>
#include <string.h>
#include <stdio.h>
#include <unistd.h>

void vrt_set_mt(int on);
/* the tsan configuration compiles the library against the shadow headers */
void vsched_point(int kind, const volatile void *addr) { (void)kind; (void)addr; }
int vsched_yield(void) { return sched_yield(); }

#define NT 4
#define NE 48
struct el {
    int key, in;
    struct cstl_bintree_node bn;
    struct cstl_rbtree_node rn;
    struct cstl_heap_node hn;
    struct cstl_slist_node sn;
    struct cstl_dlist_node dn;
    struct cstl_hash_node xn;
};
struct wctx { int idx; vrt_rng g; pthread_t tid; struct el e[NE]; uint64_t ops; char pad[64]; };
static struct wctx W[NT];
static atomic_int failed;
static pthread_mutex_t mu = PTHREAD_MUTEX_INITIALIZER;
static __thread struct wctx *me;
static const char *family;
static int nops;

static void tfail(const char *key, const char *fmt, ...) __attribute__((format(printf, 2, 3)));
static void tfail(const char *key, const char *fmt, ...)
{
    char msg[300];
    va_list ap;
    va_start(ap, fmt);
    vsnprintf(msg, sizeof(msg), fmt, ap);
    va_end(ap);
    pthread_mutex_lock(&mu);
    vrt_report(key, "%s", msg);
    pthread_mutex_unlock(&mu);
    atomic_store(&failed, 1);
    for (;;) pause();
}
static void fail_hook(void) { if (me != NULL) { atomic_store(&failed, 1); for (;;) pause(); } }
#define TCHECK(c, key, ...) do { if (!(c)) tfail(key, __VA_ARGS__); } while (0)

static int cmp_el(const void *a, const void *b, void *p)
{
    const struct el *x = a, *y = b;
    TCHECK(p == (void *)me, "mtp.cmp.priv", "comparison received another thread's priv");
    return (x->key > y->key) - (x->key < y->key);
}
static int cmp_int(const void *a, const void *b, void *p) { (void)p; return *(const int *)a - *(const int *)b; }
static void drop_el(void *e, void *p) { (void)p; ((struct el *)e)->in = 0; }

static void reset_elems(struct wctx *w) { int i; for (i = 0; i < NE; i++) { memset(&w->e[i], 0, sizeof(w->e[i])); w->e[i].key = i % 12; } }

static void work_trees(struct wctx *w)
{
    struct cstl_rbtree rt;
    struct cstl_bintree bt;
    int i, n = 0, nb = 0;
    static __thread struct el eb[NE];
    cstl_rbtree_init(&rt, cmp_el, w, offsetof(struct el, rn));
    cstl_bintree_init(&bt, cmp_el, w, offsetof(struct el, bn));
    reset_elems(w);
    for (i = 0; i < NE; i++) { eb[i].key = i % 12; eb[i].in = 0; }
    for (i = 0; i < nops; i++) {
        const int k = vrt_below(&w->g, NE);
        struct el *x = &w->e[k], *y = &eb[k];
        if (!x->in) { cstl_rbtree_insert(&rt, x, NULL); x->in = 1; n++; }
        else {
            struct el *r = cstl_rbtree_erase(&rt, x);
            TCHECK(r != NULL && r->key == x->key && r->in, "mtp.rbtree.erase", "erase of a held key failed or returned a non-member");
            r->in = 0; n--;
        }
        if (!y->in) { cstl_bintree_insert(&bt, y, NULL); y->in = 1; nb++; }
        else {
            struct el *r = cstl_bintree_erase(&bt, y);
            TCHECK(r != NULL && r->key == y->key && r->in, "mtp.bintree.erase", "erase of a held key failed or returned a non-member");
            r->in = 0; nb--;
        }
        TCHECK(cstl_rbtree_size(&rt) == (size_t)n && cstl_bintree_size(&bt) == (size_t)nb, "mtp.tree.size", "tree size differs from the thread's own count");
        if ((i & 15) == 0) {
            size_t mn, mx;
            cstl_rbtree_height(&rt, &mn, &mx);
            TCHECK(mx <= 16, "mtp.rbtree.height", "height %zu with %d private elements", mx, n);
        }
    }
    cstl_rbtree_clear(&rt, drop_el, NULL);
    cstl_bintree_clear(&bt, drop_el, NULL);
    w->ops += 2 * (uint64_t)nops;
}

static void work_map(struct wctx *w)
{
    cstl_map_t m;
    static __thread int keys[NE], held[NE];
    int i, n = 0;
    cstl_map_init(&m, cmp_int, NULL);
    for (i = 0; i < NE; i++) { keys[i] = i; held[i] = 0; }
    for (i = 0; i < nops; i++) {
        const int k = vrt_below(&w->g, NE);
        cstl_map_iterator_t it;
        if (vrt_below(&w->g, 3)) {
            const int r = cstl_map_insert(&m, &keys[k], &held[k], &it);
            TCHECK(r == (held[k] ? 1 : 0) && it.key == &keys[k], "mtp.map.insert", "insert returned %d for a %s key", r, held[k] ? "held" : "new");
            if (!held[k]) { held[k] = 1; n++; }
        } else {
            const int r = cstl_map_erase(&m, &keys[k], NULL);
            TCHECK(r == (held[k] ? 0 : -1), "mtp.map.erase", "erase returned %d for a %s key", r, held[k] ? "held" : "missing");
            if (held[k]) { held[k] = 0; n--; }
        }
        cstl_map_find(&m, &keys[(k * 7) % NE], &it);
        TCHECK((it.key != NULL) == (held[(k * 7) % NE] != 0), "mtp.map.find", "find disagrees with the thread's own model");
        TCHECK(cstl_map_size(&m) == (size_t)n, "mtp.map.size", "map size differs from the thread's own count");
    }
    cstl_map_clear(&m, NULL, NULL);
    w->ops += 2 * (uint64_t)nops;
}

static void work_heap(struct wctx *w)
{
    struct cstl_heap h;
    int i, n = 0, cnt[12] = { 0 };
    cstl_heap_init(&h, cmp_el, w, offsetof(struct el, hn));
    reset_elems(w);
    for (i = 0; i < nops; i++) {
        const int k = vrt_below(&w->g, NE);
        struct el *x = &w->e[k];
        if (!x->in && vrt_below(&w->g, 5) < 3) { cstl_heap_push(&h, x); x->in = 1; n++; cnt[x->key]++; }
        else if (n > 0) {
            struct el *r = cstl_heap_pop(&h);
            int mx = 11;
            while (mx > 0 && cnt[mx] == 0) mx--;
            TCHECK(r != NULL && r->in && r->key == mx, "mtp.heap.pop", "pop did not yield a held maximum");
            r->in = 0; n--; cnt[r->key]--;
        }
        TCHECK(cstl_heap_size(&h) == (size_t)n, "mtp.heap.size", "heap size differs from the thread's own count");
    }
    cstl_heap_clear(&h, drop_el);
    w->ops += nops;
}

static void work_lists(struct wctx *w, int dl)
{
    struct cstl_slist sl;
    struct cstl_dlist dlst;
    int i, n = 0, head = 0, tail = 0;       /* elements are used as a ring: in == 1 between head and tail */
    cstl_slist_init(&sl, offsetof(struct el, sn));
    cstl_dlist_init(&dlst, offsetof(struct el, dn));
    reset_elems(w);
    for (i = 0; i < nops; i++) {
        if (n < NE && vrt_below(&w->g, 5) < 3) {
            struct el *x = &w->e[tail]; tail = (tail + 1) % NE;
            x->key = vrt_below(&w->g, 12);
            if (dl) cstl_dlist_push_back(&dlst, x); else cstl_slist_push_back(&sl, x);
            n++;
        } else if (n > 0) {
            struct el *r = dl ? cstl_dlist_pop_front(&dlst) : cstl_slist_pop_front(&sl);
            TCHECK(r == &w->e[head], dl ? "mtp.dlist.pop_front" : "mtp.slist.pop_front", "pop_front is not the thread's first element");
            head = (head + 1) % NE; n--;
        }
        TCHECK((dl ? cstl_dlist_size(&dlst) : cstl_slist_size(&sl)) == (size_t)n, dl ? "mtp.dlist.size" : "mtp.slist.size", "list size differs");
        if ((i & 63) == 0 && n > 1) {
            /* sort, then drain in order and start over */
            int last = -1;
            if (dl) cstl_dlist_sort(&dlst, cmp_el, w); else cstl_slist_sort(&sl, cmp_el, w);
            while (n > 0) {
                struct el *r = dl ? cstl_dlist_pop_front(&dlst) : cstl_slist_pop_front(&sl);
                TCHECK(r != NULL && r >= w->e && r < w->e + NE && r->key >= last, dl ? "mtp.dlist.sort" : "mtp.slist.sort", "sorted drain out of order or foreign element");
                last = r->key; n--;
            }
            head = tail = 0;
        }
    }
    w->ops += nops;
}

static size_t hmod(size_t k, size_t m) { return k % m; }
static void work_hash(struct wctx *w)
{
    struct cstl_hash h;
    int i, n = 0;
    cstl_hash_init(&h, offsetof(struct el, xn));
    reset_elems(w);
    cstl_hash_resize(&h, 7, (w->idx & 1) ? hmod : NULL);
    for (i = 0; i < nops; i++) {
        const int k = vrt_below(&w->g, NE);
        struct el *x = &w->e[k];
        void *f;
        if (!x->in) { cstl_hash_insert(&h, 1000 + k, x); x->in = 1; n++; }
        else if (vrt_below(&w->g, 2)) { cstl_hash_erase(&h, x); x->in = 0; n--; }
        f = cstl_hash_find(&h, 1000 + k, NULL, NULL);
        TCHECK((f == x) == (x->in != 0), "mtp.hash.find", "find disagrees with the thread's own model");
        TCHECK(cstl_hash_size(&h) == (size_t)n, "mtp.hash.size", "table size differs");
        if ((i & 127) == 0) cstl_hash_resize(&h, 3 + vrt_below(&w->g, 40), NULL);
    }
    cstl_hash_clear(&h, NULL);
    w->ops += nops;
}

static void work_vector(struct wctx *w)
{
    cstl_vector_t v;
    int i;
    cstl_vector_init(&v, sizeof(int));
    for (i = 0; i < nops / 8; i++) {
        const size_t n = 1 + vrt_below(&w->g, 64);
        size_t j;
        cstl_vector_resize(&v, n);
        for (j = 0; j < n; j++) *(int *)cstl_vector_at(&v, j) = (int)vrt_below(&w->g, 50);
        __cstl_vector_sort(&v, cmp_int, NULL, cstl_swap, (i & 1) ? CSTL_SORT_ALGORITHM_HEAP : CSTL_SORT_ALGORITHM_QUICK_M);
        for (j = 1; j < n; j++) TCHECK(*(int *)cstl_vector_at(&v, j - 1) <= *(int *)cstl_vector_at(&v, j), "mtp.vector.sort", "private vector not sorted");
        cstl_vector_reverse(&v);
        if ((i & 7) == 0) cstl_vector_shrink_to_fit(&v);
    }
    cstl_vector_clear(&v);
    w->ops += nops / 8;
}

static void work_string(struct wctx *w)
{
    cstl_string_t s, t;
    cstl_wstring_t ws;
    char ref[700];
    size_t len = 0;
    int i;
    cstl_string_init(&s); cstl_string_init(&t); cstl_wstring_init(&ws);
    for (i = 0; i < nops / 4; i++) {
        const char c = (char)('a' + vrt_below(&w->g, 26));
        if (len < 600 && vrt_below(&w->g, 3)) {
            const size_t pos = vrt_below(&w->g, (uint32_t)len + 1), cnt = 1 + vrt_below(&w->g, 3);
            cstl_string_insert_ch(&s, pos, cnt, c);
            memmove(ref + pos + cnt, ref + pos, len - pos); memset(ref + pos, c, cnt); len += cnt;
            cstl_wstring_append_ch(&ws, 1, (wchar_t)c);
        } else if (len > 0) {
            const size_t pos = vrt_below(&w->g, (uint32_t)len), cnt = 1 + vrt_below(&w->g, 3);
            const size_t k = cnt > len - pos ? len - pos : cnt;
            cstl_string_erase(&s, pos, cnt);
            memmove(ref + pos, ref + pos + k, len - pos - k); len -= k;
        }
        ref[len] = 0;
        TCHECK(cstl_string_size(&s) == len && strcmp(cstl_string_str(&s), ref) == 0, "mtp.string.content", "private string differs from its reference");
        if (len > 2 && (i & 15) == 0) { cstl_string_substr(&s, 1, len, &t); TCHECK(cstl_string_compare_str(&t, ref + 1) == 0, "mtp.string.substr", "substr differs"); }
    }
    cstl_string_clear(&s); cstl_string_clear(&t); cstl_wstring_clear(&ws);
    w->ops += nops / 4;
}

static void work_array(struct wctx *w)
{
    cstl_array_t a, b;
    cstl_shared_ptr_t sp, sp2;
    cstl_weak_ptr_t wp;
    int i;
    cstl_array_init(&a); cstl_array_init(&b);
    cstl_shared_ptr_init(&sp); cstl_shared_ptr_init(&sp2); cstl_weak_ptr_init(&wp);
    for (i = 0; i < nops / 8; i++) {
        const size_t n = 2 + vrt_below(&w->g, 30);
        cstl_array_alloc(&a, n, 4);
        TCHECK(cstl_array_size(&a) == n, "mtp.array.alloc", "private array has the wrong size");
        cstl_array_slice(&a, 1, n, &b);
        *(int *)cstl_array_at(&b, 0) = i;
        TCHECK(*(int *)cstl_array_at(&a, 1) == i, "mtp.array.slice", "slice does not alias its array");
        cstl_array_reset(&a);
        TCHECK(*(int *)cstl_array_at(&b, 0) == i, "mtp.array.lifetime", "buffer gone while a view exists");
        cstl_array_reset(&b);
        cstl_shared_ptr_alloc(&sp, 16, NULL);
        cstl_shared_ptr_share(&sp, &sp2);
        cstl_weak_ptr_from(&wp, &sp);
        cstl_shared_ptr_reset(&sp);
        cstl_weak_ptr_lock(&wp, &sp);
        TCHECK(cstl_shared_ptr_get(&sp) != NULL && cstl_shared_ptr_get(&sp) == cstl_shared_ptr_get(&sp2), "mtp.shared.lock", "private shared pointer lost");
        cstl_shared_ptr_reset(&sp); cstl_shared_ptr_reset(&sp2); cstl_weak_ptr_reset(&wp);
    }
    w->ops += nops / 8;
}

static void *thread_main(void *arg)
{
    struct wctx *w = arg;
    me = w;
    if (!strcmp(family, "trees")) work_trees(w);
    else if (!strcmp(family, "map")) work_map(w);
    else if (!strcmp(family, "heap")) work_heap(w);
    else if (!strcmp(family, "slist")) work_lists(w, 0);
    else if (!strcmp(family, "dlist")) work_lists(w, 1);
    else if (!strcmp(family, "hash")) work_hash(w);
    else if (!strcmp(family, "vector")) work_vector(w);
    else if (!strcmp(family, "string")) work_string(w);
    else work_array(w);
    return NULL;
}

static int poisoned;
static void run_case(uint64_t idx)
{
    int t, done = 0;
    if (poisoned) { VRT_COUNT("mtp.cases.skipped-after-violation"); return; }
    family = vrt_mode[0] ? vrt_mode : "trees";
    nops = vrt_thorough ? 60000 : 20000;
    vrt_case_note("%d threads, each with private %s objects, %d operations each, no synchronisation between them", NT, family, nops);
    VRT_OP2("mtp.round", "family case %ld ops %ld", idx, nops);
    atomic_store(&failed, 0);
    for (t = 0; t < NT; t++) {
        W[t].idx = t; W[t].ops = 0;
        vrt_rng_seed(&W[t].g, vrt_seed ^ (idx << 8), 0x5151 + t);
        if (pthread_create(&W[t].tid, NULL, thread_main, &W[t]) != 0) vrt_fail("harness.mtp.pthread_create", "pthread_create failed");
    }
    /* join, unless a thread parked itself after reporting */
    for (t = 0; t < NT; t++) {
        while (pthread_tryjoin_np(W[t].tid, NULL) != 0) {
            if (atomic_load(&failed)) { poisoned = 1; vrt_fail("mtp.round-abandoned", "a harness thread reported a violation (see the other keys)"); }
            usleep(200);
        }
        done++;
    }
    for (t = 0; t < NT; t++) VRT_COUNT_N("mtp.operations", W[t].ops);
    if (vrt_lib_live() != 0) vrt_fail("mtp.leak", "%zu library blocks live after all private objects were released", vrt_lib_live());
    VRT_COUNT("mtp.rounds");
    vrt_sig(0, vrt_mix(idx, 0x4d54));
    vrt_sig(0, vrt_mix(idx, 0x4d55));
}
static uint64_t ncases(void) { return vrt_thorough ? 200 : 48; }
static void winit(void) { vrt_set_mt(1); vrt_fail_hook = fail_hook; vrt_sig_name(0, "rounds"); }
static const char *const required[] = { "mtp.rounds", "mtp.operations", NULL };
static const struct vrt_harness H = { "mt_private", ncases, run_case, winit, NULL, required, 4 };
int main(int argc, char **argv) { return vrt_main(argc, argv, &H); }
