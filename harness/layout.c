/*
 * layout.c -- element layouts other than the usual, and "the library touches nothing of an element but its node".
 *
 * Every intrusive container takes the byte offset of its node inside the caller's element as a size_t.  The model
 * harnesses embed their nodes within the first few dozen bytes of small elements, so a library that narrows the offset
 * (an unsigned short member, an int parameter) or that computes the element address from it in a narrower type keeps
 * working there; with a node 64 KiB, 1 MiB or 16 MiB into a large record it silently keeps its links somewhere inside
 * the user's payload, and everything still looks consistent until the owner rewrites that payload.  Here each
 * element is one large block  [header | payload ... | node | trailer]  with the node at offsets just past 2^16, 2^17,
 * 2^20 and 2^24; the harness keeps a shadow copy of everything except the node, compares it after EVERY library call
 * (the library must never write into the caller's part of an element), and the owner rewrites stretches of payload
 * between calls (as the owner of the record is free to do).  The container itself is checked against a small reference
 * model.  mode = family (trees, heap, hash, dlist, slist) or all.
 */
#include "vrt.h"
#include <string.h>
#include <stdint.h>
#include <stddef.h>
#include <cstl/bintree.h>
#include <cstl/rbtree.h>
#include <cstl/heap.h>
#include <cstl/hash.h>
#include <cstl/dlist.h>
#include <cstl/slist.h>
#include <sys/mman.h>
#include <unistd.h>

#define MAXE 20
#define HDR 16
#define TRAIL 48
#define NODEMAX 64

static size_t OFF;              /* node offset of this case */
static size_t NODESZ;           /* size of the node type of this case */
static int NE;                  /* elements of this case */
static unsigned char *blk[MAXE], *shadow[MAXE];
static int key[MAXE];           /* ordering key, owned by the harness */
static int linked[MAXE];
static size_t blksz;
static vrt_rng g;

static int idx_of(const void *e)
{
    int i;
    for (i = 0; i < NE; i++) if (blk[i] == e) return i;
    vrt_fail("layout.callback.foreign-pointer", "a callback received %p, which is not the address of an element", e);
}

static void fill(int i, size_t from, size_t to, unsigned gen)
{
    size_t j;
    for (j = from; j < to; j++) {
        if (j >= OFF && j < OFF + NODESZ) continue;
        blk[i][j] = shadow[i][j] = (unsigned char)(i * 131u + j * 7u + (j >> 8) * 3u + gen * 29u + 1u);
    }
}

/* Some elements are placed so that the address of their NODE is an exact multiple of 2^32 (its low 32 bits are all zero): a
 * pointer test or comparison done in a 32-bit type sees such a node as NULL / equal to another.  Address space is reserved with
 * mmap (PROT_NONE, no memory behind it) and only the pages of the element are opened. */
static void *round_base[MAXE];
static size_t round_len[MAXE];
static int round_mode;
static unsigned char *place_round(int i)
{
    const size_t pg = (size_t)sysconf(_SC_PAGESIZE), span = ((size_t)1 << 32) + blksz + 2 * pg;
    unsigned char *base = mmap(NULL, span, PROT_NONE, MAP_PRIVATE | MAP_ANONYMOUS | MAP_NORESERVE, -1, 0), *node, *start, *lo;
    if (base == MAP_FAILED) { VRT_COUNT("layout.round-address.skipped-no-address-space"); return NULL; }
    node = (unsigned char *)((((uintptr_t)base + OFF + pg) + (((uintptr_t)1 << 32) - 1)) & ~(((uintptr_t)1 << 32) - 1));
    start = node - OFF;
    lo = (unsigned char *)((uintptr_t)start & ~(uintptr_t)(pg - 1));
    if (mprotect(lo, (size_t)(start + blksz - lo + pg - 1) & ~(pg - 1), PROT_READ | PROT_WRITE) != 0) { munmap(base, span); VRT_COUNT("layout.round-address.skipped-no-address-space"); return NULL; }
    round_base[i] = base; round_len[i] = span;
    VRT_COUNT("layout.elements.node-at-a-multiple-of-2pow32");
    return start;
}
static void mk(size_t off, size_t nodesz, int ne)
{
    int i;
    OFF = off; NODESZ = nodesz; NE = ne;
    blksz = OFF + NODESZ + TRAIL;
    for (i = 0; i < NE; i++) {
        round_base[i] = NULL;
        blk[i] = (round_mode && (i == 1 || i == 2 || i == 5)) ? place_round(i) : NULL;
        if (blk[i] == NULL) { round_base[i] = NULL; blk[i] = vrt_alloc(blksz); }
        shadow[i] = vrt_alloc(blksz);
        memset(blk[i] + OFF, 0xd7, NODESZ);
        fill(i, 0, blksz, 0);
        key[i] = 0; linked[i] = 0;
    }
}
static void unmk(void) { int i; for (i = 0; i < NE; i++) { if (round_base[i] != NULL) munmap(round_base[i], round_len[i]); else vrt_free(blk[i]); vrt_free(shadow[i]); } }

/* after every library call */
static void payloads(const char *entry)
{
    int i;
    for (i = 0; i < NE; i++) {
        if (memcmp(blk[i], shadow[i], OFF) != 0 || memcmp(blk[i] + OFF + NODESZ, shadow[i] + OFF + NODESZ, TRAIL) != 0) {
            size_t j;
            for (j = 0; j < blksz; j++) if (!(j >= OFF && j < OFF + NODESZ) && blk[i][j] != shadow[i][j]) break;
            vrt_count_dyn(entry, 0);
            vrt_fail("layout.library-wrote-into-the-callers-part-of-an-element",
                     "after %s: byte %zu of element %d changed (node is at offset %zu, %zu bytes)", entry, j, i, OFF, NODESZ);
        }
    }
    VRT_COUNT("layout.payload-audits");
}
/* the owner rewrites part of a record between two calls: near the start (where a narrowed offset lands), around the
 * node, or anywhere */
static void scribble(void)
{
    const int i = (int)vrt_below(&g, (uint32_t)NE);
    const unsigned gen = 1 + vrt_below(&g, 200);
    size_t a, n = 64 + vrt_below(&g, 4096);
    switch (vrt_below(&g, 4)) {
    case 0: a = 0; break;
    case 1: a = (OFF & 0xffff); break;                 /* where a 16-bit offset would put the node */
    case 2: a = OFF > n ? OFF - n : 0; n += NODESZ + TRAIL; break;
    default: a = vrt_below(&g, (uint32_t)(OFF > 4096 ? OFF - 4096 : 1)); break;
    }
    if (a + n > blksz) n = blksz - a;
    fill(i, a, a + n, gen);
    VRT_COUNT("layout.owner-rewrote-payload");
}

static int cmp_key(const void *a, const void *b, void *p)
{
    const int x = key[idx_of(a)], y = key[idx_of(b)];
    (void)p;
    VRT_COUNT("layout.cb.compare");
    return vrt_cmp_result((x > y) - (x < y), (unsigned)(x * 5 + y));
}

/* ---- reference helpers ---- */
static int nlinked(void) { int i, n = 0; for (i = 0; i < NE; i++) n += linked[i]; return n; }
static int pick(int want_linked)
{
    int c[MAXE], n = 0, i;
    for (i = 0; i < NE; i++) if (linked[i] == want_linked) c[n++] = i;
    return n ? c[vrt_below(&g, (uint32_t)n)] : -1;
}

/* ---- trees ---- */
struct tw { int last, n, bad; int rev; };
static int tree_visit(const void *e, cstl_bintree_visit_order_t o, void *p)
{
    struct tw *w = p;
    if (o == CSTL_BINTREE_VISIT_ORDER_MID || o == CSTL_BINTREE_VISIT_ORDER_LEAF) {
        const int k = key[idx_of(e)];
        if (w->n > 0 && (w->rev ? k > w->last : k < w->last)) w->bad++;
        w->last = k; w->n++;
    }
    return 0;
}
static void run_trees(int rb, int ops)
{
    struct cstl_bintree bt;
    struct cstl_rbtree rt;
    int o;
    memset(&bt, 0x3c, sizeof(bt)); memset(&rt, 0x3c, sizeof(rt));
    if (rb) cstl_rbtree_init(&rt, cmp_key, NULL, OFF); else cstl_bintree_init(&bt, cmp_key, NULL, OFF);
    for (o = 0; o < ops; o++) {
        const int r = (int)vrt_below(&g, 10);
        if (r < 5 && pick(0) >= 0) {
            const int i = pick(0);
            key[i] = (int)vrt_below(&g, 12);
            VRT_OP2(rb ? "rbtree.insert" : "bintree.insert", "e%ld key %ld", i, key[i]);
            if (rb) cstl_rbtree_insert(&rt, blk[i], NULL); else cstl_bintree_insert(&bt, blk[i], NULL);
            linked[i] = 1;
            payloads("insert");
        } else if (r < 8 && pick(1) >= 0) {
            const int i = pick(1);
            void *e;
            VRT_OP2(rb ? "rbtree.erase" : "bintree.erase", "e%ld key %ld", i, key[i]);
            e = rb ? cstl_rbtree_erase(&rt, blk[i]) : cstl_bintree_erase(&bt, blk[i]);
            VRT_CHECK(e != NULL && linked[idx_of(e)] && key[idx_of(e)] == key[i], "layout.trees.erase", "erase of a held key returned %p", e);
            linked[idx_of(e)] = 0;
            payloads("erase");
        } else {
            /* find every key value through a probe element that is not in the tree, then walk */
            const int pr = pick(0);
            struct tw w = { 0, 0, 0, (int)vrt_below(&g, 2) };
            if (pr >= 0) {
                int k;
                for (k = 0; k < 12; k++) {
                    int i, held = 0;
                    const void *f;
                    for (i = 0; i < NE; i++) held += linked[i] && key[i] == k;
                    key[pr] = k;
                    VRT_OP1(rb ? "rbtree.find" : "bintree.find", "key %ld", k);
                    f = rb ? cstl_rbtree_find(&rt, blk[pr], NULL) : cstl_bintree_find(&bt, blk[pr], NULL);
                    VRT_CHECK((f != NULL) == (held > 0) && (f == NULL || (linked[idx_of(f)] && key[idx_of(f)] == k)), "layout.trees.find",
                              "find(key %d) returned %p with %d such elements held", k, f, held);
                }
                payloads("find");
            }
            VRT_OP1(rb ? "rbtree.foreach" : "bintree.foreach", "rev %ld", w.rev);
            if (rb) cstl_rbtree_foreach(&rt, tree_visit, &w, w.rev ? CSTL_BINTREE_FOREACH_DIR_REV : CSTL_BINTREE_FOREACH_DIR_FWD);
            else cstl_bintree_foreach(&bt, tree_visit, &w, w.rev ? CSTL_BINTREE_FOREACH_DIR_REV : CSTL_BINTREE_FOREACH_DIR_FWD);
            VRT_CHECK(w.n == nlinked() && w.bad == 0, "layout.trees.foreach", "traversal presented %d of %d elements, %d out of order", w.n, nlinked(), w.bad);
            payloads("foreach");
        }
        VRT_CHECK((rb ? cstl_rbtree_size(&rt) : cstl_bintree_size(&bt)) == (size_t)nlinked(), "layout.trees.size", "size differs from the %d elements held", nlinked());
        if (vrt_chance(&g, 1, 3)) scribble();
    }
    VRT_MAX("max.layout.tree-elements", nlinked());
}

/* ---- heap ---- */
static void run_heap(int ops)
{
    struct cstl_heap h;
    int o;
    memset(&h, 0x3c, sizeof(h));
    cstl_heap_init(&h, cmp_key, NULL, OFF);
    for (o = 0; o < ops; o++) {
        if (vrt_chance(&g, 3, 5) && pick(0) >= 0) {
            const int i = pick(0);
            key[i] = (int)vrt_below(&g, 12);
            VRT_OP2("heap.push", "e%ld prio %ld", i, key[i]);
            cstl_heap_push(&h, blk[i]);
            linked[i] = 1;
            payloads("push");
        } else {
            int i, mx = -1;
            const void *t;
            void *p;
            for (i = 0; i < NE; i++) if (linked[i] && key[i] > mx) mx = key[i];
            VRT_OP0("heap.pop", "");
            t = cstl_heap_get(&h);
            p = cstl_heap_pop(&h);
            VRT_CHECK(p == t && (p == NULL) == (mx < 0) && (p == NULL || (linked[idx_of(p)] && key[idx_of(p)] == mx)), "layout.heap.pop",
                      "get/pop returned %p/%p, the greatest priority held is %d", t, p, mx);
            if (p) linked[idx_of(p)] = 0;
            payloads("pop");
        }
        VRT_CHECK(cstl_heap_size(&h) == (size_t)nlinked(), "layout.heap.size", "size differs from the %d elements held", nlinked());
        if (vrt_chance(&g, 1, 3)) scribble();
    }
}

/* ---- hash ---- */
static int hv_n;
static int hash_visit(void *e, void *p) { (void)p; if (!linked[idx_of(e)]) vrt_fail("layout.hash.foreach.not-held", "visited an element that is not in the table"); hv_n++; return 0; }
static void run_hash(int ops)
{
    struct cstl_hash h;
    int o;
    memset(&h, 0x3c, sizeof(h));
    cstl_hash_init(&h, OFF);
    cstl_hash_resize(&h, 4, NULL);
    for (o = 0; o < ops; o++) {
        const int r = (int)vrt_below(&g, 10);
        if (r < 4 && pick(0) >= 0) {
            const int i = pick(0);
            key[i] = 1000 + i;            /* unique keys */
            VRT_OP2("hash.insert", "e%ld key %ld", i, key[i]);
            cstl_hash_insert(&h, (size_t)key[i], blk[i]);
            linked[i] = 1;
            payloads("insert");
        } else if (r < 6 && pick(1) >= 0) {
            const int i = pick(1);
            VRT_OP1("hash.erase", "e%ld", i);
            cstl_hash_erase(&h, blk[i]);
            linked[i] = 0;
            payloads("erase");
        } else if (r < 7) {
            const size_t n = 1 + vrt_below(&g, 9);
            VRT_OP1("hash.resize", "%ld buckets", (long)n);
            cstl_hash_resize(&h, n, vrt_chance(&g, 1, 2) ? cstl_hash_div : cstl_hash_mul);
            payloads("resize");
        } else {
            int i;
            for (i = 0; i < NE; i++) {
                void *f;
                VRT_OP1("hash.find", "key %ld", 1000 + i);
                f = cstl_hash_find(&h, (size_t)(1000 + i), NULL, NULL);
                VRT_CHECK(f == (linked[i] ? blk[i] : NULL), "layout.hash.find", "find(key of element %d) returned %p, element %s held", i, f, linked[i] ? "is" : "is not");
            }
            payloads("find");
            hv_n = 0;
            VRT_OP0("hash.foreach", "");
            cstl_hash_foreach(&h, hash_visit, NULL);
            VRT_CHECK(hv_n == nlinked(), "layout.hash.foreach", "%d visits for %d elements", hv_n, nlinked());
            payloads("foreach");
        }
        VRT_CHECK(cstl_hash_size(&h) == (size_t)nlinked(), "layout.hash.size", "size differs from the %d elements held", nlinked());
        if (vrt_chance(&g, 1, 3)) scribble();
    }
    cstl_hash_clear(&h, NULL);
    payloads("clear");
}

/* ---- lists: the reference is a sequence of element indexes ---- */
static int seq[MAXE], nseq;
static int lw_i, lw_bad;
static int list_visit(void *e, void *p) { (void)p; if (lw_i >= nseq || seq[lw_i] != idx_of(e)) lw_bad++; lw_i++; return 0; }
static void seq_insert(int pos, int i) { memmove(&seq[pos + 1], &seq[pos], (size_t)(nseq - pos) * sizeof(int)); seq[pos] = i; nseq++; linked[i] = 1; }
static int seq_remove(int pos) { const int i = seq[pos]; memmove(&seq[pos], &seq[pos + 1], (size_t)(nseq - pos - 1) * sizeof(int)); nseq--; linked[i] = 0; return i; }
static void seq_sort(void)
{
    int a, b;       /* stable insertion sort by key: both list sorts are only required to produce an ordered permutation */
    for (a = 1; a < nseq; a++) for (b = a; b > 0 && key[seq[b - 1]] > key[seq[b]]; b--) { const int t = seq[b]; seq[b] = seq[b - 1]; seq[b - 1] = t; }
}
static void run_dlist(int ops)
{
    struct cstl_dlist l;
    int o;
    memset(&l, 0x3c, sizeof(l));
    cstl_dlist_init(&l, OFF);
    nseq = 0;
    for (o = 0; o < ops; o++) {
        const int r = (int)vrt_below(&g, 12);
        const int f = pick(0);
        if (r < 2 && f >= 0) { key[f] = (int)vrt_below(&g, 50); VRT_OP1("dlist.push_back", "e%ld", f); cstl_dlist_push_back(&l, blk[f]); seq_insert(nseq, f); payloads("push_back"); }
        else if (r < 4 && f >= 0) { key[f] = (int)vrt_below(&g, 50); VRT_OP1("dlist.push_front", "e%ld", f); cstl_dlist_push_front(&l, blk[f]); seq_insert(0, f); payloads("push_front"); }
        else if (r < 5 && f >= 0 && nseq > 0) {
            const int pos = (int)vrt_below(&g, (uint32_t)nseq);
            key[f] = (int)vrt_below(&g, 50);
            VRT_OP2("dlist.insert", "e%ld after position %ld", f, pos);
            cstl_dlist_insert(&l, blk[seq[pos]], blk[f]); seq_insert(pos + 1, f); payloads("insert");
        } else if (r < 6 && nseq > 0) {
            const int pos = (int)vrt_below(&g, (uint32_t)nseq);
            VRT_OP1("dlist.erase", "position %ld", pos);
            cstl_dlist_erase(&l, blk[seq[pos]]); seq_remove(pos); payloads("erase");
        } else if (r < 7) {
            void *p;
            VRT_OP0("dlist.pop_front", "");
            p = cstl_dlist_pop_front(&l);
            VRT_CHECK(p == (nseq ? blk[seq[0]] : NULL), "layout.dlist.pop_front", "returned %p", p);
            if (nseq) seq_remove(0);
            payloads("pop_front");
        } else if (r < 8) {
            void *p;
            VRT_OP0("dlist.pop_back", "");
            p = cstl_dlist_pop_back(&l);
            VRT_CHECK(p == (nseq ? blk[seq[nseq - 1]] : NULL), "layout.dlist.pop_back", "returned %p", p);
            if (nseq) seq_remove(nseq - 1);
            payloads("pop_back");
        } else if (r < 9) {
            int a;
            VRT_OP0("dlist.reverse", "");
            cstl_dlist_reverse(&l);
            for (a = 0; a < nseq / 2; a++) { const int t = seq[a]; seq[a] = seq[nseq - 1 - a]; seq[nseq - 1 - a] = t; }
            payloads("reverse");
        } else if (r < 10) {
            int a, ok = 1;
            /* unique keys so that the sorted order is determined */
            for (a = 0; a < nseq; a++) key[seq[a]] = (int)(vrt_below(&g, 1000) * 32 + (uint32_t)seq[a]);
            VRT_OP0("dlist.sort", "");
            cstl_dlist_sort(&l, cmp_key, NULL);
            seq_sort();
            (void)ok;
            payloads("sort");
        }
        /* audit in both directions */
        lw_i = 0; lw_bad = 0;
        VRT_OP0("dlist.foreach", "fwd");
        cstl_dlist_foreach(&l, list_visit, NULL, CSTL_DLIST_FOREACH_DIR_FWD);
        VRT_CHECK(lw_i == nseq && lw_bad == 0, "layout.dlist.traversal", "forward traversal: %d visits for %d elements, %d not in reference order", lw_i, nseq, lw_bad);
        VRT_CHECK(cstl_dlist_size(&l) == (size_t)nseq && cstl_dlist_front(&l) == (nseq ? blk[seq[0]] : NULL) && cstl_dlist_back(&l) == (nseq ? blk[seq[nseq - 1]] : NULL),
                  "layout.dlist.front-back-size", "front/back/size differ from the reference (%d elements)", nseq);
        payloads("foreach");
        if (vrt_chance(&g, 1, 3)) scribble();
    }
}
static void run_slist(int ops)
{
    struct cstl_slist l;
    int o;
    memset(&l, 0x3c, sizeof(l));
    cstl_slist_init(&l, OFF);
    nseq = 0;
    for (o = 0; o < ops; o++) {
        const int r = (int)vrt_below(&g, 12);
        const int f = pick(0);
        if (r < 2 && f >= 0) { key[f] = (int)vrt_below(&g, 50); VRT_OP1("slist.push_back", "e%ld", f); cstl_slist_push_back(&l, blk[f]); seq_insert(nseq, f); payloads("push_back"); }
        else if (r < 4 && f >= 0) { key[f] = (int)vrt_below(&g, 50); VRT_OP1("slist.push_front", "e%ld", f); cstl_slist_push_front(&l, blk[f]); seq_insert(0, f); payloads("push_front"); }
        else if (r < 5 && f >= 0 && nseq > 0) {
            const int pos = (int)vrt_below(&g, (uint32_t)nseq);
            key[f] = (int)vrt_below(&g, 50);
            VRT_OP2("slist.insert_after", "e%ld after position %ld", f, pos);
            cstl_slist_insert_after(&l, blk[seq[pos]], blk[f]); seq_insert(pos + 1, f); payloads("insert_after");
        } else if (r < 6 && nseq > 1) {
            const int pos = (int)vrt_below(&g, (uint32_t)(nseq - 1));
            void *p;
            VRT_OP1("slist.erase_after", "position %ld", pos);
            p = cstl_slist_erase_after(&l, blk[seq[pos]]);
            VRT_CHECK(p == blk[seq[pos + 1]], "layout.slist.erase_after", "returned %p", p);
            seq_remove(pos + 1); payloads("erase_after");
        } else if (r < 8) {
            void *p;
            VRT_OP0("slist.pop_front", "");
            p = cstl_slist_pop_front(&l);
            VRT_CHECK(p == (nseq ? blk[seq[0]] : NULL), "layout.slist.pop_front", "returned %p", p);
            if (nseq) seq_remove(0);
            payloads("pop_front");
        } else if (r < 9) {
            int a;
            VRT_OP0("slist.reverse", "");
            cstl_slist_reverse(&l);
            for (a = 0; a < nseq / 2; a++) { const int t = seq[a]; seq[a] = seq[nseq - 1 - a]; seq[nseq - 1 - a] = t; }
            payloads("reverse");
        } else if (r < 10) {
            int a;
            for (a = 0; a < nseq; a++) key[seq[a]] = (int)(vrt_below(&g, 1000) * 32 + (uint32_t)seq[a]);
            VRT_OP0("slist.sort", "");
            cstl_slist_sort(&l, cmp_key, NULL);
            seq_sort();
            payloads("sort");
        }
        lw_i = 0; lw_bad = 0;
        VRT_OP0("slist.foreach", "");
        cstl_slist_foreach(&l, list_visit, NULL);
        VRT_CHECK(lw_i == nseq && lw_bad == 0, "layout.slist.traversal", "traversal: %d visits for %d elements, %d not in reference order", lw_i, nseq, lw_bad);
        VRT_CHECK(cstl_slist_size(&l) == (size_t)nseq && cstl_slist_front(&l) == (nseq ? blk[seq[0]] : NULL) && cstl_slist_back(&l) == (nseq ? blk[seq[nseq - 1]] : NULL),
                  "layout.slist.front-back-size", "front/back/size differ from the reference (%d elements)", nseq);
        payloads("foreach");
        if (vrt_chance(&g, 1, 3)) scribble();
    }
}

/* ---- cases ---- */
static const size_t offs[] = { 65536 + 8, 65536 + 24 + 40000, 131072 + 16, (1u << 20) + 8, (1u << 24) + 64, 48, 4096 + 8 };
#define NOFF ((int)(sizeof(offs) / sizeof(offs[0])))
static const char *const fams[] = { "trees", "trees", "heap", "hash", "dlist", "slist" };      /* trees twice: bintree, rbtree */
#define NFAM 6
#define REPS_Q 3
#define REPS_T 12
static int fam_selected(int f) { return vrt_mode[0] == 0 || strcmp(vrt_mode, "all") == 0 || strcmp(vrt_mode, fams[f]) == 0; }
static uint64_t ncases(void) { return (uint64_t)NFAM * NOFF * (vrt_thorough ? REPS_T : REPS_Q); }
static void run_case(uint64_t idx)
{
    const int f = (int)(idx % NFAM), oi = (int)((idx / NFAM) % NOFF), rep = (int)(idx / NFAM / NOFF);
    const size_t off = offs[oi];
    const int ne = off >= (1u << 24) ? 4 : off >= (1u << 20) ? 8 : MAXE;
    const int ops = off >= (1u << 24) ? 60 : off >= (1u << 20) ? 150 : 400;
    size_t nodesz;
    if (!fam_selected(f)) return;
    vrt_rng_seed(&g, vrt_seed, 0x1a7007 + idx);
    switch (f) {
    case 0: nodesz = sizeof(struct cstl_bintree_node); break;
    case 1: nodesz = sizeof(struct cstl_rbtree_node); break;
    case 2: nodesz = sizeof(struct cstl_heap_node); break;
    case 3: nodesz = sizeof(struct cstl_hash_node); break;
    case 4: nodesz = sizeof(struct cstl_dlist_node); break;
    default: nodesz = sizeof(struct cstl_slist_node); break;
    }
    vrt_case_note("family %s%s, node at offset %zu of a %zu-byte element, %d elements, %d operations, repetition %d", fams[f], f == 1 ? " (rbtree)" : f == 0 ? " (bintree)" : "",
                  off, off + nodesz + TRAIL, ne, ops, rep);
    vrt_state(off >= 65536 ? "node-beyond-64KiB" : "node-near-start");
    round_mode = (rep & 1) && off < (1u << 24);      /* every second repetition: three elements with their node at a multiple of 2^32 */
    mk(off, nodesz, ne);
    switch (f) {
    case 0: run_trees(0, ops); break;
    case 1: run_trees(1, ops); break;
    case 2: run_heap(ops); break;
    case 3: run_hash(ops); break;
    case 4: run_dlist(ops); break;
    default: run_slist(ops); break;
    }
    unmk();
    vrt_sig(0, vrt_mix(vrt_mix(0x1a70, (uint64_t)f), (uint64_t)oi));
    if (off >= 65536) VRT_COUNT("layout.cases.node-beyond-64KiB");
    if (off >= (1u << 20)) VRT_COUNT("layout.cases.node-beyond-1MiB");
    VRT_COUNT("layout.cases");
}
static void winit(void) { vrt_sig_name(0, "family-x-offset"); }
static const char *const required[] = { "layout.cases", "layout.cases.node-beyond-64KiB", "layout.cases.node-beyond-1MiB", "layout.payload-audits", "layout.owner-rewrote-payload", "layout.elements.node-at-a-multiple-of-2pow32", NULL };
static const struct vrt_harness H = { "layout", ncases, run_case, winit, NULL, required, 16 };
int main(int argc, char **argv) { return vrt_main(argc, argv, &H); }
