/*
 * C12 -- doubly-linked list equals a reference sequence in both directions.
 * (Also used by C15 via mode "clear": clear-in-every-reachable-state probe.)
 *
 * cases: [0, nscopes)        closure scopes (every op of the alphabet in every
 *                            reachable state of a small scope)
 *        then NBIG           lists of 70 000 elements
 *        then nruns()        sorts of 800 .. 33 000 (thorough 200 000) elements whose keys come in runs
 *                            (run_shapes[] x runs ascending/descending x comparator ascending/descending)
 *        the rest            seeded random histories (lists up to ~500 elements)
 * (mode "clear" has the closure scopes and the random histories only)
 *
 * foreach flavours FE_NEST / FE_NEST_STOP: the visitor calls size/front/back/find and foreach on the list
 * that is being walked and on another one (read-only re-entrancy), with early stop of the inner and of the
 * outer walk; the outer walk is held to the same oracle as a plain one (keys dlist.foreach.reentrant.*).
 *
 * Oracle (after every call): FWD foreach == reference sequence, REV foreach ==
 * its mirror, front/back/size, pops on empty == NULL; return values of every
 * call against the model; a link walker over the header-visible fields as a
 * white-box extra under its own keys (dlist.walker.*); ASan/UBSan throughout
 * (elements are individual blocks; elements handed to clear / erased by a
 * visitor are overwritten with 0xa5 and freed inside the callback).
 *
 * Intrusive use with two node members: struct elem embeds `node` and `node2`;
 * a list is initialised with the offset of one of them (its offset class), so
 * an element can sit on a class-0 list and on a class-1 list at the same
 * time.  swap between lists of different class is legal (contents AND offset
 * change sides); concat between lists of different offset is documented to
 * do nothing and is checked to do exactly that.
 */
#include "vrt.h"
#include "explore.h"
#include "cstl/dlist.h"
#include <string.h>

#define MAXL 3
#define MAXE 520
#define MAGIC 0xd0b1e115u

struct elem {
    uint32_t magic;
    int id, key;
    int where[2];               /* per node member: list index, -1 = not linked, -3 = find probe */
    uint64_t pad0;
    struct cstl_dlist_node node;        /* offset class 0 */
    uint64_t pad1;
    struct cstl_dlist_node node2;       /* offset class 1 */
    uint64_t pad2;
};
static const size_t cls_off[2] = { offsetof(struct elem, node), offsetof(struct elem, node2) };
static struct cstl_dlist_node *node_of(struct elem *e, int c) { return c ? &e->node2 : &e->node; }

static struct elem *pool[MAXE];
static int npool, nkeys, nlists;
static struct cstl_dlist L[MAXL];
static struct elem *M[MAXL][MAXE];
static int Mn[MAXL];
static int cls[MAXL];           /* current offset class of each list (swap moves it) */

enum {
    K_PUSH_FRONT = 1, K_PUSH_BACK, K_POP_FRONT, K_POP_BACK, K_INSERT, K_ERASE,
    K_REVERSE, K_SORT, K_CONCAT, K_SWAP, K_FIND, K_FOREACH, K_CLEAR, K_NKINDS
};
/* foreach flavours */
enum { FE_PLAIN = 0, FE_STOP, FE_ERASE_ONE, FE_ERASE_ALL, FE_ERASE_STOP, FE_NEST, FE_NEST_STOP, FE_NFLAV };
enum { FWD = 0, REV = 1 };

#define OP(kind, l1, l2, key, dir, flav, pos) \
    ((uint32_t)(kind) | (uint32_t)(l1) << 8 | (uint32_t)(l2) << 10 | (uint32_t)(key) << 12 | \
     (uint32_t)(dir) << 16 | (uint32_t)(flav) << 17 | (uint32_t)(pos) << 20)
#define OP_KIND(o) ((int)((o) & 0xff))
#define OP_L1(o)   ((int)(((o) >> 8) & 3))
#define OP_L2(o)   ((int)(((o) >> 10) & 3))
#define OP_KEY(o)  ((int)(((o) >> 12) & 15))
#define OP_DIR(o)  ((int)(((o) >> 16) & 1))
#define OP_FLAV(o) ((int)(((o) >> 17) & 7))
#define OP_POS(o)  ((int)((o) >> 20))
#define POS_LAST 0xfff      /* FE_NEST_STOP: the last visit, wherever that is (lists of 3 and more) */

static cstl_dlist_foreach_dir_t libdir(int dir)
{
    return dir == REV ? CSTL_DLIST_FOREACH_DIR_REV : CSTL_DLIST_FOREACH_DIR_FWD;
}

static struct elem *new_elem(int id, int key)
{
    struct elem *e = vrt_alloc(sizeof(*e));
    memset(e, 0x5e, sizeof(*e));
    e->magic = MAGIC; e->id = id; e->key = key; e->where[0] = e->where[1] = -1;
    return e;
}

/* hand an element that left its class-c list for good back to the allocator:
 * overwrite all of it (including the embedded nodes), free it, and put a fresh
 * block into its pool slot.  An element that is still linked into a list of
 * the other class through its other node cannot be freed: then only the node
 * it was handed over with is overwritten. */
static void poison_free_renew(struct elem *x, int c)
{
    const int id = x->id;
    if (x->where[!c] >= 0) {
        memset(node_of(x, c), 0xa5, sizeof(struct cstl_dlist_node));
        x->where[c] = -1;
        VRT_COUNT("handed-over.still-on-list-of-other-offset");
        return;
    }
    memset(x, 0xa5, sizeof(*x));
    vrt_free(x);
    pool[id] = new_elem(id, id % nkeys);
}

static long cmp_budget;
static int sortdir[2] = { 1, -1 };
static int cmp_key(const void *a, const void *b, void *p)
{
    const struct elem *x = a, *y = b;
    /* the priv pointer carries the sort direction: the same function sorts ascending or descending */
    VRT_CHECK(p == (void *)&sortdir[0] || p == (void *)&sortdir[1], "dlist.sort.cmp-priv", "comparison called with wrong priv %p", p);
    if (*(const int *)p < 0) { const struct elem *t = x; x = y; y = t; }
    VRT_CHECK(x->magic == MAGIC && y->magic == MAGIC, "dlist.sort.cmp-non-element",
              "comparison called with a non-element");
    /* a merge sort needs < n*ceil(log2 n) comparisons; far beyond that the sort is not going to return:
     * verdict on logical steps, not on time */
    VRT_CHECK(cmp_budget-- > 0, "dlist.sort.runaway", "sort made more than 64*n+64 comparisons");
    VRT_COUNT("cb.sort-compare");
    /* only the sign is specified: the magnitude is unrelated to the key distance */
    if ((x->id + y->id) % 3 == 0)                  /* ... and sits on the edges of the integer types */
        return vrt_cmp_result((x->key > y->key) - (x->key < y->key), (unsigned)(x->id * 131 + y->id * 31));
    return ((x->key > y->key) - (x->key < y->key)) * (1 + (x->id * 131 + y->id * 31) % 997);
}

static int find_tag;
static int cmp_find(const void *a, const void *b, void *p)
{
    const struct elem *x = a, *y = b;
    VRT_CHECK(p == (void *)&find_tag, "dlist.find.cmp-priv", "comparison called with wrong priv %p", p);
    VRT_CHECK(x->magic == MAGIC && y->magic == MAGIC, "dlist.find.cmp-non-element",
              "comparison called with a non-element");
    VRT_COUNT("cb.find-compare");
    return (x->key > y->key) - (x->key < y->key);
}

#define SCOPE(nl, nk, np, cm) ((nl) | (nk) << 4 | (np) << 8 | (cm) << 20)
static unsigned init_toggle;
static void nest_reset(void);
static void st_create(int scope)
{
    int i;
    /* scope: bits 0-3 nlists, 4-7 nkeys, 8-19 npool, 20-22 offset class of list 0..2 */
    nlists = scope & 15; nkeys = (scope >> 4) & 15; npool = (scope >> 8) & 0xfff;
    for (i = 0; i < npool; i++) { pool[i] = new_elem(i, i % nkeys);  }
    nest_reset();
    for (i = 0; i < nlists; i++) {
        cls[i] = (scope >> (20 + i)) & 1;
        memset(&L[i], 0x77, sizeof(L[i]));
        /* both documented ways of making a list: the init function and (every other time) the static initialiser */
        if (++init_toggle & 1) cstl_dlist_init(&L[i], cls_off[cls[i]]);
        else {
            if (cls[i]) L[i] = (struct cstl_dlist)CSTL_DLIST_INITIALIZER(L[i], struct elem, node2);
            else L[i] = (struct cstl_dlist)CSTL_DLIST_INITIALIZER(L[i], struct elem, node);
            VRT_COUNT("lists.made-with-initializer-macro");
        }
        Mn[i] = 0;
    }
}
static void st_destroy(void)
{
    int i;
    for (i = 0; i < npool; i++) { vrt_free(pool[i]); pool[i] = NULL; }
}

/* an element of that key whose class-c node is not linked; by default one that is on no list at all
 * is preferred, with `shared` one that already sits on a list of the other class */
static struct elem *take_free(int key, int c, int shared)
{
    int i;
    struct elem *fallback = NULL;
    for (i = 0; i < npool; i++) {
        struct elem *e = pool[i];
        if (e->where[c] >= 0 || e->key != key) continue;
        if ((e->where[!c] >= 0) == (shared != 0)) return e;
        if (!fallback) fallback = e;
    }
    return fallback;
}

/* ---- visitors ---- */
struct walkp {
    int l, n, bad;
    int stop_at, stop_val;      /* visit index at which to return stop_val (-1: never) */
    int erase_at;               /* visit index to erase (-1: none, -2: every) */
    int erased;
};
/* expected visit order of the call in progress (snapshot taken before the call) */
static struct elem *EXP[MAXE];
static unsigned char EXP_gone[MAXE];
static int EXPn;

static void snapshot(int l, int dir)
{
    int i;
    EXPn = Mn[l];
    for (i = 0; i < EXPn; i++) { EXP[i] = dir == REV ? M[l][EXPn - 1 - i] : M[l][i]; EXP_gone[i] = 0; }
}

static int visit_cb(void *e, void *p)
{
    struct walkp *w = p;
    struct elem *x = e;
    const int i = w->n;
    int r = 0;

    if (w->stop_at >= 0 && i > w->stop_at) { w->bad = 1 + i; return 98; }     /* called again after a stop */
    if (i >= EXPn || EXP[i] != x) { w->bad = 1 + i; return 99; }
    w->n++;
    if (w->stop_at == i) r = w->stop_val;
    if (w->erase_at == i || w->erase_at == -2) {
        /* the property: foreach tolerates removal (and here: destruction) of the visited element */
        cstl_dlist_erase(&L[w->l], x);
        EXP_gone[i] = 1;
        w->erased++;
        poison_free_renew(x, cls[w->l]);
        VRT_COUNT("foreach.visitor-erased-element");
    }
    return r;
}

/* recording visitor (sort): notes what it is shown, gives up beyond GOTmax */
static struct elem *GOT[MAXE + 1];
static int GOTn, GOTmax;
static int record_cb(void *e, void *p)
{
    (void)p;
    if (GOTn >= GOTmax) return 97;
    GOT[GOTn++] = e;
    return 0;
}

/* ---- read-only re-entrancy: a visitor that looks at the list it is being shown, and at another one ----
 * size, front, back, find and foreach change nothing, so a visitor may call them on any list, including the one
 * that is being walked (the all-pairs loop); the outer walk must go on as if nothing had happened.  The model is
 * not touched by these flavours, so the inner calls are checked against M[][] directly. */
struct innerp { int l, dir, n, bad, stop_at, stop_val; };
static int inner_cb(void *e, void *p)
{
    struct innerp *w = p;
    const int len = Mn[w->l];
    if (w->stop_at >= 0 && w->n > w->stop_at) { w->bad = 1 + w->n; return 96; }
    if (w->n >= len || e != (void *)(w->dir == REV ? M[w->l][len - 1 - w->n] : M[w->l][w->n])) { w->bad = 1 + w->n; return 95; }
    if (w->n++ == w->stop_at) return w->stop_val;
    return 0;
}
/* full: walk the whole list (otherwise the inner walk stops early somewhere) and try find */
static void look_at(int l, int same, int full, unsigned salt)
{
    struct cstl_dlist *dl = &L[l];
    const int len = Mn[l], dir = (int)(salt & 1);
    struct innerp w;
    int r, i;

    VRT_CHECK(cstl_dlist_size(dl) == (size_t)len, "dlist.foreach.reentrant.size", "size of list %d read inside a visitor: %zu, reference %d", l, cstl_dlist_size(dl), len);
    VRT_CHECK(cstl_dlist_front(dl) == (len ? (void *)M[l][0] : NULL), "dlist.foreach.reentrant.front", "front of list %d read inside a visitor is not the reference first (len %d)", l, len);
    VRT_CHECK(cstl_dlist_back(dl) == (len ? (void *)M[l][len - 1] : NULL), "dlist.foreach.reentrant.back", "back of list %d read inside a visitor is not the reference last (len %d)", l, len);
    memset(&w, 0, sizeof(w));
    w.l = l; w.dir = dir; w.stop_at = -1;
    if (!full && len > 0) {
        w.stop_at = (int)((salt >> 1) % (unsigned)(len < 40 ? len : 40));
        w.stop_val = vrt_stop_value(salt * 7u + 3u);
    }
    r = cstl_dlist_foreach(dl, inner_cb, &w, libdir(dir));
    VRT_CHECK(w.bad == 0, "dlist.foreach.reentrant.inner.order", "walk of list %d started inside a visitor: wrong element or visit after the stop at visit %d (len %d)", l, w.bad - 1, len);
    if (w.stop_at >= 0) {
        VRT_CHECK(w.n == w.stop_at + 1, "dlist.foreach.reentrant.inner.incomplete", "walk of list %d started inside a visitor made %d visits, the stop was due at visit %d", l, w.n, w.stop_at);
        VRT_CHECK(r == w.stop_val, "dlist.foreach.reentrant.inner.stop-value", "walk started inside a visitor returned %d, its visitor's non-zero result was %d", r, w.stop_val);
        VRT_COUNT("foreach.reentrant.inner-early-stop");
    } else {
        VRT_CHECK(w.n == len, "dlist.foreach.reentrant.inner.incomplete", "walk of list %d started inside a visitor made %d visits over %d elements", l, w.n, len);
        VRT_CHECK(r == 0, "dlist.foreach.reentrant.inner.ret", "walk started inside a visitor returned %d without a stop request", r);
        if (len >= 2) { if (same) VRT_COUNT("foreach.reentrant.inner-full-walk.same-list"); else VRT_COUNT("foreach.reentrant.inner-full-walk.other-list"); }
    }
    if (full || (len <= 40 && (salt >> 4) % 3 == 0)) {
        /* find: the first match in the chosen direction for a key of the list (or one that no element carries) */
        struct elem probe, *want = NULL;
        const int fdir = (int)((salt >> 2) & 1);
        const int key = (salt % 5 == 0 || len == 0) ? nkeys : M[l][(salt >> 3) % (unsigned)len]->key;
        void *got;
        memset(&probe, 0x5e, sizeof(probe));
        probe.magic = MAGIC; probe.id = -1; probe.key = key; probe.where[0] = probe.where[1] = -3;
        for (i = 0; i < len && !want; i++) {
            struct elem *c = fdir == REV ? M[l][len - 1 - i] : M[l][i];
            if (c->key == key) want = c;
        }
        got = cstl_dlist_find(dl, &probe, cmp_find, &find_tag, libdir(fdir));
        VRT_CHECK(got == (void *)want, "dlist.foreach.reentrant.find", "find on list %d inside a visitor returned %p, the first match in that direction is %p", l, got, (void *)want);
        VRT_COUNT("foreach.reentrant.find");
    }
}
static int nest_cb(void *e, void *p)
{
    struct walkp *w = p;
    const int i = w->n;
    const unsigned salt = (unsigned)i * 2654435761u + 40503u * vrt_case_tick();
    int full;

    if (w->stop_at >= 0 && i > w->stop_at) { w->bad = 1 + i; return 98; }     /* called again after a stop */
    if (i >= EXPn || EXP[i] != e) { w->bad = 1 + i; return 99; }
    w->n++;
    /* short lists: every third inner walk is complete (all pairs); long ones: at the first, the middle and the last visit */
    full = EXPn <= 40 ? (salt >> 7) % 3 == 0 || EXPn <= 3 : (i == 0 || i == EXPn / 2 || i == EXPn - 1);
    look_at(w->l, 1, full, salt >> 9);
    if (nlists > 1) {
        look_at((w->l + 1 + ((i & 1) && nlists > 2)) % nlists, 0, EXPn <= 40 ? (salt >> 5) % 2 == 0 : i == EXPn / 3, salt >> 11);
        VRT_COUNT("foreach.reentrant.other-list");
    }
    return w->stop_at == i ? w->stop_val : 0;
}

/* ---- audits ---- */
static void audit_cheap(int l)
{
    struct cstl_dlist *dl = &L[l];
    VRT_CHECK(cstl_dlist_size(dl) == (size_t)Mn[l], "dlist.size",
              "list %d: size %zu, reference %d", l, cstl_dlist_size(dl), Mn[l]);
    if (Mn[l] == 0) {
        VRT_CHECK(cstl_dlist_front(dl) == NULL, "dlist.front.empty", "front of empty list %d not NULL", l);
        VRT_CHECK(cstl_dlist_back(dl) == NULL, "dlist.back.empty", "back of empty list %d not NULL", l);
    } else {
        VRT_CHECK(cstl_dlist_front(dl) == M[l][0], "dlist.front", "list %d: front is not the reference first (len %d)", l, Mn[l]);
        VRT_CHECK(cstl_dlist_back(dl) == M[l][Mn[l] - 1], "dlist.back", "list %d: back is not the reference last (len %d)", l, Mn[l]);
    }
}

static void audit_list(int l)
{
    struct cstl_dlist *dl = &L[l];
    struct walkp w;
    int r, dir;

    audit_cheap(l);
    for (dir = FWD; dir <= REV; dir++) {
        memset(&w, 0, sizeof(w));
        w.l = l; w.stop_at = -1; w.erase_at = -1;
        snapshot(l, dir);
        r = cstl_dlist_foreach(dl, visit_cb, &w, libdir(dir));
        if (dir == FWD) {
            VRT_CHECK(w.bad <= Mn[l], "dlist.traversal.fwd.overlong", "list %d: FWD traversal goes on after the reference's %d elements", l, Mn[l]);
            VRT_CHECK(w.bad == 0, "dlist.traversal.fwd.mismatch", "list %d: FWD traversal differs from the reference at index %d (len %d)", l, w.bad - 1, Mn[l]);
            VRT_CHECK(w.n == Mn[l], "dlist.traversal.fwd.short", "list %d: FWD traversal yields %d elements, reference %d", l, w.n, Mn[l]);
        } else {
            VRT_CHECK(w.bad <= Mn[l], "dlist.traversal.rev.overlong", "list %d: REV traversal goes on after the reference's %d elements", l, Mn[l]);
            VRT_CHECK(w.bad == 0, "dlist.traversal.rev.mismatch", "list %d: REV traversal differs from the mirrored reference at index %d (len %d)", l, w.bad - 1, Mn[l]);
            VRT_CHECK(w.n == Mn[l], "dlist.traversal.rev.short", "list %d: REV traversal yields %d elements, reference %d", l, w.n, Mn[l]);
        }
        VRT_CHECK(r == 0, "dlist.foreach.ret", "foreach returned %d without a stop request", r);
    }
    VRT_COUNT("audit.list");
}

/* link walker over the header-visible fields (white-box extra, own keys) */
static void walk_list(int l)
{
    struct cstl_dlist *dl = &L[l];
    const struct cstl_dlist_node *n;
    int cnt;
    for (n = &dl->h, cnt = 0; cnt <= Mn[l]; cnt++) {
        VRT_CHECK(n->n != NULL && n->n->p == n, "dlist.walker.back-link", "list %d: node %d: n->n->p != n (len %d)", l, cnt, Mn[l]);
        n = n->n;
        if (n == &dl->h) break;
    }
    VRT_CHECK(n == &dl->h, "dlist.walker.ring-open", "list %d: ring does not close at the sentinel within %d links", l, Mn[l] + 1);
    VRT_CHECK(cnt == Mn[l], "dlist.walker.length", "list %d: ring has %d nodes, reference %d", l, cnt, Mn[l]);
    VRT_CHECK(dl->size == (size_t)Mn[l], "dlist.walker.size-field", "list %d: size field %zu, reference %d", l, dl->size, Mn[l]);
    VRT_CHECK(dl->off == cls_off[cls[l]], "dlist.walker.off-field", "list %d: offset field %zu, the list's node member is at %zu", l, dl->off, cls_off[cls[l]]);
    VRT_COUNT("audit.link-walk");
}
static void audit_all(int level)
{
    int l;
    /* the boundary oracle for every list first, the white-box walker afterwards */
    for (l = 0; l < nlists; l++) if (level >= 2) audit_list(l); else audit_cheap(l);
    if (level >= 2) for (l = 0; l < nlists; l++) walk_list(l);
}

/* ---- nested lists (mode "clear", C15): a list of directories each owning a list of files ----
 * Right before a clear some elements of the list (the first, the last, several, all, one) are given a private,
 * non-empty list of individually allocated sub-elements.  The outer clear callback destroys what the element
 * owns first: it clears the inner list through the library with ANOTHER callback function.  That is a clear of
 * another object of the same type running inside a clear: every outer element must still reach the outer
 * callback exactly once, every sub-element the callback of its own clear call exactly once, nothing the wrong
 * function, nothing after its callback returned, and both lists end empty and usable.  Half of the inner lists
 * keep the overwritten sub-elements until their clear has returned and verify the overwrite then (a write after
 * the callback shows without a sanitizer, a read runs into 0xa5a5.. links), the others free them at once. */
#define SMAGIC 0x5ab1e115u
#define SUBMAX 3
struct subl;
struct felem {
    uint32_t magic;
    int key;
    struct subl *owner;
    uint64_t pad0;
    struct cstl_dlist_node node;
    uint64_t pad1;
};
struct subl {
    uint32_t magic;
    int n, seen, hold, owner_id;
    struct felem *se[SUBMAX];           /* linked sub-elements (NULL once handed over) */
    struct felem *held[SUBMAX];         /* hold: handed over and overwritten, not freed yet */
    struct felem *spare;                /* for the push that proves the cleared inner list usable */
    struct cstl_dlist l;
};
static struct subl *SUB[MAXE];          /* by element id */
static int nest_on;                     /* mode "clear" */
static struct subl *cur_sub;            /* the inner list being cleared right now */
static int outer_running, inner_done, nsubs;
static struct felem *new_felem(struct subl *s, int key)
{
    struct felem *x = vrt_alloc(sizeof(*x));
    memset(x, 0x5e, sizeof(*x));
    x->magic = SMAGIC; x->key = key; x->owner = s;
    return x;
}
static void sub_attach(struct elem *e, unsigned salt)
{
    struct subl *s = vrt_alloc(sizeof(*s));
    int i;
    memset(s, 0x5e, sizeof(*s));
    s->magic = SMAGIC; s->n = 1 + (int)(salt % SUBMAX); s->seen = 0; s->hold = (salt >> 3) & 1; s->owner_id = e->id;
    VRT_OP2("dlist.nested.fill", "inner list of e%ld, %ld sub-elements", e->id, s->n);
    if (salt & 4) cstl_dlist_init(&s->l, offsetof(struct felem, node));
    else s->l = (struct cstl_dlist)CSTL_DLIST_INITIALIZER(s->l, struct felem, node);
    for (i = 0; i < SUBMAX; i++) s->se[i] = s->held[i] = NULL;
    for (i = 0; i < s->n; i++) {
        s->se[i] = new_felem(s, i);
        if ((salt >> (4 + i)) & 1) cstl_dlist_push_front(&s->l, s->se[i]); else cstl_dlist_push_back(&s->l, s->se[i]);
    }
    s->spare = new_felem(s, SUBMAX);
    SUB[e->id] = s; nsubs++;
    VRT_COUNT("nested.attached");
}
static void sub_clear_cb(void *ev, void *p)
{
    struct felem *x = ev;
    int i, k = -1;
    VRT_CHECK(cur_sub != NULL, "dlist.clear.nested.callback-outside-its-clear",
              "the callback given to the clear of an inner list was invoked while no inner clear is running");
    VRT_CHECK(p == NULL, "dlist.clear.nested.priv", "inner clear callback got priv %p", p);
    for (i = 0; i < cur_sub->n; i++) if (cur_sub->se[i] == x) k = i;
    VRT_CHECK(k >= 0, "dlist.clear.nested.foreign-element", "inner clear callback was handed something that is not a linked element of the inner list being cleared (or an element twice)");
    VRT_CHECK(x->magic == SMAGIC && x->owner == cur_sub, "dlist.clear.nested.element-damaged", "sub-element handed to the inner clear callback does not carry its owner's marks any more");
    cur_sub->se[k] = NULL;
    cur_sub->seen++;
    memset(x, 0xa5, sizeof(*x));
    if (cur_sub->hold) cur_sub->held[k] = x; else vrt_free(x);
    VRT_COUNT("clear.nested.handed-over");
}
/* the owning element is being destroyed (inside the outer clear callback): clear its list through the library */
static void sub_destroy(struct elem *e)
{
    struct subl *s = SUB[e->id], *prev = cur_sub;
    int i;
    size_t k;
    cur_sub = s; s->seen = 0;
    VRT_OP2("dlist.nested.clear", "inner list of e%ld (%ld sub-elements), from the clear callback of the outer list", e->id, s->n);
    cstl_dlist_clear(&s->l, sub_clear_cb);
    cur_sub = prev;
    VRT_CHECK(s->seen == s->n, "dlist.clear.nested.count", "inner clear handed over %d of %d sub-elements", s->seen, s->n);
    for (i = 0; i < s->n; i++) if (s->held[i] != NULL) {
        const unsigned char *b = (const unsigned char *)s->held[i];
        for (k = 0; k < sizeof(struct felem) && b[k] == 0xa5; k++) ;
        VRT_CHECK(k == sizeof(struct felem), "dlist.clear.nested.touched-after-callback", "sub-element written at byte %zu after its clear callback had returned", k);
        vrt_free(s->held[i]); s->held[i] = NULL;
        VRT_COUNT("clear.nested.overwrite-verified");
    }
    VRT_CHECK(cstl_dlist_size(&s->l) == 0 && cstl_dlist_front(&s->l) == NULL && cstl_dlist_back(&s->l) == NULL,
              "dlist.clear.nested.not-empty", "inner list after its clear: size %zu, front/back not both NULL", cstl_dlist_size(&s->l));
    /* usable like a fresh one */
    cstl_dlist_push_back(&s->l, s->spare);
    VRT_CHECK(cstl_dlist_size(&s->l) == 1 && cstl_dlist_front(&s->l) == (void *)s->spare && cstl_dlist_back(&s->l) == (void *)s->spare
              && s->l.h.n == &s->spare->node && s->l.h.p == &s->spare->node && s->spare->node.n == &s->l.h && s->spare->node.p == &s->l.h,
              "dlist.clear.nested.reuse", "push_back on the cleared inner list: size %zu, front/back/links are not the one element", cstl_dlist_size(&s->l));
    VRT_CHECK(cstl_dlist_pop_front(&s->l) == (void *)s->spare && cstl_dlist_size(&s->l) == 0, "dlist.clear.nested.reuse", "pop_front on the re-used inner list did not return its only element");
    vrt_free(s->spare);
    memset(s, 0xa5, sizeof(*s));
    vrt_free(s);
    SUB[e->id] = NULL; nsubs--;
    inner_done++;
    VRT_COUNT("clear.nested.lists-cleared");
}
static void nest_reset(void)
{
    int i;
    for (i = 0; i < npool; i++) SUB[i] = NULL;
    cur_sub = NULL; outer_running = 0; inner_done = 0; nsubs = 0;
}
/* give some elements of list l a list of their own; which ones changes from clear to clear */
static void sub_attach_some(int l)
{
    const unsigned salt = vrt_case_tick() * 2654435761u + 0x9e37u;
    const int len = Mn[l], variant = (int)((salt >> 28) % 5);
    int i, owners = 0;
    for (i = 0; i < len; i++) {
        const unsigned h = (salt ^ (unsigned)i * 40503u) * 2246822519u >> 16;
        int own;
        switch (variant) {
        case 0: own = len <= 16 || i == 0 || i == len - 1 || h % 4 == 0; break;       /* all (long lists: first, last, every fourth) */
        case 1: own = i == 0 || i == len - 1; break;                                    /* both ends */
        case 2: own = i == 0 || i == len - 1 || h % 3 == 0; break;                      /* both ends and some in between */
        case 3: own = i != 0 && i != len - 1 && h % 2 == 0; break;                      /* neither end */
        default: own = len <= 16 ? ((salt >> 8) % (unsigned)len == (unsigned)i) : h % 8 == 0; break;    /* one, anywhere */
        }
        if (!own || SUB[M[l][i]->id] != NULL) continue;
        sub_attach(M[l][i], h ^ (salt >> 7));
        owners++;
        if (i == 0) VRT_COUNT("clear.nested.first-element-owns-a-list");
        if (i == len - 1) VRT_COUNT("clear.nested.last-element-owns-a-list");
        if (i > 0 && i < len - 1) VRT_COUNT("clear.nested.inner-element-owns-a-list");
    }
    if (owners >= 2) VRT_COUNT("clear.nested.several-owners");
    if (owners > 0 && owners < len) VRT_COUNT("clear.nested.owners-and-plain-elements");
}

/* clear callback: exactly-once state machine, poison, free */
static int clear_list, clear_seen;
static void clear_cb(void *e, void *p)
{
    struct elem *x = e;
    VRT_CHECK(cur_sub == NULL, "dlist.clear.nested.wrong-callback", "the clear of an inner list invoked the callback given to the clear of the outer list");
    VRT_CHECK(outer_running, "dlist.clear.callback-outside-its-clear", "clear callback invoked while its clear is not running");
    VRT_CHECK(p == NULL, "dlist.clear.priv", "clear callback got priv %p", p);
    VRT_CHECK(x->magic == MAGIC, "dlist.clear.non-element", "clear callback for a non-element / twice");
    VRT_CHECK(x->where[cls[clear_list]] == clear_list, "dlist.clear.non-member", "clear callback for element %d which is not in list %d", x->id, clear_list);
    clear_seen++;
    if (inner_done) VRT_COUNT("clear.nested.outer-went-on-after-inner-clear");
    if (SUB[x->id] != NULL) {
        sub_destroy(x);
        VRT_OP2("dlist.clear", "l%ld (goes on after the nested clear in the callback for e%ld)", clear_list, x->id);
    }
    poison_free_renew(x, cls[clear_list]);
    VRT_COUNT("clear.handed-over");
}

static void ins_model(int l, int at, struct elem *e)
{
    memmove(&M[l][at + 1], &M[l][at], (Mn[l] - at) * sizeof(M[l][0]));
    M[l][at] = e; Mn[l]++; e->where[cls[l]] = l;
}
static struct elem *del_model(int l, int at)
{
    struct elem *e = M[l][at];
    memmove(&M[l][at], &M[l][at + 1], (Mn[l] - at - 1) * sizeof(M[l][0]));
    Mn[l]--; e->where[cls[l]] = -1;
    memset(node_of(e, cls[l]), 0x5e, sizeof(e->node));  /* an unlinked node carries nothing the library may rely on */
    return e;
}
static uint64_t keyseq_sig(int l)
{
    uint64_t h = 0xfff0 + Mn[l] + 0x10000 * cls[l];
    int i;
    for (i = 0; i < Mn[l]; i++) h = vrt_mix(h, M[l][i]->key + 1);
    return h;
}

/* audit: 0 none (prefix replay), 1 cheap (size/front/back), 2 full */
static int st_apply(uint32_t op, int audit)
{
    const int kind = OP_KIND(op), l1 = OP_L1(op), l2 = OP_L2(op), key = OP_KEY(op);
    const int pos = OP_POS(op), dir = OP_DIR(op), flav = OP_FLAV(op);
    struct elem *e, *r;
    int i, c1;

    if (l1 >= nlists) return 0;
    c1 = cls[l1];
    switch (kind) {
    case K_PUSH_FRONT:
        if (key >= nkeys || (e = take_free(key, c1, flav)) == NULL) return 0;
        vrt_state(Mn[l1] ? "nonempty" : "empty");
        VRT_OP3("dlist.push_front", "l%ld e%ld(k%ld)", l1, e->id, key);
        cstl_dlist_push_front(&L[l1], e);
        ins_model(l1, 0, e);
        if (e->where[!c1] >= 0) VRT_COUNT("op.push.element-also-on-list-of-other-offset");
        VRT_COUNT("op.push_front");
        break;
    case K_PUSH_BACK:
        if (key >= nkeys || (e = take_free(key, c1, flav)) == NULL) return 0;
        vrt_state(Mn[l1] ? "nonempty" : "empty");
        VRT_OP3("dlist.push_back", "l%ld e%ld(k%ld)", l1, e->id, key);
        cstl_dlist_push_back(&L[l1], e);
        ins_model(l1, Mn[l1], e);
        if (e->where[!c1] >= 0) VRT_COUNT("op.push.element-also-on-list-of-other-offset");
        VRT_COUNT("op.push_back");
        break;
    case K_POP_FRONT:
        vrt_state(Mn[l1] == 0 ? "empty" : Mn[l1] == 1 ? "to-empty" : "nonempty");
        VRT_OP1("dlist.pop_front", "l%ld", l1);
        r = cstl_dlist_pop_front(&L[l1]);
        if (Mn[l1] == 0) {
            VRT_CHECK(r == NULL, "dlist.pop_front.empty-not-null", "pop_front on an empty list returned %p", (void *)r);
            VRT_COUNT("op.pop_front.empty");
        } else {
            VRT_CHECK(r == M[l1][0], "dlist.pop_front.ret", "pop_front returned %p, expected the first element %p (len %d)",
                      (void *)r, (void *)M[l1][0], Mn[l1]);
            del_model(l1, 0);
            VRT_COUNT("op.pop_front");
        }
        break;
    case K_POP_BACK:
        vrt_state(Mn[l1] == 0 ? "empty" : Mn[l1] == 1 ? "to-empty" : "nonempty");
        VRT_OP1("dlist.pop_back", "l%ld", l1);
        r = cstl_dlist_pop_back(&L[l1]);
        if (Mn[l1] == 0) {
            VRT_CHECK(r == NULL, "dlist.pop_back.empty-not-null", "pop_back on an empty list returned %p", (void *)r);
            VRT_COUNT("op.pop_back.empty");
        } else {
            VRT_CHECK(r == M[l1][Mn[l1] - 1], "dlist.pop_back.ret", "pop_back returned %p, expected the last element %p (len %d)",
                      (void *)r, (void *)M[l1][Mn[l1] - 1], Mn[l1]);
            del_model(l1, Mn[l1] - 1);
            VRT_COUNT("op.pop_back");
        }
        break;
    case K_INSERT:
        /* cstl_dlist_insert(l, before, obj) links obj directly AFTER `before` */
        if (pos >= Mn[l1] || key >= nkeys || (e = take_free(key, c1, flav)) == NULL) return 0;
        vrt_state(pos == Mn[l1] - 1 ? "after-last" : pos == 0 ? "after-first" : "inner");
        VRT_OP4("dlist.insert", "l%ld after#%ld e%ld(k%ld)", l1, pos, e->id, key);
        cstl_dlist_insert(&L[l1], M[l1][pos], e);
        ins_model(l1, pos + 1, e);
        VRT_COUNT("op.insert");
        if (pos + 2 == Mn[l1]) VRT_COUNT("op.insert.after-last");
        break;
    case K_ERASE:
        if (pos >= Mn[l1]) return 0;
        vrt_state(Mn[l1] == 1 ? "only" : pos == 0 ? "first" : pos == Mn[l1] - 1 ? "last" : "inner");
        VRT_OP2("dlist.erase", "l%ld #%ld", l1, pos);
        cstl_dlist_erase(&L[l1], M[l1][pos]);
        if (Mn[l1] == 1) VRT_COUNT("op.erase.only");
        else if (pos == 0) VRT_COUNT("op.erase.first");
        else if (pos == Mn[l1] - 1) VRT_COUNT("op.erase.last");
        else VRT_COUNT("op.erase.inner");
        del_model(l1, pos);
        VRT_COUNT("op.erase");
        break;
    case K_REVERSE:
        vrt_state(Mn[l1] <= 1 ? "short" : (Mn[l1] & 1) ? "odd" : "even");
        VRT_OP2("dlist.reverse", "l%ld (len %ld)", l1, Mn[l1]);
        cstl_dlist_reverse(&L[l1]);
        if (Mn[l1] <= 1) VRT_COUNT("op.reverse.len0-1");
        else if (Mn[l1] == 2) VRT_COUNT("op.reverse.len2");
        else if (Mn[l1] & 1) VRT_COUNT("op.reverse.odd");
        else VRT_COUNT("op.reverse.even");
        for (i = 0; i < Mn[l1] / 2; i++) {
            e = M[l1][i]; M[l1][i] = M[l1][Mn[l1] - 1 - i]; M[l1][Mn[l1] - 1 - i] = e;
        }
        VRT_COUNT("op.reverse");
        break;
    case K_SORT: {
        /* ordered permutation of the same element addresses required; stability is not:
         * the model adopts the observed order after verifying it */
        vrt_state(Mn[l1] <= 1 ? "short" : "nonempty");
        VRT_OP2("dlist.sort", "l%ld (len %ld)", l1, Mn[l1]);
        if (Mn[l1] >= 2) vrt_sig(1, keyseq_sig(l1));
        cmp_budget = 64L * Mn[l1] + 64;
        cstl_dlist_sort(&L[l1], cmp_key, &sortdir[key & 1]);
        if (key & 1) VRT_COUNT("op.sort.descending");
        /* observe the new order through a FWD foreach that records instead of comparing */
        {
            struct elem **got = GOT;
            int gotn, unstable = 0, rr;
            VRT_CHECK(cstl_dlist_size(&L[l1]) == (size_t)Mn[l1], "dlist.sort.size",
                      "size %zu after sort, reference %d", cstl_dlist_size(&L[l1]), Mn[l1]);
            GOTn = 0; GOTmax = Mn[l1];
            rr = cstl_dlist_foreach(&L[l1], record_cb, NULL, CSTL_DLIST_FOREACH_DIR_FWD);
            gotn = GOTn;
            VRT_CHECK(rr == 0, "dlist.sort.length", "traversal after sort yields more than the %d elements that were in the list", Mn[l1]);
            VRT_CHECK(gotn == Mn[l1], "dlist.sort.length", "sort changed the number of linked elements: %d vs %d", gotn, Mn[l1]);
            for (i = 0; i < gotn; i++) {
                int j, known = 0;
                /* must be one of the addresses that were in the list (checked before any dereference
                 * for short lists; by the where-mark for long ones) */
                if (Mn[l1] <= 16) {
                    for (j = 0; j < Mn[l1]; j++) if (M[l1][j] == got[i]) known = 1;
                    VRT_CHECK(known, "dlist.sort.foreign-element", "element at %d after sort was not in the list", i);
                }
                VRT_CHECK(got[i]->magic == MAGIC && got[i]->where[c1] == l1, "dlist.sort.not-a-permutation",
                          "element at %d after sort is not a member / appears twice", i);
                VRT_CHECK(i == 0 || ((key & 1) ? got[i - 1]->key >= got[i]->key : got[i - 1]->key <= got[i]->key), "dlist.sort.unordered",
                          "keys out of order at %d (%s sort)", i, (key & 1) ? "descending" : "ascending");
                if (i > 0 && got[i - 1]->key == got[i]->key) {
                    /* stability is not required; just count what happens */
                    int a = -1, b = -1;
                    if (Mn[l1] <= 16) {
                        for (j = 0; j < Mn[l1]; j++) { if (M[l1][j] == got[i - 1]) a = j; if (M[l1][j] == got[i]) b = j; }
                        if (a > b) unstable = 1;
                    }
                }
                got[i]->where[c1] = -2;     /* mark seen: detects duplicates */
            }
            for (i = 0; i < gotn; i++) got[i]->where[c1] = l1;
            for (i = 0; i < Mn[l1]; i++) M[l1][i] = got[i];
            if (unstable) VRT_COUNT("op.sort.observed-unstable");
        }
        VRT_COUNT("op.sort");
        break;
    }
    case K_CONCAT:
        if (l2 >= nlists || l1 == l2) return 0;
        vrt_state(Mn[l2] == 0 ? "src-empty" : Mn[l1] == 0 ? "dst-empty" : "both");
        VRT_OP4("dlist.concat", "l%ld(len %ld) += l%ld(len %ld)", l1, Mn[l1], l2, Mn[l2]);
        cstl_dlist_concat(&L[l1], &L[l2]);
        if (cls[l1] != cls[l2]) {
            /* lists of different offset: documented (and coded) as "nothing happens"; the audit
             * below holds both lists to the unchanged model */
            VRT_COUNT("op.concat.different-offsets-noop");
            if (Mn[l2]) VRT_COUNT("op.concat.different-offsets-noop.src-nonempty");
            VRT_COUNT("op.concat");
            break;
        }
        if (Mn[l2] == 0) VRT_COUNT("op.concat.src-empty");
        else if (Mn[l1] == 0) VRT_COUNT("op.concat.dst-empty");
        else VRT_COUNT("op.concat.both-nonempty");
        for (i = 0; i < Mn[l2]; i++) { M[l1][Mn[l1] + i] = M[l2][i]; M[l2][i]->where[c1] = l1; }
        Mn[l1] += Mn[l2]; Mn[l2] = 0;
        VRT_COUNT("op.concat");
        break;
    case K_SWAP: {
        static struct elem *tmp[MAXE];
        int tn;
        if (l2 >= nlists || l1 == l2) return 0;
        vrt_state(Mn[l1] == 0 && Mn[l2] == 0 ? "both-empty" : Mn[l1] == 0 || Mn[l2] == 0 ? "one-empty" : "both");
        VRT_OP4("dlist.swap", "l%ld(len %ld) <-> l%ld(len %ld)", l1, Mn[l1], l2, Mn[l2]);
        cstl_dlist_swap(&L[l1], &L[l2]);
        if (Mn[l1] == 0 && Mn[l2] == 0) VRT_COUNT("op.swap.both-empty");
        else if (Mn[l1] == 0 || Mn[l2] == 0) VRT_COUNT("op.swap.one-empty");
        else VRT_COUNT("op.swap.both-nonempty");
        tn = Mn[l1];
        memcpy(tmp, M[l1], tn * sizeof(tmp[0]));
        memcpy(M[l1], M[l2], Mn[l2] * sizeof(tmp[0]));
        memcpy(M[l2], tmp, tn * sizeof(tmp[0]));
        Mn[l1] = Mn[l2]; Mn[l2] = tn;
        /* the lists trade places completely: the node member they link through goes with the contents */
        if (cls[l1] != cls[l2]) {
            VRT_COUNT("op.swap.different-offsets");
            if (Mn[l1] || Mn[l2]) VRT_COUNT("op.swap.different-offsets.nonempty");
            tn = cls[l1]; cls[l1] = cls[l2]; cls[l2] = tn;
        }
        for (i = 0; i < Mn[l1]; i++) M[l1][i]->where[cls[l1]] = l1;
        for (i = 0; i < Mn[l2]; i++) M[l2][i]->where[cls[l2]] = l2;
        VRT_COUNT("op.swap");
        break;
    }
    case K_FIND: {
        /* key == nkeys is a key no element carries */
        struct elem *probe, *want = NULL, *other = NULL;
        int nmatch = 0;
        if (key > nkeys) return 0;
        for (i = 0; i < Mn[l1]; i++) {
            struct elem *c = dir == REV ? M[l1][Mn[l1] - 1 - i] : M[l1][i];
            if (c->key == key) { if (!want) want = c; other = c; nmatch++; }
        }
        probe = new_elem(-1, key);
        probe->where[0] = probe->where[1] = -3;
        vrt_state(nmatch == 0 ? "absent" : nmatch == 1 ? "unique" : "duplicates");
        VRT_OP3("dlist.find", "l%ld k%ld dir%ld", l1, key, dir);
        r = cstl_dlist_find(&L[l1], probe, cmp_find, &find_tag, libdir(dir));
        vrt_free(probe);
        if (want == NULL) {
            VRT_CHECK(r == NULL, "dlist.find.absent-not-null", "find of a key that is not in the list returned %p", (void *)r);
            VRT_COUNT("op.find.absent");
        } else if (dir == FWD) {
            VRT_CHECK(r == want, "dlist.find.fwd.not-first", "FWD find returned %p, the first match from the front is %p (%d matches)",
                      (void *)r, (void *)want, nmatch);
            if (other != want) VRT_COUNT("op.find.fwd.duplicates"); else VRT_COUNT("op.find.fwd.unique");
        } else {
            VRT_CHECK(r == want, "dlist.find.rev.not-first", "REV find returned %p, the first match from the back is %p (%d matches)",
                      (void *)r, (void *)want, nmatch);
            if (other != want) VRT_COUNT("op.find.rev.duplicates"); else VRT_COUNT("op.find.rev.unique");
        }
        VRT_COUNT("op.find");
        break;
    }
    case K_FOREACH: {
        struct walkp w;
        int rr, nmodel;
        const int re = flav == FE_NEST || flav == FE_NEST_STOP;
        memset(&w, 0, sizeof(w));
        w.l = l1; w.stop_at = -1; w.erase_at = -1;
        switch (flav) {
        case FE_PLAIN: break;
        case FE_STOP: if (pos >= Mn[l1]) return 0; w.stop_at = pos; break;
        case FE_ERASE_ONE: if (pos >= Mn[l1]) return 0; w.erase_at = pos; break;
        case FE_ERASE_ALL: if (Mn[l1] == 0) return 0; w.erase_at = -2; break;
        case FE_ERASE_STOP: if (pos >= Mn[l1]) return 0; w.erase_at = pos; w.stop_at = pos; break;
        case FE_NEST: if (pos != 0) return 0; break;
        case FE_NEST_STOP: if (pos == POS_LAST ? Mn[l1] < 3 : pos >= Mn[l1]) return 0; w.stop_at = pos == POS_LAST ? Mn[l1] - 1 : pos; break;
        default: return 0;
        }
        /* chosen non-zero stop values of both signs */
        w.stop_val = vrt_stop_value((unsigned)pos * 31u + 5u * vrt_case_tick());
        snapshot(l1, dir);
        vrt_state(flav == FE_PLAIN ? "plain" : flav == FE_STOP ? "early-stop" :
                  flav == FE_ERASE_ONE ? "visitor-erases-one" : flav == FE_ERASE_ALL ? "visitor-erases-all" :
                  flav == FE_ERASE_STOP ? "visitor-erases-and-stops" : flav == FE_NEST ? "visitor-reads-the-lists" : "visitor-reads-the-lists-and-stops");
        VRT_OP4("dlist.foreach", "l%ld dir%ld flavour%ld @%ld", l1, dir, flav, pos);
        rr = cstl_dlist_foreach(&L[l1], re ? nest_cb : visit_cb, &w, libdir(dir));
        VRT_CHECK(!(w.bad && w.stop_at >= 0 && w.bad - 1 > w.stop_at), re ? "dlist.foreach.reentrant.continued-after-stop" : "dlist.foreach.continued-after-stop",
                  "visitor returned %d at visit %d but was called again", w.stop_val, w.stop_at);
        VRT_CHECK(w.bad == 0, re ? "dlist.foreach.reentrant.order" : dir == FWD ? "dlist.foreach.fwd.order" : "dlist.foreach.rev.order",
                  "foreach visited a wrong element at visit %d (%d removed by the visitor so far)", w.bad - 1, w.erased);
        if (w.stop_at >= 0) {
            VRT_CHECK(w.n == w.stop_at + 1, re ? "dlist.foreach.reentrant.incomplete" : "dlist.foreach.incomplete", "foreach made %d visits, the stop was due at visit %d", w.n, w.stop_at);
            VRT_CHECK(rr == w.stop_val, re ? "dlist.foreach.reentrant.stop-value" : "dlist.foreach.stop-value", "foreach returned %d, the visitor's non-zero result was %d", rr, w.stop_val);
            VRT_COUNT("op.foreach.early-stop");
            if (w.stop_val < 0) VRT_COUNT("op.foreach.early-stop.negative-value");
        } else {
            VRT_CHECK(w.n == EXPn, re ? "dlist.foreach.reentrant.incomplete" : "dlist.foreach.incomplete", "foreach made %d visits over %d elements (%d removed by the visitor)", w.n, EXPn, w.erased);
            VRT_CHECK(rr == 0, re ? "dlist.foreach.reentrant.ret" : "dlist.foreach.ret", "foreach returned %d without a stop request", rr);
        }
        if (re && EXPn >= 2) {
            /* the visitor called size/front/back/find and walked the same list (and another) at every visit */
            VRT_COUNT("op.foreach.reentrant");
            if (w.stop_at >= 0) VRT_COUNT("op.foreach.reentrant.outer-stop");
        }
        if (w.erased) {
            /* rebuild the model from the snapshot minus what the visitor removed */
            nmodel = 0;
            for (i = 0; i < EXPn; i++) {
                const int j = dir == REV ? EXPn - 1 - i : i;
                if (!EXP_gone[j]) M[l1][nmodel++] = EXP[j];
            }
            Mn[l1] = nmodel;
            if (flav == FE_ERASE_ONE) VRT_COUNT("op.foreach.erase-one");
            if (flav == FE_ERASE_ALL) VRT_COUNT("op.foreach.erase-all");
            if (flav == FE_ERASE_STOP) VRT_COUNT("op.foreach.erase-and-stop");
            if (w.erase_at == EXPn - 1 || w.erase_at == -2) VRT_COUNT("op.foreach.erase-last-visited");
        }
        if (dir == FWD) VRT_COUNT("op.foreach.fwd"); else VRT_COUNT("op.foreach.rev");
        VRT_COUNT("op.foreach");
        break;
    }
    case K_CLEAR:
        vrt_state(Mn[l1] == 0 ? "empty" : "nonempty");
        VRT_OP2("dlist.clear", "l%ld (len %ld)", l1, Mn[l1]);
        if (nest_on && Mn[l1] > 0) { sub_attach_some(l1); VRT_OP2("dlist.clear", "l%ld (len %ld)", l1, Mn[l1]); }
        clear_list = l1; clear_seen = 0; outer_running = 1; inner_done = 0;
        if (vrt_case_tick() & 1) cstl_dlist_clear(&L[l1], clear_cb); else VRT_NOMEM(cstl_dlist_clear(&L[l1], clear_cb));     /* clear has no way to fail: also with an allocator that refuses everything */
        outer_running = 0;
        VRT_CHECK(clear_seen == Mn[l1], "dlist.clear.count", "clear handed over %d of %d elements", clear_seen, Mn[l1]);
        VRT_CHECK(nsubs == 0, "dlist.clear.nested.owner-not-handed-over", "%d elements that own a list were not handed to the clear callback", nsubs);
        if (inner_done) VRT_COUNT("op.clear.with-nested-clears");
        if (Mn[l1]) VRT_COUNT("op.clear.nonempty");
        Mn[l1] = 0;
        VRT_COUNT("op.clear");
        break;
    default:
        return 0;
    }
    if (audit) audit_all(audit);
    return 1;
}
static int st_apply_vex(uint32_t op, int audit) { return st_apply(op, audit ? 2 : 0); }

static uint64_t st_sig(void)
{
    uint64_t h = 0x1212 + nlists;
    int l;
    for (l = 0; l < nlists; l++) h = vrt_mix(h, keyseq_sig(l));
    return h;
}
static int st_nontrivial(void)
{
    int l, n = 0;
    for (l = 0; l < nlists; l++) n += Mn[l];
    return n >= 2;
}

/* probe (mode "clear", C15): clear every list of a replica of every reachable
 * state, then re-use the lists under the model */
static void st_probe(int pi)
{
    int l, i, any = 0;
    (void)pi;
    for (l = 0; l < nlists; l++) any += Mn[l];
    for (l = 0; l < nlists; l++) st_apply(OP(K_CLEAR, l, 0, 0, 0, 0, 0), 2);
    /* all elements were handed over: the lists must behave like fresh ones */
    for (l = 0; l < nlists; l++) {
        st_apply(OP(K_POP_FRONT, l, 0, 0, 0, 0, 0), 2);
        st_apply(OP(K_POP_BACK, l, 0, 0, 0, 0, 0), 2);
        for (i = 0; i < 3; i++) st_apply(OP(K_PUSH_BACK, l, 0, i % nkeys, 0, 0, 0), 2);
        st_apply(OP(K_PUSH_FRONT, l, 0, 0, 0, 0, 0), 2);
        st_apply(OP(K_INSERT, l, 0, 0, 0, 0, 1), 2);
        st_apply(OP(K_POP_FRONT, l, 0, 0, 0, 0, 0), 2);
        st_apply(OP(K_ERASE, l, 0, 0, 0, 0, 1), 2);
        st_apply(OP(K_POP_BACK, l, 0, 0, 0, 0, 0), 2);
        st_apply(OP(K_REVERSE, l, 0, 0, 0, 0, 0), 2);
        st_apply(OP(K_CLEAR, l, 0, 0, 0, 0, 0), 2);
        st_apply(OP(K_PUSH_BACK, l, 0, 0, 0, 0, 0), 2);
    }
    if (any) VRT_COUNT("probe.clear-nonempty-state");
    VRT_COUNT("probe.clear-then-reuse");
}

static struct vex model = { st_create, st_destroy, st_apply_vex, st_sig, st_nontrivial, 0, NULL };

/* ---- closure scopes ---- */
/* cm: bit l set = list l links through node2 (offset class 1) */
struct cscope { int nl, nk, np, cm; uint64_t max_states; int max_depth; };
/* measured (dbg-asan, one worker each): quick scopes <= ~4 s, thorough scopes <= ~40 s */
static const struct cscope small_scopes[] = {       /* mode "clear", quick tier */
    { 1, 1, 8, 0, 400000, 40 },
    { 1, 2, 6, 1, 400000, 40 },
    { 1, 3, 6, 0, 400000, 40 },
    { 2, 1, 6, 0, 400000, 40 },
    { 2, 2, 5, 0, 400000, 40 },
    { 2, 2, 4, 2, 400000, 40 },
    { 3, 1, 5, 0, 400000, 40 },
    { 3, 2, 4, 0, 400000, 40 },
    { 3, 1, 4, 4, 400000, 40 },
};
static const struct cscope quick_scopes[] = {       /* also mode "clear", thorough tier */
    { 1, 1, 12, 0, 1000000, 60 },       /* one list, lengths 0..12, structure only */
    { 1, 2, 12, 1, 1000000, 60 },       /* + key values (sort, find with duplicates); node2 */
    { 1, 3, 9, 0, 1000000, 60 },
    { 1, 4, 7, 1, 1000000, 60 },
    { 1, 5, 7, 0, 1000000, 60 },
    { 2, 1, 10, 0, 1000000, 60 },       /* two lists: concat / swap incl. empty ones */
    { 2, 2, 8, 0, 1000000, 60 },
    { 2, 3, 7, 3, 1000000, 60 },
    { 2, 4, 6, 0, 1000000, 60 },
    { 3, 1, 8, 0, 1000000, 60 },
    { 3, 2, 7, 0, 1000000, 60 },
    { 3, 3, 5, 7, 1000000, 60 },
    /* lists of different offset over the same elements: swap trades offsets, concat is a no-op */
    { 2, 1, 8, 2, 1000000, 60 },
    { 2, 2, 5, 1, 1000000, 60 },
    { 2, 3, 4, 2, 1000000, 60 },
    { 3, 1, 6, 2, 1000000, 60 },
    { 3, 1, 6, 6, 1000000, 60 },
    { 3, 2, 4, 4, 1000000, 60 },
};
static const struct cscope thorough_scopes[] = {
    { 1, 1, 16, 0, 8000000, 80 },
    { 1, 2, 13, 1, 8000000, 80 },
    { 1, 3, 10, 0, 8000000, 80 },
    { 1, 4, 9, 1, 8000000, 80 },
    { 1, 5, 8, 0, 8000000, 80 },
    { 1, 6, 7, 1, 8000000, 80 },
    { 2, 1, 12, 0, 8000000, 80 },
    { 2, 2, 10, 0, 8000000, 80 },
    { 2, 3, 8, 3, 8000000, 80 },
    { 2, 4, 7, 0, 8000000, 80 },
    { 3, 1, 10, 0, 8000000, 80 },
    { 3, 2, 8, 0, 8000000, 80 },
    { 3, 3, 6, 7, 8000000, 80 },
    { 3, 4, 6, 0, 8000000, 80 },
    { 2, 1, 10, 2, 8000000, 80 },
    { 2, 2, 6, 1, 8000000, 80 },
    { 2, 3, 5, 2, 8000000, 80 },
    { 3, 1, 8, 2, 8000000, 80 },
    { 3, 1, 7, 6, 8000000, 80 },
    { 3, 2, 5, 4, 8000000, 80 },
    { 3, 2, 5, 3, 8000000, 80 },
};
#define NSCOPES(a) ((int)(sizeof(a) / sizeof((a)[0])))
static const struct cscope *scopes;
static int nscopes;
static int is_clear_mode;

#define MAXALPHA 1024
static int build_alphabet(const struct cscope *s, uint32_t *al)
{
    int n = 0, l, l2, k, p, d, f;
    for (l = 0; l < s->nl; l++) {
        for (k = 0; k < s->nk; k++) {
            al[n++] = OP(K_PUSH_FRONT, l, 0, k, 0, 0, 0);
            al[n++] = OP(K_PUSH_BACK, l, 0, k, 0, 0, 0);
            for (p = 0; p < s->np; p++) al[n++] = OP(K_INSERT, l, 0, k, 0, 0, p);
        }
        for (p = 0; p < s->np; p++) al[n++] = OP(K_ERASE, l, 0, 0, 0, 0, p);
        al[n++] = OP(K_POP_FRONT, l, 0, 0, 0, 0, 0);
        al[n++] = OP(K_POP_BACK, l, 0, 0, 0, 0, 0);
        al[n++] = OP(K_REVERSE, l, 0, 0, 0, 0, 0);
        al[n++] = OP(K_SORT, l, 0, 0, 0, 0, 0);
        al[n++] = OP(K_SORT, l, 0, 1, 0, 0, 0);
        al[n++] = OP(K_CLEAR, l, 0, 0, 0, 0, 0);
        for (d = FWD; d <= REV; d++) {
            for (k = 0; k <= s->nk; k++) al[n++] = OP(K_FIND, l, 0, k, d, 0, 0);
            al[n++] = OP(K_FOREACH, l, 0, 0, d, FE_PLAIN, 0);
            al[n++] = OP(K_FOREACH, l, 0, 0, d, FE_ERASE_ALL, 0);
            al[n++] = OP(K_FOREACH, l, 0, 0, d, FE_NEST, 0);
            /* outer stop at the first, the second and the last visit */
            al[n++] = OP(K_FOREACH, l, 0, 0, d, FE_NEST_STOP, 0);
            al[n++] = OP(K_FOREACH, l, 0, 0, d, FE_NEST_STOP, 1);
            al[n++] = OP(K_FOREACH, l, 0, 0, d, FE_NEST_STOP, POS_LAST);
            for (f = FE_STOP; f <= FE_ERASE_STOP; f++) {
                if (f == FE_ERASE_ALL) continue;
                for (p = 0; p < s->np; p++) al[n++] = OP(K_FOREACH, l, 0, 0, d, f, p);
            }
        }
        for (l2 = 0; l2 < s->nl; l2++) if (l2 != l) {
            al[n++] = OP(K_CONCAT, l, l2, 0, 0, 0, 0);
            if (l < l2) al[n++] = OP(K_SWAP, l, l2, 0, 0, 0, 0);
        }
    }
    return n;
}

static void run_closure(int ci)
{
    const struct cscope *s = &scopes[ci];
    static uint32_t al[MAXALPHA];
    int n = build_alphabet(s, al);
    struct vex_result r;
    vrt_case_note("closure nlists=%d keys=%d pool=%d node2-lists=0x%x alphabet=%d%s", s->nl, s->nk, s->np, s->cm, n,
                  is_clear_mode ? " +clear probe in every state" : "");
    model.nprobes = is_clear_mode ? 1 : 0;
    model.probe = st_probe;
    vex_closure(&model, SCOPE(s->nl, s->nk, s->np, s->cm), al, n, s->max_states, s->max_depth, &r);
    VRT_COUNT_N("closure.states", r.states);
    VRT_COUNT_N("closure.transitions", r.transitions);
    VRT_COUNT_N("closure.replayed-ops", r.applied);
    VRT_COUNT_N("closure.probes", r.probes);
    VRT_MAX("max.closure.depth", r.maxdepth);
    if (r.closed) VRT_COUNT("closure.scopes-closed"); else VRT_COUNT("closure.scopes-capped");
}

/* ---- random histories ---- */
static void run_random(uint64_t idx)
{
    vrt_rng g;
    int nl, nk, np, cm, nops, i, bias = 0, maxlen = 0;
    vrt_rng_seed(&g, vrt_seed, 0xC12000 + idx);
    nl = 1 + vrt_below(&g, 3);
    nk = 1 + vrt_below(&g, 6);
    np = (idx % 8 == 0) ? 400 + vrt_below(&g, 112) : (idx % 8 == 4) ? 60 + vrt_below(&g, 100) : 4 + vrt_below(&g, 40);
    /* half of the histories: every list links through `node`; the others: a random assignment of
     * node / node2 per list (incl. all-node2), elements shared between lists of different offset */
    cm = vrt_chance(&g, 1, 2) ? 0 : 1 + (int)vrt_below(&g, (1u << nl) - 1);
    nops = vrt_thorough ? 8000 : 3000;
    vrt_case_note("random nlists=%d keys=%d pool=%d node2-lists=0x%x ops=%d", nl, nk, np, cm, nops);
    st_create(SCOPE(nl, nk, np, cm));
    for (i = 0; i < nops; i++) {
        uint32_t op;
        int l = vrt_below(&g, nl), l2 = vrt_below(&g, nl), k = vrt_below(&g, nk);
        int len = Mn[l], r = vrt_below(&g, 1000), d = vrt_below(&g, 2), sh = vrt_chance(&g, 1, 3);
        /* full both-direction audit + link walk after every call (a corrupted list must not be
         * handed back to the library: it may never return from it) */
        const int audit = 2;
        int anypos = len ? (vrt_chance(&g, 1, 4) ? len - 1 : vrt_chance(&g, 1, 4) ? 0 : (int)vrt_below(&g, len)) : 0;
        if (i % 256 == 0) bias = vrt_below(&g, 3);        /* 0 balanced, 1 fill, 2 drain */
        if (bias == 1 && r >= 400 && r < 660) r = vrt_below(&g, 400);
        if (bias == 2 && r < 300) r = 400 + vrt_below(&g, 260);
        if (r < 100) op = OP(K_PUSH_FRONT, l, 0, k, 0, sh, 0);
        else if (r < 230) op = OP(K_PUSH_BACK, l, 0, k, 0, sh, 0);
        else if (r < 400) op = OP(K_INSERT, l, 0, k, 0, sh, anypos);
        else if (r < 500) op = OP(K_ERASE, l, 0, 0, 0, 0, anypos);
        else if (r < 580) op = OP(K_POP_FRONT, l, 0, 0, 0, 0, 0);
        else if (r < 660) op = OP(K_POP_BACK, l, 0, 0, 0, 0, 0);
        else if (r < 710) op = OP(K_REVERSE, l, 0, 0, 0, 0, 0);
        else if (r < 760) {
            /* the elements belong to the caller: a key may change while the element is linked; the next sort must see it */
            if (len > 0 && vrt_chance(&g, 1, 3)) {
                struct elem *x = M[l][vrt_below(&g, len)];
                x->key = (x->key + 1 + (nk > 1 ? (int)vrt_below(&g, nk - 1) : 0)) % nk;
                VRT_COUNT("op.key-changed-while-linked");
            }
            op = OP(K_SORT, l, 0, vrt_below(&g, 2), 0, 0, 0);
        }
        else if (r < 800) op = OP(K_CONCAT, l, l2, 0, 0, 0, 0);
        else if (r < 850) op = OP(K_SWAP, l, l2, 0, 0, 0, 0);
        else if (r < 910) op = OP(K_FIND, l, 0, vrt_below(&g, nk + 1), d, 0, 0);
        else if (r < 924) op = OP(K_FOREACH, l, 0, 0, d, FE_PLAIN, 0);
        else if (r < 930) op = OP(K_FOREACH, l, 0, 0, d, FE_NEST, 0);
        else if (r < 945) op = OP(K_FOREACH, l, 0, 0, d, FE_STOP, anypos);
        else if (r < 950) op = OP(K_FOREACH, l, 0, 0, d, FE_NEST_STOP, anypos);
        else if (r < 975) op = OP(K_FOREACH, l, 0, 0, d, FE_ERASE_ONE, anypos);
        else if (r < 985) op = OP(K_FOREACH, l, 0, 0, d, FE_ERASE_STOP, anypos);
        else if (r < 990) op = OP(K_FOREACH, l, 0, 0, d, FE_ERASE_ALL, 0);
        else op = OP(K_CLEAR, l, 0, 0, 0, 0, 0);
        st_apply(op, audit);
        if (Mn[l] > maxlen) maxlen = Mn[l];
    }
    audit_all(2);
    VRT_MAX("max.random.list-length", maxlen);
    vrt_sig(0, vrt_mix(st_sig(), idx));
    /* drain through clear so that nothing is left linked */
    for (i = 0; i < nl; i++) st_apply(OP(K_CLEAR, i, 0, 0, 0, 0, 0), 2);
    st_destroy();
    VRT_COUNT("random.histories");
}

/* lists far longer than 2^16 elements: counters, sort, reverse and both link directions must not depend on the length */
#define BIGL 70000
static int big_cmp(const void *a, const void *b, void *p)
{
    (void)p;
    return (*(const int *)a > *(const int *)b) - (*(const int *)a < *(const int *)b);
}
static int big_count_visit(void *e, void *p) { (void)e; ++*(size_t *)p; return 0; }
static void run_big(uint64_t which)
{
    struct belem { int key; int seq; struct cstl_dlist_node n; } *E = vrt_alloc(sizeof(*E) * BIGL);
    struct cstl_dlist a, b;
    vrt_rng g;
    size_t i, n;
    const struct cstl_dlist_node *p;
    void *e;
    int last;
    vrt_rng_seed(&g, vrt_seed, 0xC12B16 + which);
    vrt_case_note("big: %d elements, push/concat/sort/reverse/foreach both ways/pop", BIGL);
    cstl_dlist_init(&a, offsetof(struct belem, n)); cstl_dlist_init(&b, offsetof(struct belem, n));
    VRT_OP1("dlist.push_back", "%ld elements into two lists", BIGL);
    for (i = 0; i < BIGL; i++) {
        E[i].key = (int)vrt_below(&g, which ? 5 : 1000000); E[i].seq = (int)i;
        if (i < BIGL / 2) cstl_dlist_push_back(&a, &E[i]); else cstl_dlist_push_front(&b, &E[BIGL - 1 - (i - BIGL / 2)]);
    }
    /* b was filled front-first with the upper half in descending index order: it reads BIGL/2 .. BIGL-1 */
    for (i = BIGL / 2; i < BIGL; i++) E[i].seq = (int)i;
    VRT_CHECK(cstl_dlist_size(&a) + cstl_dlist_size(&b) == BIGL, "dlist.big.size", "sizes %zu + %zu", cstl_dlist_size(&a), cstl_dlist_size(&b));
    VRT_OP0("dlist.concat", "two halves");
    cstl_dlist_concat(&a, &b);
    VRT_CHECK(cstl_dlist_size(&a) == BIGL && cstl_dlist_size(&b) == 0, "dlist.big.concat.size", "size %zu after concat", cstl_dlist_size(&a));
    for (p = a.h.n, n = 0; p != &a.h && n <= BIGL; p = p->n, n++)
        VRT_CHECK(p == &E[n].n && p->n->p == p, "dlist.big.concat.order", "element %zu out of place or back link wrong after concat", n);
    VRT_CHECK(n == BIGL, "dlist.big.concat.length", "%zu elements linked", n);
    n = 0;
    VRT_OP0("dlist.foreach", "REV count");
    cstl_dlist_foreach(&a, big_count_visit, &n, CSTL_DLIST_FOREACH_DIR_REV);
    VRT_CHECK(n == BIGL, "dlist.big.foreach.rev.count", "reverse foreach visited %zu", n);
    VRT_OP0("dlist.sort", "big");
    cstl_dlist_sort(&a, big_cmp, NULL);
    for (p = a.h.n, n = 0, last = -1; p != &a.h && n <= BIGL; p = p->n, n++) {
        const struct belem *x = (const struct belem *)((const char *)p - offsetof(struct belem, n));
        VRT_CHECK(x >= E && x < E + BIGL && p->n->p == p, "dlist.big.sort.links", "foreign node or broken back link after sort");
        VRT_CHECK(x->key >= last, "dlist.big.sort.order", "keys out of order at %zu", n);
        last = x->key;
    }
    VRT_CHECK(n == BIGL && cstl_dlist_size(&a) == BIGL, "dlist.big.sort.length", "%zu elements linked, size %zu", n, cstl_dlist_size(&a));
    VRT_OP0("dlist.reverse", "big");
    cstl_dlist_reverse(&a);
    last = 0x7fffffff; n = 0;
    VRT_OP0("dlist.pop", "drain from both ends");
    while ((e = (n & 1) ? cstl_dlist_pop_back(&a) : cstl_dlist_pop_front(&a)) != NULL) {
        n++;
        VRT_CHECK(n <= BIGL, "dlist.big.drain.overlong", "more elements popped than were pushed");
        if (!(n & 1)) continue;            /* elements popped from the front must descend */
        VRT_CHECK(((struct belem *)e)->key <= last, "dlist.big.reverse.order", "keys not descending from the front after reverse");
        last = ((struct belem *)e)->key;
    }
    VRT_CHECK(n == BIGL && cstl_dlist_size(&a) == 0, "dlist.big.drain.count", "%zu elements popped", n);
    cstl_dlist_push_back(&a, &E[0]); cstl_dlist_push_front(&a, &E[1]);
    VRT_CHECK(cstl_dlist_back(&a) == &E[0] && cstl_dlist_front(&a) == &E[1], "dlist.big.reuse", "pushes after the drain landed in the wrong place");
    vrt_free(E);
    VRT_COUNT("big.cases");
    vrt_sig(0, 0xb16 + which);
}
/* ---- sort inputs with run structure ----
 * What a natural / bottom-up merge sort with a fixed-size stack of pending runs keys on: the number of maximal
 * ascending (or descending) runs, the sequence of their lengths, and whether the comparator's order agrees with
 * them.  A few cheap big lists per shape; the oracle is the one of K_SORT (ordered permutation of the same
 * elements seen by a FWD foreach, REV foreach is its mirror, links and size consistent).  In every second case the
 * comparator now and then sorts ANOTHER (small) list with another comparison function and another priv: sorts of
 * distinct lists know nothing of each other. */
struct relem { int key; unsigned mark; uint64_t pad; struct cstl_dlist_node n; };
struct selem { uint64_t pad[3]; struct cstl_dlist_node n; int key; };
#define NSIDE 11
static struct selem SIDE[NSIDE];
static struct cstl_dlist side_list;
static int side_tag;
static struct runs_ctx {
    int dir;                    /* +1 ascending, -1 descending */
    struct relem *E; size_t n;  /* the elements that may be compared */
    long budget;
    unsigned long calls, nested;
    int nest, in_nested;
} RC;
static struct relem **RORD;     /* order seen by the FWD traversal */
static size_t RLn;              /* number of elements linked */

static int side_cmp(const void *a, const void *b, void *p)
{
    const struct selem *x = a, *y = b;
    VRT_CHECK(p == (void *)&side_tag, "dlist.sort.nested.cmp-priv", "comparison function of the sort started inside a comparator called with wrong priv %p", p);
    VRT_CHECK(x >= SIDE && x < SIDE + NSIDE && y >= SIDE && y < SIDE + NSIDE, "dlist.sort.nested.cmp-foreign-element",
              "comparison function of the sort started inside a comparator called with elements of another list");
    VRT_CHECK(RC.in_nested, "dlist.sort.nested.cmp-after-return", "comparison function of the inner sort called after that sort had returned");
    return (x->key < y->key) - (x->key > y->key);       /* descending */
}
static void nested_sort(struct runs_ctx *c)
{
    const struct cstl_dlist_node *q;
    int i, last = 0x7fffffff;
    for (i = 0; i < NSIDE; i++) SIDE[i].key = (int)((c->calls / 7 + (unsigned)i * 5u) % 13u);
    c->in_nested = 1;
    cstl_dlist_sort(&side_list, side_cmp, &side_tag);
    c->in_nested = 0;
    for (q = side_list.h.n, i = 0; q != &side_list.h && i <= NSIDE; q = q->n, i++) {
        const struct selem *x = (const struct selem *)((const char *)q - offsetof(struct selem, n));
        VRT_CHECK(x >= SIDE && x < SIDE + NSIDE && q->n->p == q, "dlist.sort.nested.links", "foreign node or broken back link in the list sorted inside a comparator");
        VRT_CHECK(x->key <= last, "dlist.sort.nested.unordered", "list sorted inside a comparator is out of order at %d", i);
        last = x->key;
    }
    VRT_CHECK(i == NSIDE && cstl_dlist_size(&side_list) == NSIDE, "dlist.sort.nested.length", "list sorted inside a comparator has %d elements linked, size %zu", i, cstl_dlist_size(&side_list));
    c->nested++;
}
static int runs_is_elem(const void *e)
{
    const char *c = e, *b = (const char *)RC.E;
    return c >= b && c < b + RC.n * sizeof(struct relem) && (size_t)(c - b) % sizeof(struct relem) == 0;
}
static int runs_cmp(const void *a, const void *b, void *p)
{
    struct runs_ctx *c = &RC;
    const struct relem *x = a, *y = b;
    int r;
    VRT_CHECK(p == (void *)&RC, "dlist.sort.cmp-priv", "comparison called with wrong priv %p", p);
    VRT_CHECK(!c->in_nested && runs_is_elem(a) && runs_is_elem(b), "dlist.sort.cmp-non-element", "comparison called with a non-element");
    VRT_CHECK(c->budget-- > 0, "dlist.sort.runaway", "sort made more than 64*n+64 comparisons");
    c->calls++;
    if (c->nest && (c->calls & 511) == 257) nested_sort(c);
    r = (x->key > y->key) - (x->key < y->key);
    if (c->dir < 0) r = -r;
    return (c->calls & 7) == 3 ? vrt_cmp_result(r, (unsigned)c->calls) : r * (int)(1 + c->calls % 997);
}
struct rwalk { size_t n; int bad, dir, last; unsigned stamp; };
static int runs_fwd_cb(void *e, void *p)
{
    struct rwalk *w = p;
    struct relem *x = e;
    if (w->n >= RLn) { w->bad = 1; return 91; }
    if (!runs_is_elem(e)) { w->bad = 2; return 92; }
    if (x->mark == w->stamp) { w->bad = 3; return 93; }
    x->mark = w->stamp;
    if (w->n > 0 && (w->dir > 0 ? x->key < w->last : x->key > w->last)) { w->bad = 4; return 94; }
    w->last = x->key;
    RORD[w->n++] = x;
    return 0;
}
static int runs_rev_cb(void *e, void *p)
{
    struct rwalk *w = p;
    if (w->n >= RLn || (void *)RORD[RLn - 1 - w->n] != e) { w->bad = 1; return 91; }
    w->n++;
    return 0;
}
static void runs_sort_and_check(struct cstl_dlist *a, int dir, unsigned stamp)
{
    struct rwalk w;
    const struct cstl_dlist_node *q;
    size_t n;
    int r;
    RC.dir = dir; RC.budget = 64L * (long)RLn + 64; RC.in_nested = 0;
    vrt_state(dir > 0 ? "runs-ascending-order" : "runs-descending-order");
    VRT_OP2("dlist.sort", "%ld elements with run structure, direction %ld", RLn, dir);
    cstl_dlist_sort(a, runs_cmp, &RC);
    VRT_CHECK(cstl_dlist_size(a) == RLn, "dlist.sort.runs.size", "size %zu after sort of %zu elements", cstl_dlist_size(a), RLn);
    memset(&w, 0, sizeof(w)); w.dir = dir; w.stamp = stamp;
    r = cstl_dlist_foreach(a, runs_fwd_cb, &w, CSTL_DLIST_FOREACH_DIR_FWD);
    VRT_CHECK(w.bad != 1, "dlist.sort.runs.overlong", "traversal after sort yields more than the %zu elements that were in the list", RLn);
    VRT_CHECK(w.bad != 2, "dlist.sort.runs.foreign-element", "element at %zu after sort was not in the list", w.n);
    VRT_CHECK(w.bad != 3, "dlist.sort.runs.not-a-permutation", "element at %zu after sort appears twice", w.n);
    VRT_CHECK(w.bad != 4, "dlist.sort.runs.unordered", "keys out of order at %zu of %zu (%s sort)", w.n, RLn, dir > 0 ? "ascending" : "descending");
    VRT_CHECK(w.n == RLn && r == 0, "dlist.sort.runs.length", "sort changed the number of linked elements: %zu vs %zu", w.n, RLn);
    VRT_CHECK(cstl_dlist_front(a) == (void *)RORD[0] && cstl_dlist_back(a) == (void *)RORD[RLn - 1], "dlist.sort.runs.front-back", "front/back after sort are not the ends of the traversal");
    memset(&w, 0, sizeof(w));
    r = cstl_dlist_foreach(a, runs_rev_cb, &w, CSTL_DLIST_FOREACH_DIR_REV);
    VRT_CHECK(w.bad == 0 && w.n == RLn && r == 0, "dlist.sort.runs.rev-mismatch", "REV traversal after sort is not the mirror of the FWD traversal at %zu from the back (of %zu)", w.n, RLn);
    /* white-box extra: the ring */
    for (q = a->h.n, n = 0; q != &a->h && n <= RLn; q = q->n, n++)
        VRT_CHECK(q == &RORD[n]->n && q->n->p == q, "dlist.walker.runs.back-link", "node %zu after sort: n->n->p != n", n);
    VRT_CHECK(q == &a->h && n == RLn && a->h.n->p == &a->h, "dlist.walker.runs.ring", "ring does not close at the sentinel after %zu links", RLn);
}

enum { RS_DECR, RS_INCR, RS_EQUAL, RS_LONG_ONES, RS_ONES_LONG, RS_SAW, RS_ORGAN, RS_RANDOM, RS_GEOM, RS_FIB };
struct rshape { int shape, param; size_t n; };
static const struct rshape run_shapes[] = {
    { RS_DECR, 40, 0 }, { RS_DECR, 72, 0 }, { RS_DECR, 100, 0 }, { RS_DECR, 150, 0 },  /* run lengths k, k-1, ..., 1 */
    { RS_INCR, 40, 0 }, { RS_INCR, 72, 0 }, { RS_INCR, 100, 0 }, { RS_INCR, 150, 0 },  /* 1, 2, ..., k */
    { RS_EQUAL, 2, 4000 }, { RS_EQUAL, 3, 6000 }, { RS_EQUAL, 5, 20000 },
    { RS_LONG_ONES, 0, 3000 }, { RS_ONES_LONG, 0, 3000 },                              /* one long run, many of length 1 */
    { RS_SAW, 7, 5000 }, { RS_SAW, 100, 20000 }, { RS_ORGAN, 0, 4001 },
    { RS_RANDOM, 3, 0 }, { RS_RANDOM, 8, 0 }, { RS_RANDOM, 300, 0 },                   /* random lengths 1..param */
    { RS_GEOM, 0, 14 }, { RS_GEOM, 1, 14 }, { RS_FIB, 0, 20 }, { RS_FIB, 1, 20 },      /* 2^14, 2^13, ..., 1 / Fibonacci lengths; 1: shortest first */
#define NRS_QUICK 23
    { RS_DECR, 632, 0 }, { RS_INCR, 632, 0 }, { RS_EQUAL, 2, 200000 }, { RS_EQUAL, 5, 200000 },
    { RS_LONG_ONES, 0, 200000 }, { RS_ONES_LONG, 0, 200000 }, { RS_RANDOM, 64, 200000 }, { RS_SAW, 3, 200000 },
};
#define NRS_ALL ((int)(sizeof(run_shapes) / sizeof(run_shapes[0])))
static const char *const rs_name[] = { "decreasing-lengths", "increasing-lengths", "equal-lengths", "long-then-ones", "ones-then-long",
                                       "sawtooth", "organ-pipe", "random-lengths", "halving-lengths", "fibonacci-lengths" };

/* the keys of one maximal non-descending run (dup: steps 0..2 instead of 1), starting below the end of the previous one */
struct rgen { vrt_rng *g; int *key; size_t n, cap; int have, last, dup; size_t runs; };
static void emit_run(struct rgen *G, size_t len)
{
    int k = (int)vrt_below(G->g, 1000);
    if (len == 0 || G->n >= G->cap) return;
    if (G->have && k >= G->last) k = G->last - 1 - (int)vrt_below(G->g, 3);
    while (len-- > 0 && G->n < G->cap) {
        G->key[G->n++] = k;
        G->last = k;
        k += G->dup ? (int)vrt_below(G->g, 3) : 1;
    }
    G->have = 1; G->runs++;
}
static size_t runs_total(const struct rshape *s, vrt_rng *g)
{
    size_t f0 = 1, f1 = 1, t = 0;
    int i;
    switch (s->shape) {
    case RS_DECR: case RS_INCR: return (size_t)s->param * (s->param + 1) / 2;
    case RS_GEOM: return ((size_t)2 << s->n) - 1;
    case RS_FIB: for (i = 0; i < (int)s->n; i++) { size_t f = f0 + f1; t += f0; f0 = f1; f1 = f; } return t;
    case RS_RANDOM: return s->n ? s->n : 2000 + vrt_below(g, 18000);
    default: return s->n;
    }
}
static void runs_keys(const struct rshape *s, struct rgen *G)
{
    size_t i, fib[64];
    switch (s->shape) {
    case RS_DECR: for (i = s->param; i >= 1; i--) emit_run(G, i); break;
    case RS_INCR: for (i = 1; i <= (size_t)s->param; i++) emit_run(G, i); break;
    case RS_EQUAL: while (G->n < G->cap) emit_run(G, s->param); break;
    case RS_LONG_ONES: emit_run(G, G->cap / 2); while (G->n < G->cap) emit_run(G, 1); break;
    case RS_ONES_LONG: while (G->n < G->cap / 2) emit_run(G, 1); emit_run(G, G->cap - G->n); break;
    case RS_SAW: for (i = 0; i < G->cap; i++) G->key[G->n++] = (int)(i % (size_t)s->param); G->runs = G->cap / s->param; break;
    case RS_ORGAN: for (i = 0; i < G->cap; i++) G->key[G->n++] = (int)(i < G->cap / 2 ? i : G->cap - 1 - i); G->runs = G->cap / 2; break;
    case RS_RANDOM: while (G->n < G->cap) emit_run(G, 1 + vrt_below(G->g, s->param)); break;
    case RS_GEOM:
        for (i = 0; i <= s->n; i++) emit_run(G, (size_t)1 << (s->param ? i : s->n - i));
        break;
    case RS_FIB:
        fib[0] = fib[1] = 1;
        for (i = 2; i < s->n; i++) fib[i] = fib[i - 1] + fib[i - 2];
        for (i = 0; i < s->n; i++) emit_run(G, fib[s->param ? i : s->n - 1 - i]);
        break;
    }
}
static void run_runs(uint64_t which)
{
    const int nshapes = vrt_thorough ? NRS_ALL : NRS_QUICK;
    const struct rshape *s = &run_shapes[which % nshapes];
    const int v = (int)(which / nshapes);           /* 0..3: runs ascending/descending x comparator ascending/descending */
    const int mirror = v & 1, dir = (v & 2) ? -1 : 1;
    struct cstl_dlist a;
    struct rgen G;
    struct relem *E;
    vrt_rng g;
    size_t i, n;
    int *key;

    vrt_rng_seed(&g, vrt_seed, 0xC12A00 + which);
    n = runs_total(s, &g);
    key = vrt_alloc(sizeof(*key) * n);
    memset(&G, 0, sizeof(G));
    G.g = &g; G.key = key; G.cap = n; G.dup = (int)vrt_below(&g, 2);
    runs_keys(s, &G);
    n = G.n;
    E = vrt_alloc(sizeof(*E) * n);
    RORD = vrt_alloc(sizeof(*RORD) * n);
    memset(E, 0x5e, sizeof(*E) * n);
    memset(&RC, 0, sizeof(RC));
    RC.E = E; RC.n = n; RC.nest = (int)((which + v) & 1);
    vrt_case_note("sort of %zu elements in %zu %s runs: %s (param %d), comparator %s%s", n, G.runs, mirror ? "descending" : "ascending",
                  rs_name[s->shape], s->param, dir > 0 ? "ascending" : "descending", RC.nest ? ", comparator sorts another list now and then" : "");
    memset(&side_list, 0x77, sizeof(side_list));
    cstl_dlist_init(&side_list, offsetof(struct selem, n));
    for (i = 0; i < NSIDE; i++) { SIDE[i].key = (int)i; cstl_dlist_push_back(&side_list, &SIDE[i]); }
    memset(&a, 0x77, sizeof(a));
    cstl_dlist_init(&a, offsetof(struct relem, n));
    VRT_OP1("dlist.push_back", "%ld elements", n);
    for (i = 0; i < n; i++) {
        E[i].key = mirror ? -key[i] : key[i]; E[i].mark = 0;
        if (which & 4) cstl_dlist_push_back(&a, &E[i]);
    }
    if (!(which & 4)) for (i = n; i-- > 0; ) cstl_dlist_push_front(&a, &E[i]);
    RLn = n;
    runs_sort_and_check(&a, dir, 1);
    /* the result is one single run against the order asked for next */
    runs_sort_and_check(&a, -dir, 2);
    VRT_COUNT_N("cb.sort-compare", RC.calls);
    VRT_COUNT_N("sort.comparator-sorted-another-list", RC.nested);
    VRT_COUNT("sort.runs.cases");
    if (G.runs > 64) VRT_COUNT("sort.runs.more-than-64-runs");
    if (G.runs > 1024) VRT_COUNT("sort.runs.more-than-1024-runs");
    if (mirror) VRT_COUNT("sort.runs.descending-runs"); else VRT_COUNT("sort.runs.ascending-runs");
    if ((dir > 0) == !mirror) VRT_COUNT("sort.runs.comparator-agrees-with-runs"); else VRT_COUNT("sort.runs.comparator-against-runs");
    VRT_MAX("max.sort.runs.elements", n);
    vrt_sig(1, vrt_mix(vrt_mix(0x5045 + which, n), G.runs));
    vrt_sig(0, vrt_mix(0x5045, which));
    vrt_free(RORD); RORD = NULL;
    vrt_free(E);
    vrt_free(key);
}
static uint64_t nruns(void) { return 4 * (uint64_t)(vrt_thorough ? NRS_ALL : NRS_QUICK); }
#define NBIG 2
static uint64_t nrandom(void)
{
    if (is_clear_mode) return vrt_thorough ? 2000 : 200;
    return vrt_thorough ? 120000 : 20000;
}
static uint64_t ncases(void)
{
    is_clear_mode = strcmp(vrt_mode, "clear") == 0;
    nest_on = is_clear_mode;
    if (is_clear_mode) {
        if (vrt_thorough) { scopes = quick_scopes; nscopes = NSCOPES(quick_scopes); }
        else { scopes = small_scopes; nscopes = NSCOPES(small_scopes); }
    } else if (vrt_thorough) { scopes = thorough_scopes; nscopes = NSCOPES(thorough_scopes); }
    else { scopes = quick_scopes; nscopes = NSCOPES(quick_scopes); }
    return nscopes + (is_clear_mode ? 0 : NBIG + nruns()) + nrandom();
}
static void run_case(uint64_t idx)
{
    const uint64_t nb = is_clear_mode ? 0 : NBIG, nr = is_clear_mode ? 0 : nruns();
    /* none of these containers ever needs memory: every second case runs with an allocator that refuses everything */
    if (idx & 1) { vrt_fp_arm(NULL, 0, 1); VRT_COUNT("nomem.cases"); }
    if (idx < (uint64_t)nscopes) run_closure((int)idx);
    else if (idx < nscopes + nb) run_big(idx - nscopes);
    else if (idx < nscopes + nb + nr) run_runs(idx - nscopes - nb);
    else run_random(idx - nscopes - nb - nr);
    vrt_fp_disarm();
}
static void winit(void)
{
    vrt_sig_name(0, "list-states");
    vrt_sig_name(1, "sort-inputs");
    (void)ncases();
}

/* the names up to "sort.runs.cases" are observations every mode makes; the rest belong to the cases that mode "clear" (C15) leaves out */
static const char *required_clear[96];
static const char *const required[] = {
    "op.push_front", "op.push_back", "op.pop_front", "op.pop_back", "op.pop_front.empty", "op.pop_back.empty",
    "op.insert", "op.insert.after-last", "op.erase.only", "op.erase.first", "op.erase.last", "op.erase.inner",
    "op.reverse.len0-1", "op.reverse.len2", "op.reverse.even", "op.reverse.odd",
    "op.sort", "op.concat.src-empty", "op.concat.dst-empty", "op.concat.both-nonempty",
    "op.swap.both-empty", "op.swap.one-empty", "op.swap.both-nonempty",
    "op.swap.different-offsets.nonempty", "op.concat.different-offsets-noop.src-nonempty",
    "op.push.element-also-on-list-of-other-offset", "handed-over.still-on-list-of-other-offset",
    "op.find.absent", "op.find.fwd.duplicates", "op.find.rev.duplicates",
    "op.foreach.fwd", "op.foreach.rev", "op.foreach.early-stop", "op.foreach.early-stop.negative-value",
    "op.foreach.erase-one", "op.foreach.erase-all", "op.foreach.erase-and-stop", "op.foreach.erase-last-visited",
    "op.clear.nonempty", "clear.handed-over", "audit.list", "closure.states", "random.histories",
    "op.foreach.reentrant", "op.foreach.reentrant.outer-stop", "foreach.reentrant.inner-early-stop",
    "foreach.reentrant.inner-full-walk.same-list", "foreach.reentrant.inner-full-walk.other-list", "foreach.reentrant.find",
    /* from here on: not in mode "clear" */
    "sort.runs.cases", "sort.runs.more-than-64-runs", "sort.runs.more-than-1024-runs", "sort.runs.ascending-runs", "sort.runs.descending-runs",
    "sort.runs.comparator-agrees-with-runs", "sort.runs.comparator-against-runs", "sort.comparator-sorted-another-list", NULL
};
/* mode "clear" only: a clear inside a clear */
static const char *const required_nested[] = {
    "nested.attached", "clear.nested.handed-over", "clear.nested.lists-cleared", "clear.nested.overwrite-verified",
    "clear.nested.first-element-owns-a-list", "clear.nested.last-element-owns-a-list", "clear.nested.inner-element-owns-a-list",
    "clear.nested.several-owners", "clear.nested.owners-and-plain-elements", "clear.nested.outer-went-on-after-inner-clear",
    "op.clear.with-nested-clears", NULL
};
static const struct vrt_harness H = { "dlist", ncases, run_case, winit, NULL, required, 16 };
static struct vrt_harness H_clear;

int main(int argc, char **argv)
{
    int i;
    /* mode "clear" has no sort-with-run-structure cases: it must not be asked for their counters */
    for (i = 1; i + 1 < argc; i++) if (!strcmp(argv[i], "--mode") && !strcmp(argv[i + 1], "clear")) {
        int k;
        for (k = 0; k < 63 && required[k] && strcmp(required[k], "sort.runs.cases"); k++) required_clear[k] = required[k];
        for (i = 0; required_nested[i]; i++) required_clear[k++] = required_nested[i];
        required_clear[k] = NULL;
        H_clear = H; H_clear.required = required_clear;
        return vrt_main(argc, argv, &H_clear);
    }
    return vrt_main(argc, argv, &H);
}
