/*
 * C06 (workload A) -- reference counting under every interleaving: controlled
 * scheduler.  The unmodified src/memory.c is compiled with the shadow
 * <stdatomic.h>/<sched.h> (shim/), so every atomic step of the library calls
 * vsched_point() first.  Logical threads are ucontext fibres; the scheduler
 * decides at every schedule point which thread performs the next step
 * (DFS over all choices by stateless re-execution, or a random walk).
 *
 * Oracles per execution: (1) the recorded history {thread, op, call/return
 * slice, result} must be linearizable against the sequential ownership model,
 * with the additional constraints that the clear callback / the free of the
 * bookkeeping block were observed inside exactly the operation that, in that
 * linearization, releases the last owner / the last reference; (2) owners read
 * the block's magic right after obtaining and right before releasing
 * ownership; exactly-once clear/free at quiescence; (3) ASan; (4) a thread
 * spinning while nobody else can run is a deadlock.
 */
#include "vrt.h"
#include "cstl/memory.h"
#include <string.h>
#include <stdio.h>
#include <sys/mman.h>

#if defined(__SANITIZE_ADDRESS__)
void __sanitizer_start_switch_fiber(void **fake_stack_save, const void *bottom, size_t size);
void __sanitizer_finish_switch_fiber(void *fake_stack_save, const void **bottom_old, size_t *size_old);
#else
#define __sanitizer_start_switch_fiber(a, b, c) ((void)0)
#define __sanitizer_finish_switch_fiber(a, b, c) ((void)0)
#endif

/* ---------------- what the process can ask its environment ----------------
 * A library may adapt to the machine (take a lock only on a multiprocessor, say).  The program's own definitions
 * of the CPU-count queries win over libc's at link time; while `onecpu` is set they report a process confined to
 * exactly ONE cpu, otherwise they forward to the kernel / libc.  A single CPU still preempts: every interleaving
 * stays possible and every oracle applies unchanged.  (No sanitizer instrumentation and no runtime calls in here:
 * a sanitizer runtime may ask before it is initialised.) */
#include <sched.h>
#include <unistd.h>
#include <sys/syscall.h>
#include <sys/sysinfo.h>
#define ENVQ __attribute__((no_sanitize("address", "undefined")))
static volatile int onecpu;             /* the answers report one CPU */
static volatile int envq_window;        /* inside run_execution(): whoever asks now is the library */
static volatile unsigned long envq_lib, envq_lib_one;
extern long __sysconf(int name);
ENVQ static void envq_note(void) { if (envq_window) { envq_lib++; if (onecpu) envq_lib_one++; } }
ENVQ int sched_getaffinity(pid_t pid, size_t sz, cpu_set_t *set)
{
    long r;
    size_t i;
    envq_note();
    if (onecpu && sz >= sizeof(unsigned long) && set != NULL) {
        for (i = 0; i < sz; i++) ((unsigned char *)set)[i] = 0;
        ((unsigned char *)set)[0] = 1;          /* CPU 0 and nothing else */
        return 0;
    }
    r = syscall(SYS_sched_getaffinity, pid, sz, set);
    if (r < 0) return -1;
    for (i = (size_t)r; i < sz; i++) ((unsigned char *)set)[i] = 0;
    return 0;
}
ENVQ long sysconf(int name)
{
    if (name == _SC_NPROCESSORS_ONLN || name == _SC_NPROCESSORS_CONF) { envq_note(); if (onecpu) return 1; }
    return __sysconf(name);
}
ENVQ int get_nprocs(void) { envq_note(); return onecpu ? 1 : (int)__sysconf(_SC_NPROCESSORS_ONLN); }
ENVQ int get_nprocs_conf(void) { envq_note(); return onecpu ? 1 : (int)__sysconf(_SC_NPROCESSORS_CONF); }

enum { VSP_LOAD = 1, VSP_ADD, VSP_SUB, VSP_TAS, VSP_CLEAR, VSP_STORE, VSP_YIELD, VSP_FREE, VSP_CLRCB, VSP_OP };

#define MAXT 4
#define MAXOPS 6
#define STACKSZ (256 * 1024)
#define MEMMAGIC 0x600dfeedu
#define CLRMAGIC 0xdeadc1eau

enum { O_SHARE, O_RESET0, O_RESET1, O_WFROM, O_LOCK, O_WRESET, O_UNIQUE, O_NOPS, O_DROPX = O_NOPS };
#define NX 8                    /* extra owners a thread may start with (init bit 2) and drop with one op */
static const char *opname[] = { "share(S0->S1)", "reset(S0)", "reset(S1)", "weak_from(W,S0)", "lock(W->S1)", "weak_reset(W)", "unique(S0)", "reset(8 extra owners)" };

enum { F_RUNNABLE, F_YIELDED, F_DONE };
struct tctx {
    cstl_shared_ptr_t S[2];
    cstl_weak_ptr_t W;
    cstl_shared_ptr_t X[NX];    /* extra owners */
    int nx;
    int init, nops, ops[MAXOPS];
    int own[2], weak;           /* thread-local facts (model) */
    void *sp;                   /* saved stack pointer while switched out */
    void *stack, *fake;
    int state, retrying, started;
    int curop;                  /* history index of the op in progress, -1 outside */
};
static struct tctx T[MAXT];
static int nthr;
static void *main_sp;
static void *main_fake;

/* minimal x86-64 context switch: callee-saved registers + stack pointer.
 * (glibc swapcontext makes two sigprocmask system calls per switch, which
 * dominated the run time of the first version.) */
#if !defined(__x86_64__)
#error "memory_sched.c: the fibre switch is written for x86-64"
#endif
void vctx_switch(void **save_sp, void *new_sp);
__asm__(
    ".text\n"
    ".globl vctx_switch\n"
    ".type vctx_switch,@function\n"
    "vctx_switch:\n"
    "    pushq %rbp\n pushq %rbx\n pushq %r12\n pushq %r13\n pushq %r14\n pushq %r15\n"
    "    movq %rsp, (%rdi)\n"
    "    movq %rsi, %rsp\n"
    "    popq %r15\n popq %r14\n popq %r13\n popq %r12\n popq %rbx\n popq %rbp\n"
    "    ret\n"
    ".size vctx_switch,.-vctx_switch\n");
static unsigned starting_idx;
static void fibre_main(unsigned idx);
static void fibre_trampoline(void) { fibre_main(starting_idx); }
static void *fibre_initial_sp(void *stack, size_t size)
{
    uintptr_t top = ((uintptr_t)stack + size) & ~(uintptr_t)15;
    void **sp = (void **)top;
    *--sp = NULL;                       /* fake return address of the trampoline: entry sees rsp % 16 == 8 */
    *--sp = (void *)fibre_trampoline;   /* popped by vctx_switch's ret */
    *--sp = NULL; *--sp = NULL; *--sp = NULL; *--sp = NULL; *--sp = NULL; *--sp = NULL;  /* rbp rbx r12-r15 */
    return sp;
}
static const void *main_bottom;
static size_t main_size;
static struct tctx *cur;        /* fibre currently running, NULL in the scheduler */
static uint64_t slice;
static int abandon;

/* allocation under test */
static cstl_shared_ptr_t master;
static void *mem_blk, *book_blk;
static int clear_count, memfree_count, bookfree_count;
static int selfweak;            /* scenario: the managed memory embeds a weak pointer to itself (observer pattern) */
#define EW(mem) ((cstl_weak_ptr_t *)((char *)(mem) + 8))
static int clear_op, bookfree_op;      /* history index of the op during which it happened, -1 none, -2 outside ops */

/* history */
struct hop { int thr, op, result, pre_own0, pre_own1, pre_weak, pre_nx; uint64_t call, ret; };
static struct hop Hs[MAXT * MAXOPS];
static int nH;

/* ---------------- scheduler plumbing ---------------- */
static void to_main(void)
{
    struct tctx *t = cur;
    __sanitizer_start_switch_fiber(&t->fake, main_bottom, main_size);
    vctx_switch(&t->sp, main_sp);
    __sanitizer_finish_switch_fiber(t->fake, &main_bottom, &main_size);
}
static void wake_all(void)
{
    int i;
    for (i = 0; i < nthr; i++) if (T[i].state == F_YIELDED) T[i].state = F_RUNNABLE;
}
void vsched_point(int kind, const volatile void *addr)
{
    (void)kind; (void)addr;
    if (cur == NULL) return;
    /* arriving here means the previous step was completed: progress, unless
     * this is the re-try of a spin that has not yet shown whether it succeeds */
    if (cur->retrying == 1) cur->retrying = 2;          /* at the TAS re-try */
    else { cur->retrying = 0; wake_all(); }
    to_main();
}
int vsched_yield(void)
{
    if (cur == NULL) return 0;
    VRT_COUNT("sched.spins");
    cur->state = F_YIELDED;
    cur->retrying = 1;
    to_main();
    return 0;
}
static void alloc_hook(int kind, void *p)
{
    if (cur == NULL || kind != 'f' || p == NULL) return;
    if (p == mem_blk || p == book_blk) {
        vsched_point(VSP_FREE, p);
        if (p == mem_blk) memfree_count++;
        else { bookfree_count++; bookfree_op = cur->curop; }
    }
}
static void clr_cb(void *mem, void *priv)
{
    (void)priv;
    if (cur != NULL) vsched_point(VSP_CLRCB, mem);
    clear_count++;
    clear_op = cur != NULL ? cur->curop : -2;
    if (*(uint32_t *)mem != MEMMAGIC) vrt_fail("mt.clear.twice-or-foreign", "clear callback for memory that is not live managed memory");
    *(uint32_t *)mem = CLRMAGIC;
    if (selfweak) {
        /* re-entrant use that the library supports: the dying object tries to lock its own weak
         * reference (must come back empty: no owner exists any more) and then drops it */
        cstl_shared_ptr_t tmp;
        cstl_shared_ptr_init(&tmp);
        cstl_weak_ptr_lock(EW(mem), &tmp);
        if (cstl_shared_ptr_get(&tmp) != NULL) vrt_fail("mt.lock.owner-from-dying-memory", "a lock taken inside the clear callback produced an owner");
        cstl_weak_ptr_reset(EW(mem));
        VRT_COUNT("sched.clear-callbacks.reentrant");
    }
}
static void fail_hook(void)
{
    if (cur != NULL) {
        /* leave the fibre for good; the worker's own stack performs the longjmp */
        abandon = 1;
        __sanitizer_start_switch_fiber(NULL, main_bottom, main_size);
        vctx_switch(&cur->sp, main_sp);
    }
}

/* ---------------- operations (run inside fibres) ---------------- */
static void check_owner_magic(struct tctx *t, int which, const char *when)
{
    void *g = cstl_shared_ptr_get(&t->S[which]);
    char key[96];
    if (g == NULL) {
        snprintf(key, sizeof(key), "mt.owner-has-no-memory.%s", when);
        vrt_fail(key, "thread %d: S%d is an owner but get() is NULL (%s)", (int)(t - T), which, when);
    }
    if (*(volatile uint32_t *)g != MEMMAGIC) {
        snprintf(key, sizeof(key), "mt.owner-sees-cleared-memory.%s", when);
        vrt_fail(key, "thread %d: S%d owns memory whose clear callback already ran (%s)", (int)(t - T), which, when);
    }
}

static void do_op(struct tctx *t, int op)
{
    struct hop *h = &Hs[nH];
    t->curop = nH++;
    h->thr = (int)(t - T); h->op = op; h->result = -1;
    h->pre_own0 = t->own[0]; h->pre_own1 = t->own[1]; h->pre_weak = t->weak; h->pre_nx = t->nx;
    h->call = slice;
    switch (op) {
    case O_DROPX: {
        int k;
        for (k = 0; k < t->nx; k++) cstl_shared_ptr_reset(&t->X[k]);
        t->nx = 0;
        break;
    }
    case O_SHARE:
        if (t->own[1]) check_owner_magic(t, 1, "before-release");
        cstl_shared_ptr_share(&t->S[0], &t->S[1]);
        t->own[1] = t->own[0];
        if (t->own[1]) check_owner_magic(t, 1, "after-acquire");
        break;
    case O_RESET0: case O_RESET1: {
        const int w = op == O_RESET1;
        if (t->own[w]) check_owner_magic(t, w, "before-release");
        cstl_shared_ptr_reset(&t->S[w]);
        t->own[w] = 0;
        break;
    }
    case O_WFROM:
        cstl_weak_ptr_from(&t->W, &t->S[0]);
        t->weak = t->own[0];
        break;
    case O_LOCK:
        if (t->own[1]) check_owner_magic(t, 1, "before-release");
        cstl_weak_ptr_lock(&t->W, &t->S[1]);
        h->result = cstl_shared_ptr_get(&t->S[1]) != NULL;
        t->own[1] = h->result;
        if (h->result) check_owner_magic(t, 1, "after-lock");
        if (h->result && !h->pre_weak) vrt_fail("mt.lock.owner-from-empty-weak", "lock of an empty weak pointer produced an owner");
        break;
    case O_WRESET:
        cstl_weak_ptr_reset(&t->W);
        t->weak = 0;
        break;
    default:
        h->result = cstl_shared_ptr_unique(&t->S[0]);
        break;
    }
    h->ret = slice;
    t->curop = -1;
}

static void fibre_main(unsigned idx)
{
    struct tctx *t = &T[idx];
    int i;
    __sanitizer_finish_switch_fiber(NULL, &main_bottom, &main_size);
    for (i = 0; i < t->nops; i++) do_op(t, t->ops[i]);
    t->state = F_DONE;
    wake_all();
    __sanitizer_start_switch_fiber(NULL, main_bottom, main_size);
    vctx_switch(&t->sp, main_sp);
    __builtin_trap();           /* a finished fibre is never resumed */
}

/* ---------------- linearizability against the sequential ownership model ---------------- */
/* primitives follow the library's own decomposition: an owner is a hard and a soft reference,
 * released / acquired in two steps; the property does not say which operation frees the
 * bookkeeping block, only that it happens exactly once, when the last reference goes */
enum { P_DROPHARD, P_DROPSOFT, P_ADDHARD, P_ADDSOFT, P_TRYACQ, P_UNIQUE };
struct prim { int kind, op /* history index */, result; };
static struct prim P[MAXT * MAXOPS * 4 + MAXT * NX * 2 + 8];
static int nP;
static int own0_init, weak0_init;
static uint64_t lin_nodes;
#define LIN_BUDGET 400000
typedef unsigned __int128 pmask;       /* up to 128 primitives per history */

static void build_prims(void)
{
    int i;
    nP = 0;
#define ADDP(k, r) do { P[nP].kind = k; P[nP].op = i; P[nP].result = r; nP++; } while (0)
#define DROPOWNER() do { ADDP(P_DROPHARD, 0); ADDP(P_DROPSOFT, 0); } while (0)
    for (i = 0; i < nH; i++) {
        const struct hop *h = &Hs[i];
        switch (h->op) {
        case O_DROPX: { int k; for (k = 0; k < h->pre_nx; k++) DROPOWNER(); break; }
        case O_SHARE: if (h->pre_own1) DROPOWNER(); if (h->pre_own0) { ADDP(P_ADDHARD, 0); ADDP(P_ADDSOFT, 0); } break;
        case O_RESET0: if (h->pre_own0) DROPOWNER(); break;
        case O_RESET1: if (h->pre_own1) DROPOWNER(); break;
        case O_WFROM: if (h->pre_weak) ADDP(P_DROPSOFT, 0); if (h->pre_own0) ADDP(P_ADDSOFT, 0); break;
        case O_LOCK:
            if (h->pre_own1) DROPOWNER();
            if (h->pre_weak) { ADDP(P_TRYACQ, h->result); if (h->result) ADDP(P_ADDSOFT, 0); }
            break;
        case O_WRESET: if (h->pre_weak) ADDP(P_DROPSOFT, 0); break;
        default: if (h->pre_own0) ADDP(P_UNIQUE, h->result); break;
        }
    }
#undef DROPOWNER
#undef ADDP
}
/* may primitive j be linearized now?  all primitives of ops that returned before j's op was called,
 * and all earlier primitives of the same thread, must be done */
static int lin_ready(pmask done, int j)
{
    int k;
    const struct hop *hj = &Hs[P[j].op];
    for (k = 0; k < nP; k++) {
        const struct hop *hk;
        if (k == j || (done >> k) & 1) continue;
        hk = &Hs[P[k].op];
        if (hk->ret < hj->call) return 0;
        if (hk->thr == hj->thr && k < j) return 0;      /* program order (prims are generated in history order per thread) */
    }
    return 1;
}
static int lin_search(pmask done, int hard, int soft, int cleared, int bookfreed)
{
    int j;
    if (done == (((pmask)1 << nP) - 1)) {
        /* destruction observed inside an operation must be explained by the linearization */
        if (clear_op >= 0 && !cleared) return 0;
        if (bookfree_op >= 0 && !bookfreed) return 0;
        return 1;
    }
    if (++lin_nodes > LIN_BUDGET) return -1;
    for (j = 0; j < nP; j++) {
        int h = hard, s = soft, c = cleared, b = bookfreed, r;
        if ((done >> j) & 1) continue;
        if (!lin_ready(done, j)) continue;
        switch (P[j].kind) {
        case P_DROPHARD:
            h--;
            /* the clear callback must have been observed in exactly the op that releases the last owner */
            if (h == 0) {
                if (clear_op != P[j].op) continue;
                c = 1;
                /* self-weak memory: the callback dropped the embedded weak reference in this very step */
                if (selfweak) { s--; if (s == 0) { if (bookfree_op != P[j].op) continue; b = 1; } }
            }
            break;
        case P_DROPSOFT:
            s--;
            /* last reference gone: the bookkeeping block must have been freed in this very op */
            if (s == 0) { if (bookfree_op != P[j].op) continue; b = 1; }
            break;
        case P_ADDHARD: h++; break;
        case P_ADDSOFT: s++; break;
        case P_TRYACQ:
            if ((h > 0) != (P[j].result != 0)) continue;
            if (h > 0) h++;
            break;
        default:
            if ((s == 1) != (P[j].result != 0)) continue;
            break;
        }
        r = lin_search(done | (pmask)1 << j, h, s, c, b);
        if (r != 0) return r;
    }
    return 0;
}

/* ---------------- one execution ---------------- */
struct scenario { int nthr; int init[MAXT]; int nops[MAXT]; int ops[MAXT][MAXOPS]; int selfweak; };

/* choice source */
#define MAXD 4096
static int dfs_chosen[MAXD], dfs_nopt[MAXD], dfs_depth, dfs_len;
static vrt_rng sched_rng;
static int strategy;            /* 0 DFS, 1 uniform random walk, 2 PCT-like priorities */
static int prio[MAXT], pct_change[4];
static uint64_t sched_hash;
static int ctx_switches;

static int choose(const int *en, int n, int last)
{
    int c, i;
    if (strategy == 0) {
        if (dfs_depth < dfs_len) c = dfs_chosen[dfs_depth];
        else { c = 0; dfs_chosen[dfs_depth] = 0; dfs_nopt[dfs_depth] = n; dfs_len = dfs_depth + 1; }
        if (dfs_depth + 1 >= MAXD) vrt_fail("harness.sched.too-deep", "more than %d decisions in one execution", MAXD);
        dfs_depth++;
        if (c >= n) vrt_fail("harness.sched.replay-diverged", "DFS replay diverged: choice %d of %d", c, n);
    } else if (strategy == 1) {
        c = vrt_below(&sched_rng, n);
    } else {
        /* highest priority runnable thread; priorities change at a few random steps */
        int best = 0;
        for (i = 0; i < 4; i++) if ((int)slice == pct_change[i]) prio[en[vrt_below(&sched_rng, n)]] = -(int)slice;
        for (i = 1; i < n; i++) if (prio[en[i]] > prio[en[best]]) best = i;
        c = best;
    }
    sched_hash = vrt_mix(sched_hash, en[c] + 1);
    if (last >= 0 && en[c] != last) ctx_switches++;
    return en[c];
}

static void *stacks[MAXT];

/* Bounded unfairness.  The fair yield above lets a waiter fail the spin flag only a couple of times in
 * a row while the holder is paused.  Under this policy thread A is frozen after its f-th schedule point
 * (wherever that is inside its operation), thread B alone is run for up to K failed attempts on the
 * flag (it is re-run although nobody made progress) or K other steps, optionally a third thread C
 * likewise, and only then A may run again and the ordinary strategy takes over.  Prefix: A alone
 * (pv 0), the bystanders to completion and then A (pv 1), or a seeded random walk until A has taken
 * f steps (pv >= 2). */
static struct {
    int on, A, f, B, C, K, pv;
    int phase;                  /* 0 prefix, 1 B's burst, 2 C's burst, 3 ordinary strategy */
    int a_steps, events, fails, run_fails;
    int a_short;                /* A finished before its f-th step: no such schedule point */
    int spun[2];                /* B / C used up the whole budget on failed attempts */
    int maxrun;                 /* longest run of consecutive failed attempts of one thread */
    vrt_rng g;
    uint64_t seed;
} uf;

/* which thread runs next while the policy is in charge; -1 = hand over to the ordinary strategy */
static int unfair_pick(const int *en, int n)
{
    int i;
    if (uf.phase == 0) {
        if (T[uf.A].state == F_DONE) { uf.a_short = 1; uf.phase = 3; return -1; }
        if (uf.a_steps >= uf.f) { uf.phase = 1; uf.events = uf.fails = uf.run_fails = 0; }
        else if (uf.pv >= 2) return en[vrt_below(&uf.g, (uint32_t)n)];
        else {
            if (uf.pv == 1)
                for (i = 0; i < n; i++) if (en[i] != uf.A && en[i] != uf.B && en[i] != uf.C) return en[i];
            for (i = 0; i < n; i++) if (en[i] == uf.A) return uf.A;
            return en[0];
        }
    }
    while (uf.phase == 1 || uf.phase == 2) {
        const int w = uf.phase == 1 ? uf.B : uf.C;
        if (w >= 0 && T[w].state != F_DONE && uf.events < uf.K && uf.fails < uf.K) {
            /* the unfair part: a waiter that yielded is run again although nobody else took a step */
            if (T[w].state == F_YIELDED) T[w].state = F_RUNNABLE;
            return w;
        }
        if (w >= 0 && uf.fails >= uf.K) uf.spun[uf.phase - 1] = 1;
        uf.phase++; uf.events = uf.fails = uf.run_fails = 0;
    }
    return -1;
}
/* account for the slice thread `pick` has just run */
static void unfair_ran(int pick)
{
    if (uf.phase == 0) { if (pick == uf.A) uf.a_steps++; return; }
    if (uf.phase == 3) return;
    if (T[pick].state == F_YIELDED) {
        uf.fails++;
        if (++uf.run_fails > uf.maxrun) uf.maxrun = uf.run_fails;
    } else if (T[pick].retrying == 0) { uf.events++; uf.run_fails = 0; }
    /* retrying == 2: stopped at the re-try of the flag, the attempt itself is the next slice */
}

static int run_execution(const struct scenario *sc)
{
    int i, last = -1, steps = 0, r;
    nthr = sc->nthr; nH = 0; slice = 0; abandon = 0; cur = NULL;
    clear_count = memfree_count = bookfree_count = 0; clear_op = bookfree_op = -1;
    sched_hash = 0x5c4ed; ctx_switches = 0; dfs_depth = 0;
    envq_lib = envq_lib_one = 0; envq_window = 1;
    if (uf.on) {
        uf.phase = uf.a_steps = uf.events = uf.fails = uf.run_fails = uf.a_short = uf.spun[0] = uf.spun[1] = uf.maxrun = 0;
        vrt_rng_seed(&uf.g, uf.seed, (uint64_t)uf.pv);     /* same prefix in every re-execution of the DFS */
    }
    /* set up the allocation and the initial reference configuration, single-threaded */
    cstl_shared_ptr_init(&master);
    vrt_ev_begin();
    cstl_shared_ptr_alloc(&master, 32, clr_cb);
    mem_blk = cstl_shared_ptr_get(&master);
    book_blk = NULL;
    for (i = 0; i < vrt_ev_n(); i++) if (vrt_ev(i)->kind == 'm' && vrt_ev(i)->p != mem_blk) book_blk = vrt_ev(i)->p;
    if (mem_blk == NULL || book_blk == NULL) vrt_fail("harness.sched.setup", "allocation failed in setup");
    *(uint32_t *)mem_blk = MEMMAGIC;
    own0_init = weak0_init = 0;
    selfweak = sc->selfweak;
    if (selfweak) { cstl_weak_ptr_init(EW(mem_blk)); cstl_weak_ptr_from(EW(mem_blk), &master); weak0_init++; }
    for (i = 0; i < nthr; i++) {
        struct tctx *t = &T[i];
        cstl_shared_ptr_init(&t->S[0]); cstl_shared_ptr_init(&t->S[1]); cstl_weak_ptr_init(&t->W);
        t->init = sc->init[i]; t->nops = sc->nops[i];
        memcpy(t->ops, sc->ops[i], sizeof(t->ops));
        t->own[0] = t->own[1] = t->weak = 0;
        if (t->init & 1) { cstl_shared_ptr_share(&master, &t->S[0]); t->own[0] = 1; own0_init++; }
        if (t->init & 2) { cstl_weak_ptr_from(&t->W, &master); t->weak = 1; weak0_init++; }
        t->nx = 0;
        if (t->init & 4) {
            int k;
            for (k = 0; k < NX; k++) { cstl_shared_ptr_init(&t->X[k]); cstl_shared_ptr_share(&master, &t->X[k]); }
            t->nx = NX; own0_init += NX;
        }
        t->state = F_RUNNABLE; t->retrying = 0; t->curop = -1; t->fake = NULL;
        if (stacks[i] == NULL) {
            stacks[i] = mmap(NULL, STACKSZ, PROT_READ | PROT_WRITE, MAP_PRIVATE | MAP_ANONYMOUS, -1, 0);
            if (stacks[i] == MAP_FAILED) vrt_fail("harness.sched.stack", "mmap of a fibre stack failed");
        }
        t->stack = stacks[i];
        t->sp = fibre_initial_sp(t->stack, STACKSZ);
        t->started = 0;
    }
    /* the master reference goes away before the threads start (may already destroy everything) */
    cstl_shared_ptr_reset(&master);
    if (own0_init == 0) { clear_op = -2; if (selfweak) weak0_init--; if (weak0_init == 0) bookfree_op = -2; }

    for (;;) {
        int en[MAXT], n = 0, alive = 0, yielded = 0, pick;
        for (i = 0; i < nthr; i++) {
            if (T[i].state == F_RUNNABLE) en[n++] = i;
            if (T[i].state != F_DONE) alive++;
            if (T[i].state == F_YIELDED) yielded++;
        }
        if (alive == 0) break;
        if (n == 0 && !(uf.on && (uf.phase == 1 || uf.phase == 2))) {
            vrt_fail("mt.deadlock.spinning-forever", "%d thread(s) spin on the lock flag and no thread can make progress", yielded);
        }
        pick = -1;
        if (uf.on && uf.phase < 3) {
            /* a waiter in its burst is picked even when it is the only thread and has yielded */
            pick = unfair_pick(en, n);
            if (pick >= 0) { sched_hash = vrt_mix(sched_hash, pick + 1); if (last >= 0 && pick != last) ctx_switches++; }
        }
        if (pick < 0) {
            if (n == 0) {
                vrt_fail("mt.deadlock.spinning-forever", "%d thread(s) spin on the lock flag and no thread can make progress", yielded);
            }
            pick = n == 1 ? en[0] : choose(en, n, last);
            if (n == 1) { sched_hash = vrt_mix(sched_hash, pick + 1); if (last >= 0 && pick != last) ctx_switches++; }
        }
        last = pick;
        if (++steps > 20000) { VRT_COUNT("sched.executions.step-budget-exceeded-inconclusive"); return -1; }
        slice++;
        cur = &T[pick];
        if (!cur->started) { cur->started = 1; starting_idx = (unsigned)pick; }
        __sanitizer_start_switch_fiber(&main_fake, cur->stack, STACKSZ);
        vctx_switch(&main_sp, cur->sp);
        __sanitizer_finish_switch_fiber(main_fake, NULL, NULL);
        cur = NULL;
        if (abandon) siglongjmp(vrt_case_jmp, 1);
        if (uf.on) unfair_ran(pick);
    }
    VRT_MAX("max.sched.steps-per-execution", steps);

    /* quiescence: every thread lets go of everything (sequentially), then exactly-once accounting */
    {
        const int clear_before = clear_count, book_before = bookfree_count;
        int owners = 0, weaks = 0;
        for (i = 0; i < nthr; i++) { owners += T[i].own[0] + T[i].own[1] + T[i].nx; weaks += T[i].weak; }
        if (selfweak && clear_before == 0) weaks++;
        if (owners > 0 && clear_before != 0)
            vrt_fail("mt.cleared-while-owner-exists", "clear callback ran %d time(s) although %d owner(s) still exist at the end of the scripts", clear_before, owners);
        if (owners + weaks > 0 && book_before != 0)
            vrt_fail("mt.bookkeeping-freed-while-referenced", "bookkeeping block freed although %d reference(s) still exist", owners + weaks);
        if (owners > 0) for (i = 0; i < nthr; i++) {
            if (T[i].own[0]) check_owner_magic(&T[i], 0, "at-quiescence");
            if (T[i].own[1]) check_owner_magic(&T[i], 1, "at-quiescence");
        }
        for (i = 0; i < nthr; i++) {
            int k;
            for (k = 0; k < T[i].nx; k++) cstl_shared_ptr_reset(&T[i].X[k]);
            cstl_shared_ptr_reset(&T[i].S[0]); cstl_shared_ptr_reset(&T[i].S[1]); cstl_weak_ptr_reset(&T[i].W);
        }
        if (clear_count != 1) vrt_fail(clear_count == 0 ? "mt.clear.never" : "mt.clear.more-than-once", "clear callback ran %d times", clear_count);
        if (vrt_lib_live() != 0) vrt_fail("mt.leak", "%zu library blocks live after every reference was reset", vrt_lib_live());
    }
    /* linearizability of the recorded history */
    build_prims();
    lin_nodes = 0;
    r = lin_search(0, own0_init, own0_init + weak0_init, 0, 0);
    VRT_MAX("max.lin.search-nodes", lin_nodes);
    if (r < 0) { VRT_COUNT("lin.inconclusive-budget"); }
    else if (r == 0) {
        char buf[400];
        size_t k = 0;
        for (i = 0; i < nH && k + 60 < sizeof(buf); i++)
            k += snprintf(buf + k, sizeof(buf) - k, "T%d:%s[%llu,%llu]=%d ", Hs[i].thr, opname[Hs[i].op],
                          (unsigned long long)Hs[i].call, (unsigned long long)Hs[i].ret, Hs[i].result);
        vrt_fail("mt.history-not-linearizable", "no linearization matches results and destruction points (clear in op %d, bookkeeping free in op %d): %s",
                 clear_op, bookfree_op, buf);
    } else VRT_COUNT("lin.histories-linearizable");
    VRT_COUNT("sched.executions");
    if (ctx_switches > 0) VRT_COUNT("sched.executions.with-context-switch");
    envq_window = 0;
    if (onecpu) VRT_COUNT("onecpu.executions");
    /* how often the library asked for the number of CPUs (0 = it never adapts to it) */
    VRT_COUNT_N("env.cpu-count-queries.by-library", envq_lib);
    VRT_COUNT_N("env.cpu-count-queries.by-library.answered-one-cpu", envq_lib_one);
    return 0;
}

/* ---------------- scenarios ---------------- */
#define NSCRIPT_OPS O_NOPS
static int nscripts(int maxlen)
{
    int n = 0, l, p = 1;
    for (l = 1; l <= maxlen; l++) { p *= NSCRIPT_OPS; n += p; }
    return n;
}
static void decode_script(int idx, int *nops, int *ops)
{
    int l = 1, p = NSCRIPT_OPS, i;
    while (idx >= p) { idx -= p; p *= NSCRIPT_OPS; l++; }
    *nops = l;
    for (i = 0; i < l; i++) { ops[i] = idx % NSCRIPT_OPS; idx /= NSCRIPT_OPS; }
}
static void describe(const struct scenario *sc, char *buf, size_t n)
{
    size_t k = 0;
    int t, i;
    if (sc->selfweak) k += snprintf(buf + k, n - k, "[memory embeds a weak pointer to itself; clear callback locks+resets it] ");
    for (t = 0; t < sc->nthr && k + 80 < n; t++) {
        k += snprintf(buf + k, n - k, "T%d{%s%s%s:", t, sc->init[t] & 1 ? "owner" : "", sc->init[t] & 2 ? "+weak" : "", sc->init[t] & 4 ? "+8 owners" : "");
        for (i = 0; i < sc->nops[t] && k + 40 < n; i++) k += snprintf(buf + k, n - k, " %s", opname[sc->ops[t][i]]);
        k += snprintf(buf + k, n - k, "} ");
    }
}

static uint64_t dfs_scenario(const struct scenario *sc, uint64_t cap, int *exhausted)
{
    uint64_t n = 0;
    strategy = 0; dfs_len = 0;
    *exhausted = 1;
    for (;;) {
        vrt_trace_reset();
        VRT_OP1("sched.execution", "DFS execution #%ld", n);
        run_execution(sc);
        n++;
        /* backtrack */
        while (dfs_len > 0 && dfs_chosen[dfs_len - 1] + 1 >= dfs_nopt[dfs_len - 1]) dfs_len--;
        if (dfs_len == 0) break;
        dfs_chosen[dfs_len - 1]++;
        if (n >= cap) { *exhausted = 0; break; }
    }
    return n;
}

/* selected three- and four-thread scenarios */
static const struct scenario selected[] = {
    { 3, { 1, 2, 2 }, { 1, 1, 1 }, { { O_RESET0 }, { O_LOCK }, { O_LOCK } } },
    { 3, { 1, 1, 2 }, { 1, 1, 1 }, { { O_RESET0 }, { O_RESET0 }, { O_LOCK } } },
    { 3, { 1, 1, 2 }, { 1, 1, 1 }, { { O_SHARE }, { O_RESET0 }, { O_LOCK } } },
    { 3, { 2, 2, 2 }, { 1, 1, 1 }, { { O_WRESET }, { O_LOCK }, { O_WRESET } } },
    { 3, { 1, 2, 2 }, { 1, 2, 2 }, { { O_RESET0 }, { O_LOCK, O_RESET1 }, { O_LOCK, O_WRESET } } },
    { 3, { 3, 2, 1 }, { 2, 1, 1 }, { { O_RESET0, O_LOCK }, { O_LOCK }, { O_RESET0 } } },
    { 3, { 1, 2, 3 }, { 1, 1, 1 }, { { O_RESET0 }, { O_LOCK }, { O_UNIQUE } } },
    { 3, { 1, 3, 2 }, { 1, 1, 1 }, { { O_WFROM }, { O_RESET0 }, { O_LOCK } } },
    { 4, { 1, 2, 2, 2 }, { 1, 1, 1, 1 }, { { O_RESET0 }, { O_LOCK }, { O_LOCK }, { O_LOCK } } },
    { 4, { 1, 1, 2, 2 }, { 1, 1, 1, 1 }, { { O_RESET0 }, { O_RESET0 }, { O_LOCK }, { O_WRESET } } },
    { 4, { 2, 2, 2, 2 }, { 1, 1, 1, 1 }, { { O_WRESET }, { O_WRESET }, { O_LOCK }, { O_WRESET } } },
    /* many owners dropped at once racing a lock (owner counts beyond the handful of the other scenarios) */
    { 2, { 4, 2 }, { 1, 1 }, { { O_DROPX }, { O_LOCK } } },
    { 2, { 5, 2 }, { 2, 2 }, { { O_DROPX, O_RESET0 }, { O_LOCK, O_RESET1 } } },
    { 3, { 4, 1, 2 }, { 1, 1, 1 }, { { O_DROPX }, { O_RESET0 }, { O_LOCK } } },
    /* self-weak memory: the clear callback re-enters the library */
    { 2, { 1, 2 }, { 1, 1 }, { { O_RESET0 }, { O_LOCK } }, 1 },
    { 2, { 1, 1 }, { 1, 1 }, { { O_RESET0 }, { O_RESET0 } }, 1 },
    { 2, { 3, 2 }, { 2, 2 }, { { O_RESET0, O_WRESET }, { O_LOCK, O_RESET1 } }, 1 },
    { 3, { 1, 2, 2 }, { 1, 1, 1 }, { { O_RESET0 }, { O_LOCK }, { O_WRESET } }, 1 },
    { 2, { 4, 2 }, { 1, 1 }, { { O_DROPX }, { O_LOCK } }, 1 },
};
#define NSELECTED ((int)(sizeof(selected) / sizeof(selected[0])))

/* scenarios for the bounded-unfairness policy: a weak lock racing another lock, the reset of the last
 * owner, or another lock of an allocation that has already expired */
static const struct scenario unfair_sc[] = {
    { 2, { 3, 2 }, { 1, 1 }, { { O_LOCK }, { O_LOCK } } },                              /* owner alive throughout */
    { 2, { 2, 2 }, { 1, 1 }, { { O_LOCK }, { O_LOCK } } },                              /* expired allocation */
    { 2, { 3, 2 }, { 3, 2 }, { { O_LOCK, O_RESET0, O_RESET1 }, { O_LOCK, O_RESET1 } } },
    { 2, { 2, 2 }, { 2, 2 }, { { O_LOCK, O_LOCK }, { O_LOCK, O_WRESET } } },
    { 3, { 1, 2, 2 }, { 1, 1, 1 }, { { O_RESET0 }, { O_LOCK }, { O_LOCK } } },
    { 3, { 1, 2, 2 }, { 1, 2, 2 }, { { O_RESET0 }, { O_LOCK, O_RESET1 }, { O_LOCK, O_WRESET } } },
    { 3, { 3, 2, 2 }, { 2, 1, 1 }, { { O_LOCK, O_RESET0 }, { O_LOCK }, { O_LOCK } } },
    { 3, { 2, 2, 2 }, { 1, 1, 1 }, { { O_LOCK }, { O_LOCK }, { O_LOCK } } },
    { 3, { 4, 2, 2 }, { 1, 1, 1 }, { { O_DROPX }, { O_LOCK }, { O_LOCK } } },
    { 4, { 1, 2, 2, 2 }, { 1, 1, 1, 1 }, { { O_RESET0 }, { O_LOCK }, { O_LOCK }, { O_LOCK } } },
    { 4, { 1, 1, 2, 2 }, { 1, 1, 2, 1 }, { { O_RESET0 }, { O_SHARE }, { O_LOCK, O_RESET1 }, { O_LOCK } } },
    /* self-weak memory: the thread that runs the clear callback holds the flag inside it */
    { 2, { 1, 2 }, { 1, 1 }, { { O_RESET0 }, { O_LOCK } }, 1 },
    { 3, { 1, 2, 2 }, { 1, 1, 1 }, { { O_RESET0 }, { O_LOCK }, { O_LOCK } }, 1 },
    { 3, { 3, 2, 2 }, { 2, 2, 1 }, { { O_RESET0, O_LOCK }, { O_LOCK, O_RESET1 }, { O_LOCK } }, 1 },
};
#define NUNFAIR ((int)(sizeof(unfair_sc) / sizeof(unfair_sc[0])))
#define UNFAIR_PAIRS (MAXT * MAXT)      /* one case per scenario and ordered pair (A frozen, B waiter) */

static int maxlen2;             /* script length for the exhaustive two-thread family */
static uint64_t ncombo, npairs, nsample3, nrandom, nonecpu;

static void pair_from_index(uint64_t idx, uint64_t *a, uint64_t *b)
{
    /* unordered pairs a <= b over ncombo combos, row-major */
    uint64_t row = 0, rem = idx;
    while (rem >= ncombo - row) { rem -= ncombo - row; row++; }
    *a = row; *b = row + rem;
}
static void combo_to_thread(uint64_t c, int maxlen, struct scenario *sc, int t)
{
    const int ns = nscripts(maxlen);
    sc->init[t] = (int)(c / ns);
    decode_script((int)(c % ns), &sc->nops[t], sc->ops[t]);
}

static void run_dfs_case(const struct scenario *sc, uint64_t cap, const char *family)
{
    char d[256], nm[64];
    int ex;
    uint64_t n;
    describe(sc, d, sizeof(d));
    vrt_case_note("%s DFS: %s", family, d);
    n = dfs_scenario(sc, cap, &ex);
    snprintf(nm, sizeof(nm), "scenarios.%s.%s", family, ex ? "exhausted" : "capped");
    vrt_count_dyn(nm, 1);
    VRT_COUNT_N("interleavings.dfs", n);
    VRT_MAX("max.interleavings-per-scenario", n);
}

/* one configuration of the unfair policy: the prefix and the bursts are fixed, the rest of the execution is
 * explored by a capped DFS plus a few random walks.  Returns 0 when A has no f-th schedule point. */
static int unfair_config(const struct scenario *sc, uint64_t idx, int *spun)
{
    const int cap = vrt_thorough ? 48 : 10, nrand = vrt_thorough ? 12 : 4;
    int n = 0, k, contended = 0;
    *spun = 0;
    strategy = 0; dfs_len = 0;
    for (k = 0; k < cap + nrand; k++) {
        vrt_trace_reset();
        VRT_OP4("sched.execution", "unfair: T%ld frozen after its step %ld, T%ld alone for up to %ld failed attempts/steps", uf.A, uf.f, uf.B, uf.K);
        VRT_OP3("sched.execution", "unfair: then T%ld likewise (-1: nobody); prefix variant %ld; continuation #%ld", uf.C, uf.pv, k);
        if (k >= cap) {
            strategy = 1;
            vrt_rng_seed(&sched_rng, vrt_seed ^ (idx << 20), ((uint64_t)uf.f << 24) ^ ((uint64_t)(uf.C + 1) << 16) ^ ((uint64_t)uf.pv << 12) ^ (uint64_t)(uf.K + k));
        }
        if (run_execution(sc) != 0) break;
        if (uf.a_short) return 0;
        VRT_COUNT("unfair.executions");
        VRT_COUNT("interleavings.sampled");
        if (ctx_switches > 0 && vrt_sig(0, vrt_mix(sched_hash, 0xF00D00 + idx))) VRT_COUNT("interleavings.sampled.distinct");
        VRT_MAX("max.unfair.failed-attempts-in-a-row", uf.maxrun);
        if (uf.spun[0] || uf.spun[1]) *spun = 1;
        if (uf.maxrun >= 100) VRT_COUNT("unfair.executions.waiter-failed-100-in-a-row");
        if (uf.maxrun >= 300) VRT_COUNT("unfair.executions.waiter-failed-300-in-a-row");
        if (uf.spun[0] && uf.spun[1]) VRT_COUNT("unfair.executions.two-waiters-spun-in-turn");
        if (n++ == 0) {
            contended = uf.maxrun >= 8;
            if (contended) VRT_COUNT("unfair.configurations.holder-frozen-inside-critical-section");
            else { VRT_COUNT("unfair.configurations.no-contention-at-this-point"); break; }   /* an ordinary schedule: one is enough */
        }
        if (strategy == 0) {
            while (dfs_len > 0 && dfs_chosen[dfs_len - 1] + 1 >= dfs_nopt[dfs_len - 1]) dfs_len--;
            if (dfs_len == 0) { if (nrand == 0) break; k = cap - 1; continue; }
            dfs_chosen[dfs_len - 1]++;
        }
    }
    return 1;
}

static void run_unfair_case(uint64_t idx)
{
    const struct scenario *sc = &unfair_sc[idx / UNFAIR_PAIRS];
    const int A = (int)(idx % UNFAIR_PAIRS) / MAXT, B = (int)(idx % MAXT), npv = vrt_thorough ? 6 : 4;
    char d[256];
    int pv, C, f, spun;
    if (A >= sc->nthr || B >= sc->nthr || A == B) { VRT_COUNT("scenarios.unfair.skipped-no-such-pair"); return; }
    describe(sc, d, sizeof(d));
    vrt_case_note("bounded unfairness: T%d frozen at each of its schedule points in turn, T%d (and a third thread) run alone for K = 100 / 300: %s", A, B, d);
    memset(&uf, 0, sizeof(uf));
    uf.on = 1; uf.A = A; uf.B = B;
    uf.seed = vrt_seed ^ (0xC06F00ull + idx) << 8;
    for (pv = 0; pv < npv; pv++) for (C = -1; C < sc->nthr; C++) {
        if (C == A || C == B) continue;
        if (pv == 1 && sc->nthr - 2 - (C >= 0) <= 0) continue;         /* no bystander to run first */
        uf.pv = pv; uf.C = C;
        for (f = 1; f < 200; f++) {
            uf.f = f; uf.K = 100;
            if (!unfair_config(sc, idx, &spun)) break;
            if (spun) { uf.K = 300; unfair_config(sc, idx, &spun); }
        }
    }
    uf.on = 0;
    VRT_COUNT("scenarios.unfair");
}

/* does thread t's script lock a weak pointer that refers to the allocation? */
static int locks_nonempty_weak(const struct scenario *sc, int t)
{
    int i, weak = (sc->init[t] & 2) != 0, own0 = sc->init[t] & 1;
    for (i = 0; i < sc->nops[t]; i++) {
        const int op = sc->ops[t][i];
        if (op == O_LOCK && weak) return 1;
        if (op == O_WRESET) weak = 0;
        if (op == O_WFROM) weak = own0;
        if (op == O_RESET0) own0 = 0;
    }
    return 0;
}
static int lockcombo[64], nlockcombo;   /* the (initial configuration, script) combinations that lock a non-empty weak pointer */
static uint64_t nbothlock;
/* The process is confined to ONE cpu: a seeded sample of the two-thread pairs in which a thread locks a weak
 * pointer, every interleaving of each (DFS), while the CPU-count queries answer 1.  These cases come FIRST in the
 * case order: every worker process starts with them, so a library that asks once and caches the answer for the
 * life of the process has been told "one CPU" from its first question on. */
static void self_test_queries(void)
{
    cpu_set_t cs;
    int n1, n16;
    CPU_ZERO(&cs);
    onecpu = 1;
    n1 = sched_getaffinity(0, sizeof(cs), &cs) == 0 ? CPU_COUNT(&cs) : -1;
    if (n1 != 1 || sysconf(_SC_NPROCESSORS_ONLN) != 1 || sysconf(_SC_NPROCESSORS_CONF) != 1 || get_nprocs() != 1 || get_nprocs_conf() != 1)
        vrt_fail("harness.onecpu.queries-not-interposed", "with the one-CPU answers active a CPU-count query still reports more than one CPU");
    onecpu = 0;
    n16 = sched_getaffinity(0, sizeof(cs), &cs) == 0 ? CPU_COUNT(&cs) : -1;
    if (n16 < 1 || sysconf(_SC_NPROCESSORS_ONLN) < 1 || get_nprocs() < 1 || get_nprocs_conf() < 1 || sysconf(_SC_PAGESIZE) < 1)
        vrt_fail("harness.onecpu.forwarding-broken", "the interposed queries do not forward to the real ones");
    VRT_COUNT("onecpu.self-test.queries-answer-one-then-real");
}
static void run_onecpu_case(uint64_t k)
{
    struct scenario sc;
    vrt_rng g;
    int tries, ok = 0;
    self_test_queries();
    vrt_rng_seed(&g, vrt_seed, 0xC061C0 + k);
    if (k < nbothlock) {
        /* every pair in which BOTH threads lock (what the spin flag is there to serialise), not a sample */
        uint64_t row = 0, rem = k;
        while (rem >= (uint64_t)nlockcombo - row) { rem -= (uint64_t)nlockcombo - row; row++; }
        memset(&sc, 0, sizeof(sc));
        sc.nthr = 2;
        combo_to_thread(lockcombo[row], maxlen2, &sc, 0);
        combo_to_thread(lockcombo[row + rem], maxlen2, &sc, 1);
        ok = 1;
    }
    for (tries = 0; tries < 400 && !ok; tries++) {
        memset(&sc, 0, sizeof(sc));
        sc.nthr = 2;
        combo_to_thread(vrt_below(&g, (uint32_t)ncombo), maxlen2, &sc, 0);
        combo_to_thread(vrt_below(&g, (uint32_t)ncombo), maxlen2, &sc, 1);
        ok = locks_nonempty_weak(&sc, 0) || locks_nonempty_weak(&sc, 1);
        /* mostly with an owner around at the start (else the allocation has expired before the threads run) */
        if (ok && (k & 3) != 0 && !((sc.init[0] | sc.init[1]) & 1)) ok = 0;
    }
    if (!ok) vrt_fail("harness.onecpu.no-lock-pair-drawn", "no two-thread pair with a weak lock in 400 draws");
    if (locks_nonempty_weak(&sc, 0) && locks_nonempty_weak(&sc, 1)) VRT_COUNT("onecpu.scenarios.both-threads-lock");
    VRT_COUNT("onecpu.scenarios.weak-lock-pairs");
    onecpu = 1;
    /* quick tier: the pairs of two 2-operation scripts are explored up to a cap only (time budget) */
    run_dfs_case(&sc, vrt_thorough ? 200000 : sc.nops[0] + sc.nops[1] <= 3 ? 60000 : 2000, "two-thread-one-cpu");
    onecpu = 0;
}

static void run_case(uint64_t idx)
{
    struct scenario sc;
    memset(&sc, 0, sizeof(sc));
    uf.on = 0;
    onecpu = 0; envq_window = 0;
    if (idx < nonecpu) { run_onecpu_case(idx); return; }
    idx -= nonecpu;
    if (idx < npairs) {
        uint64_t a, b;
        pair_from_index(idx, &a, &b);
        sc.nthr = 2;
        combo_to_thread(a, maxlen2, &sc, 0);
        combo_to_thread(b, maxlen2, &sc, 1);
        if (sc.init[0] == 0 && sc.init[1] == 0) { VRT_COUNT("scenarios.two-thread.skipped-no-references"); return; }
        run_dfs_case(&sc, vrt_thorough ? 200000 : 60000, "two-thread");
        return;
    }
    idx -= npairs;
    if (idx < (uint64_t)NSELECTED) { run_dfs_case(&selected[idx], vrt_thorough ? 200000 : 40000, "selected-3-4-thread"); return; }
    idx -= NSELECTED;
    if (idx < nsample3) {
        /* sampled two-thread scenarios with longer scripts */
        vrt_rng g;
        const int ns = nscripts(3);
        vrt_rng_seed(&g, vrt_seed, 0xC06300 + idx);
        sc.nthr = 2;
        combo_to_thread((uint64_t)(1 + vrt_below(&g, 3)) * ns + vrt_below(&g, ns), 3, &sc, 0);
        combo_to_thread((uint64_t)vrt_below(&g, 4) * ns + vrt_below(&g, ns), 3, &sc, 1);
        sc.selfweak = vrt_below(&g, 3) == 0;
        run_dfs_case(&sc, vrt_thorough ? 50000 : 20000, "two-thread-len3-sampled");
        return;
    }
    idx -= nsample3;
    if (idx >= nrandom) { run_unfair_case(idx - nrandom); return; }
    {
        /* larger scenarios under sampled schedules: 3-4 threads x up to 4 ops */
        vrt_rng g;
        char d[256];
        int t, i, k, nsched = vrt_thorough ? 400 : 150;
        vrt_rng_seed(&g, vrt_seed, 0xC06900 + idx);
        sc.nthr = 3 + vrt_below(&g, 2);
        sc.selfweak = vrt_below(&g, 3) == 0;
        for (t = 0; t < sc.nthr; t++) {
            sc.init[t] = t == 0 ? 1 + 2 * vrt_below(&g, 2) : vrt_below(&g, 4);
            sc.nops[t] = 2 + vrt_below(&g, 3);
            for (i = 0; i < sc.nops[t]; i++) sc.ops[t][i] = vrt_below(&g, O_NOPS);
            if (t == 1 && vrt_below(&g, 4) == 0) { sc.init[t] |= 4; sc.ops[t][vrt_below(&g, sc.nops[t])] = O_DROPX; }
        }
        describe(&sc, d, sizeof(d));
        vrt_case_note("sampled schedules (%d random walks / PCT, then %d with one thread frozen while others run alone): %s", nsched, nsched / 8, d);
        for (k = 0; k < nsched + nsched / 8; k++) {
            strategy = 1 + (k & 1);
            vrt_rng_seed(&sched_rng, vrt_seed ^ (idx << 20), k);
            for (t = 0; t < MAXT; t++) prio[t] = 1 + vrt_below(&sched_rng, 1000);
            for (t = 0; t < 4; t++) pct_change[t] = 1 + vrt_below(&sched_rng, 60);
            vrt_trace_reset();
            VRT_OP2("sched.execution", "sampled schedule #%ld strategy %ld", k, strategy);
            uf.on = 0;
            if (k >= nsched) {
                /* bounded unfairness at a random place of a random walk: some thread is frozen after a random
                 * number of its steps while one or two others run alone (see unfair_pick) */
                memset(&uf, 0, sizeof(uf));
                uf.on = 1;
                /* (a few draws each, preferring threads whose script contains a lock) */
                for (i = 0; i < 4; i++) {
                    int j, has = 0;
                    uf.A = (int)vrt_below(&sched_rng, (uint32_t)sc.nthr);
                    for (j = 0; j < sc.nops[uf.A]; j++) has |= sc.ops[uf.A][j] == O_LOCK;
                    if (has) break;
                }
                for (i = 0; i < 4; i++) {
                    int j, has = 0;
                    uf.B = (uf.A + 1 + (int)vrt_below(&sched_rng, (uint32_t)sc.nthr - 1)) % sc.nthr;
                    for (j = 0; j < sc.nops[uf.B]; j++) has |= sc.ops[uf.B][j] == O_LOCK;
                    if (has) break;
                }
                uf.C = -1;
                if (vrt_below(&sched_rng, 2)) for (t = 0; t < sc.nthr; t++) if (t != uf.A && t != uf.B) uf.C = t;
                uf.f = 1 + (int)vrt_below(&sched_rng, 24);
                uf.K = vrt_below(&sched_rng, 2) ? 100 : 300;
                uf.pv = 2 + (int)vrt_below(&sched_rng, 4);
                uf.seed = vrt_seed ^ (idx << 20) ^ (uint64_t)k;
                VRT_OP4("sched.execution", "unfair: T%ld frozen after its step %ld, T%ld alone for up to %ld failed attempts/steps", uf.A, uf.f, uf.B, uf.K);
                VRT_OP2("sched.execution", "unfair: then T%ld likewise (-1: nobody); random prefix %ld", uf.C, uf.pv);
            }
            if (run_execution(&sc) == 0 && ctx_switches > 0) {
                if (vrt_sig(0, vrt_mix(sched_hash, idx))) VRT_COUNT("interleavings.sampled.distinct");
            }
            VRT_COUNT("interleavings.sampled");
            if (uf.on) {
                VRT_COUNT("unfair.sampled.executions");
                if (uf.maxrun >= 100) VRT_COUNT("unfair.sampled.waiter-failed-100-in-a-row");
                if (uf.spun[0] && uf.spun[1]) VRT_COUNT("unfair.sampled.two-waiters-spun-in-turn");
                uf.on = 0;
            }
        }
        VRT_COUNT("scenarios.sampled");
    }
}

static uint64_t ncases(void)
{
    maxlen2 = 2;
    ncombo = (uint64_t)4 * nscripts(maxlen2);
    npairs = ncombo * (ncombo + 1) / 2;
    nsample3 = vrt_thorough ? 40000 : 8000;
    nrandom = vrt_thorough ? 30000 : 6000;
    {
        uint64_t c;
        nlockcombo = 0;
        for (c = 0; c < ncombo; c++) {
            struct scenario sc;
            memset(&sc, 0, sizeof(sc));
            combo_to_thread(c, maxlen2, &sc, 0);
            if (locks_nonempty_weak(&sc, 0) && nlockcombo < 64) lockcombo[nlockcombo++] = (int)c;
        }
        nbothlock = (uint64_t)nlockcombo * (nlockcombo + 1) / 2;
    }
    nonecpu = nbothlock + (vrt_thorough ? 600 : 100);
    return nonecpu + npairs + NSELECTED + nsample3 + nrandom + (uint64_t)NUNFAIR * UNFAIR_PAIRS;
}
static void winit(void)
{
    (void)ncases();
    vrt_alloc_hook = alloc_hook;
    vrt_fail_hook = fail_hook;
    vrt_sig_name(0, "sampled-interleavings");
}
static const char *const required[] = {
    "sched.executions", "sched.executions.with-context-switch", "lin.histories-linearizable", "sched.spins",
    "scenarios.two-thread.exhausted", "interleavings.sampled", "sched.clear-callbacks.reentrant",
    "unfair.configurations.holder-frozen-inside-critical-section", "unfair.executions.waiter-failed-100-in-a-row",
    "unfair.executions.waiter-failed-300-in-a-row", "unfair.executions.two-waiters-spun-in-turn",
    "unfair.sampled.waiter-failed-100-in-a-row",
    "onecpu.executions", "onecpu.scenarios.weak-lock-pairs", "onecpu.scenarios.both-threads-lock",
    "onecpu.self-test.queries-answer-one-then-real", "scenarios.two-thread-one-cpu.exhausted", NULL
};
static const struct vrt_harness H = { "memory_sched", ncases, run_case, winit, NULL, required, 16 };
int main(int argc, char **argv) { return vrt_main(argc, argv, &H); }
