/*
 * hashwork.c -- "no single operation does work proportional to the whole table", observed as MEMORY TOUCHED.
 *
 * The hash harness bounds the work of a keyed operation through what it can count: calls of the hash function, buckets
 * relocated, sweep advance.  A pass over the bucket array that calls nothing (normalising flags, recounting, scrubbing) is
 * invisible there, although it is exactly the proportional work C19 excludes.  Here a table with 2^15 .. 2^17 buckets (its
 * bucket array spans hundreds of pages) is driven through incremental rehashes while the pages of the bucket array are
 * access-protected before EVERY keyed call: a SIGSEGV handler counts each page the call touches and re-opens it.  Every keyed
 * operation -- including the one that completes the rehash -- may touch only a small, table-size-independent number of
 * pages (its own bucket(s), the buckets of at most three relocations and their destinations).  Runs without a sanitizer
 * (configuration rel-native): the monitor needs the real page layout.
 *
 * Second scenario (forced finish after partial incremental progress): on a table of several thousand buckets a resize is
 * followed by a few thousand keyed calls that clean buckets ahead of the sweep, and then the rehash is FORCED to finish
 * (rehash, foreach, a further resize, shrink_to_fit); afterwards every element must be found by its key and enumerated once.
 */
#include "vrt.h"
#include <string.h>
#include <stdint.h>
#include <signal.h>
#include <unistd.h>
#include <sys/mman.h>
#include <cstl/hash.h>

struct el { size_t key; struct cstl_hash_node hn; int seen; };
static struct el *E;
static int NE;
static struct cstl_hash H;
static vrt_rng g;

static size_t f_div7(size_t k, size_t m) { return (k * 7 + 3) % m; }

/* ---- page-touch monitor ---- */
static char *prot_lo, *prot_hi;
static volatile long touched;
static long pagesz;
static struct sigaction old_segv;
static void on_segv(int sig, siginfo_t *si, void *uc)
{
    char *a = si->si_addr;
    (void)uc;
    if (prot_lo != NULL && a >= prot_lo && a < prot_hi) {
        mprotect((void *)((uintptr_t)a & ~(uintptr_t)(pagesz - 1)), (size_t)pagesz, PROT_READ | PROT_WRITE);
        touched++;
        return;
    }
    sigaction(sig, &old_segv, NULL);        /* a real fault: let it kill the worker the ordinary way */
}
static void monitor_install(void)
{
    struct sigaction sa;
    memset(&sa, 0, sizeof(sa));
    sa.sa_sigaction = on_segv; sa.sa_flags = SA_SIGINFO;
    sigaction(SIGSEGV, &sa, &old_segv);
    pagesz = sysconf(_SC_PAGESIZE);
}
static void monitor_remove(void) { prot_lo = prot_hi = NULL; sigaction(SIGSEGV, &old_segv, NULL); }
/* protect the whole pages inside the live bucket array; returns the number of pages protected */
static long protect_buckets(void)
{
    size_t sz = 0;
    char *base = vrt_lib_block(H.bucket.at, &sz), *lo, *hi;
    if (base == NULL) return 0;
    lo = (char *)(((uintptr_t)base + (uintptr_t)pagesz - 1) & ~(uintptr_t)(pagesz - 1));
    hi = (char *)(((uintptr_t)base + sz) & ~(uintptr_t)(pagesz - 1));
    if (hi <= lo) return 0;
    prot_lo = lo; prot_hi = hi; touched = 0;
    mprotect(lo, (size_t)(hi - lo), PROT_NONE);
    return (long)((hi - lo) / pagesz);
}
static void unprotect_buckets(void)
{
    if (prot_lo != NULL) mprotect(prot_lo, (size_t)(prot_hi - prot_lo), PROT_READ | PROT_WRITE);
    prot_lo = prot_hi = NULL;
}

static void mk(int n)
{
    int i;
    NE = n;
    E = vrt_alloc((size_t)n * sizeof(*E));
    for (i = 0; i < n; i++) { E[i].key = (size_t)i * 2654435761u + 17; E[i].seen = 0; }
    memset(&H, 0x3c, sizeof(H));
    cstl_hash_init(&H, offsetof(struct el, hn));
}
static int visit_count(void *e, void *p) { ((struct el *)e)->seen++; ++*(long *)p; return 0; }
static void audit_all(const char *what)
{
    long n = 0;
    int i;
    VRT_OP0("hash.find", "audit: every element by its key, then one enumeration");
    for (i = 0; i < NE; i++) {
        E[i].seen = 0;
        if (cstl_hash_find(&H, E[i].key, NULL, NULL) != &E[i])
            vrt_fail("hashwork.lost-element", "%s: element %d is no longer found by its key", what, i);
    }
    cstl_hash_foreach(&H, visit_count, &n);
    for (i = 0; i < NE; i++) if (E[i].seen != 1) vrt_fail("hashwork.enumeration", "%s: element %d visited %d times", what, i, E[i].seen);
    VRT_CHECK(n == NE && cstl_hash_size(&H) == (size_t)NE, "hashwork.size", "%s: %ld visits, size %zu, %d elements", what, n, cstl_hash_size(&H), NE);
}

/* scenario 1: pages touched by every keyed call of an incremental rehash */
#define PAGE_LIMIT 64
static void run_touch(uint64_t idx)
{
    static const size_t from[] = { 32768, 65536, 131072, 65536 }, to[] = { 65536, 40000, 65536, 65536 };
    const int v = (int)(idx % 4);
    long pages, maxt = 0, calls = 0, finishing = -1;
    int i;
    mk(50000);
    vrt_case_note("page-touch monitor: %zu -> %zu buckets, %d elements", from[v], to[v], NE);
    VRT_OP1("hash.resize", "%ld buckets", (long)from[v]);
    cstl_hash_resize(&H, from[v], cstl_hash_div);
    for (i = 0; i < NE; i++) cstl_hash_insert(&H, E[i].key, &E[i]);
    cstl_hash_rehash(&H);
    /* the table object has seen an odd or an even number of completed rehashes before the monitored one (internal parities) */
    for (i = 0; i < (int)((idx >> 1) & 1) + (int)(idx & 1); i++) {
        VRT_OP0("hash.resize", "one more completed rehash beforehand");
        cstl_hash_resize(&H, from[v] + 13 + (size_t)i, cstl_hash_div); cstl_hash_rehash(&H);
        VRT_COUNT("touch.extra-completed-rehash-beforehand");
    }
    VRT_OP1("hash.resize", "%ld buckets (pending)", (long)to[v]);
    cstl_hash_resize(&H, to[v], v == 3 ? f_div7 : cstl_hash_div);
    VRT_CHECK(H.bucket.rh.hash != NULL, "hashwork.harness.not-pending", "the resize did not leave a rehash pending");
    monitor_install();
    /* keyed calls until the rehash has finished and 200 more */
    for (i = 0; i < 400000 && (finishing < 0 || calls < finishing + 200); i++) {
        const int k = (int)vrt_below(&g, (uint32_t)NE), op = (int)vrt_below(&g, 8);
        const int was_pending = H.bucket.rh.hash != NULL;
        void *r = NULL;
        pages = protect_buckets();
        VRT_CHECK(pages >= 100, "hashwork.harness.small-array", "only %ld whole pages in the bucket array", pages);
        if ((calls & 255) == 0) VRT_OP1("hash.find", "monitored keyed call %ld", calls);
        if (op == 0) { cstl_hash_erase(&H, &E[k]); cstl_hash_insert(&H, E[k].key, &E[k]); r = &E[k]; }
        else r = cstl_hash_find(&H, E[k].key, NULL, NULL);
        unprotect_buckets();
        calls++;
        if (touched > maxt) maxt = touched;
        if (r != &E[k]) { monitor_remove(); vrt_fail("hashwork.lost-element", "monitored call %ld: element %d not found", calls, k); }
        if (touched > PAGE_LIMIT) {
            const long t = touched;
            monitor_remove();
            vrt_fail(was_pending && H.bucket.rh.hash == NULL ? "hashwork.pages-touched.by-the-call-that-completes-the-rehash" : was_pending ? "hashwork.pages-touched.by-a-keyed-call-while-pending" : "hashwork.pages-touched.by-a-keyed-call-when-idle",
                     "one keyed call touched %ld of the %ld pages of the bucket array (limit %d): work proportional to the table", t, pages, PAGE_LIMIT);
        }
        if (was_pending && H.bucket.rh.hash == NULL) { finishing = calls; VRT_COUNT("touch.completing-call-observed"); }
    }
    monitor_remove();
    VRT_CHECK(finishing >= 0, "hashwork.not-finished", "the rehash did not finish within %ld keyed calls", calls);
    VRT_MAX("max.touch.pages-per-keyed-call", maxt);
    VRT_COUNT_N("touch.keyed-calls-monitored", calls);
    audit_all("after the monitored rehash");
    /* a nearly empty big table: a resize is pending and the last few elements are erased one by one under the monitor -- also the
     * call that takes the size from 1 to 0 must not "tidy up" the whole table */
    {
        long worst = 0;
        int left = NE;
        for (i = 0; i < NE - 3; i++) cstl_hash_erase(&H, &E[i]);
        left = 3;
        VRT_OP1("hash.resize", "%ld buckets (pending), three elements left", (long)(from[v] + 777));
        cstl_hash_resize(&H, from[v] + 777, cstl_hash_div);
        monitor_install();
        for (i = NE - 3; i < NE; i++) {
            const long pg = protect_buckets();
            VRT_OP1("hash.erase", "monitored erase, %ld elements left", (long)left);
            cstl_hash_erase(&H, &E[i]);
            unprotect_buckets();
            left--;
            if (touched > worst) worst = touched;
            if (touched > PAGE_LIMIT) {
                const long t = touched;
                monitor_remove();
                vrt_fail(left == 0 ? "hashwork.pages-touched.by-the-erase-that-empties-the-table" : "hashwork.pages-touched.by-a-keyed-call-while-pending",
                         "one erase touched %ld of the %ld pages of the bucket array (limit %d) with %d elements left", t, pg, PAGE_LIMIT, left);
            }
            VRT_CHECK(cstl_hash_size(&H) == (size_t)left, "hashwork.size", "size %zu after the erase, %d elements left", cstl_hash_size(&H), left);
        }
        monitor_remove();
        VRT_MAX("max.touch.pages-per-erase-on-a-nearly-empty-table", worst);
        VRT_COUNT("touch.emptied-under-the-monitor");
    }
    cstl_hash_clear(&H, NULL);
    vrt_free(E);
    VRT_COUNT("touch.cases");
}

/* scenario 2: forced finish after partial incremental progress */
static void run_forced(uint64_t idx)
{
    static const size_t from[] = { 4096, 8192, 5000, 16384, 3000 }, to[] = { 8192, 2048, 9000, 4096, 12000 };
    const int v = (int)(idx % 5), how = (int)((idx / 5) % 4), ncalls = 1100 + (int)vrt_below(&g, 2500);
    int i;
    mk(6000);
    vrt_case_note("forced finish after %d keyed calls: %zu -> %zu buckets, finish by %s", ncalls, from[v], to[v],
                  how == 0 ? "rehash" : how == 1 ? "foreach" : how == 2 ? "a further resize" : "shrink_to_fit");
    cstl_hash_resize(&H, from[v], cstl_hash_div);
    for (i = 0; i < NE; i++) cstl_hash_insert(&H, E[i].key, &E[i]);
    cstl_hash_rehash(&H);
    VRT_OP1("hash.resize", "%ld buckets (pending)", (long)to[v]);
    cstl_hash_resize(&H, to[v], (idx & 1) ? cstl_hash_mul : cstl_hash_div);
    for (i = 0; i < ncalls && H.bucket.rh.hash != NULL; i++) {
        const int k = (int)vrt_below(&g, (uint32_t)NE);
        if ((i & 255) == 0) VRT_OP1("hash.find", "keyed call %ld while pending", i);
        VRT_CHECK(cstl_hash_find(&H, E[k].key, NULL, NULL) == &E[k], "hashwork.lost-element", "element %d not found while the rehash is pending", k);
    }
    if (H.bucket.rh.hash != NULL) VRT_COUNT("forced.finish-with-rehash-still-pending");
    VRT_MAX("max.forced.sweep-position-at-forced-finish", H.bucket.rh.clean);
    switch (how) {
    case 0: VRT_OP0("hash.rehash", "forced finish"); cstl_hash_rehash(&H); break;
    case 1: { long n = 0; VRT_OP0("hash.foreach", "forced finish"); cstl_hash_foreach(&H, visit_count, &n); break; }
    case 2:
        /* a further resize: smaller, or (every second case) far beyond the current capacity while the earlier one is partly worked off */
        VRT_OP0("hash.resize", "forced finish by a further resize");
        if (idx & 8) { cstl_hash_resize(&H, 3 * (from[v] > to[v] ? from[v] : to[v]) + 11, cstl_hash_div); VRT_COUNT("forced.further-resize-beyond-capacity"); }
        else cstl_hash_resize(&H, to[v] / 2 + 7, cstl_hash_div);
        cstl_hash_rehash(&H);
        break;
    default:
        /* shrink_to_fit finishes the rehash only when it has something to give back; otherwise it is a no-op and rehash() finishes */
        VRT_OP0("hash.shrink_to_fit", "possibly forcing the finish"); cstl_hash_shrink_to_fit(&H);
        if (H.bucket.rh.hash != NULL) { VRT_COUNT("forced.shrink_to_fit-left-it-pending"); cstl_hash_rehash(&H); }
        break;
    }
    VRT_CHECK(H.bucket.rh.hash == NULL, "hashwork.forced-finish-left-it-pending", "a rehash is still pending after rehash / foreach / a further resize + rehash");
    audit_all("after the forced finish");
    /* and the table goes on working: one more resize worked off incrementally */
    cstl_hash_resize(&H, from[v], cstl_hash_div);
    for (i = 0; i < NE; i++) VRT_CHECK(cstl_hash_find(&H, E[i].key, NULL, NULL) == &E[i], "hashwork.lost-element", "element %d not found after the following resize", i);
    audit_all("after the following resize");
    /* further lives of the same table object: clear, then a FIRST resize that is large (8192 .. 20000 buckets: allocator and
     * implementation thresholds), fill, a geometry change worked off incrementally, audit -- after an odd and an even number of
     * earlier resizes */
    {
        int life;
        for (life = 0; life < 2 + (int)(idx & 1); life++) {
            VRT_OP1("hash.clear", "life %ld ends", (long)life);
            cstl_hash_clear(&H, NULL);
            VRT_OP0("hash.resize", "large first resize of a cleared table");
            cstl_hash_resize(&H, 8192 + (size_t)vrt_below(&g, 12000), (life & 1) ? cstl_hash_mul : cstl_hash_div);
            for (i = 0; i < NE; i++) cstl_hash_insert(&H, E[i].key, &E[i]);
            if (life & 1) cstl_hash_rehash(&H);
            cstl_hash_resize(&H, 3000 + (size_t)vrt_below(&g, 6000), cstl_hash_div);
            for (i = 0; i < NE; i++) VRT_CHECK(cstl_hash_find(&H, E[i].key, NULL, NULL) == &E[i], "hashwork.lost-element", "life %d: element %d not found after the geometry change", life, i);
            audit_all("in a later life of the table object");
            VRT_COUNT("forced.later-lives-with-a-large-first-resize");
        }
    }
    cstl_hash_clear(&H, NULL);
    vrt_free(E);
    VRT_COUNT("forced.cases");
}

static uint64_t ntouch(void) { return strcmp(vrt_config, "rel-native") == 0 ? (vrt_thorough ? 16 : 4) : 0; }
static uint64_t ncases(void) { return ntouch() + (vrt_thorough ? 200 : 40); }
static void run_case(uint64_t idx)
{
    vrt_rng_seed(&g, vrt_seed, 0x4a5700 + idx);
    vrt_state(idx < ntouch() ? "page-touch" : "forced-finish");
    if (idx < ntouch()) run_touch(idx); else run_forced(idx - ntouch());
    vrt_sig(0, vrt_mix(0x4a57, idx));
}
static void winit(void) { vrt_sig_name(0, "cases"); }
static const char *const required[] = { "forced.cases", "forced.finish-with-rehash-still-pending", "forced.further-resize-beyond-capacity", "forced.later-lives-with-a-large-first-resize", NULL };
static const char *const required_native[] = { "forced.cases", "forced.finish-with-rehash-still-pending", "forced.further-resize-beyond-capacity", "forced.later-lives-with-a-large-first-resize", "touch.emptied-under-the-monitor", "touch.cases", "touch.keyed-calls-monitored",
                                               "touch.completing-call-observed", NULL };
static struct vrt_harness H_ = { "hashwork", ncases, run_case, winit, NULL, required, 16 };
int main(int argc, char **argv)
{
    int i;
    for (i = 1; i + 1 < argc; i++) if (strcmp(argv[i], "--config") == 0 && strcmp(argv[i + 1], "rel-native") == 0) H_.required = required_native;
    return vrt_main(argc, argv, &H_);
}
