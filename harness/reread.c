/*
 * reread.c -- "look, change, look again" inside ONE caller function, compiled with optimisation.
 *
 * The accessors of every container (size, front/back, get, find, at, data, str, unique, ...) are declared, and many
 * of them defined, in the public headers.  What a client's compiler may assume about them -- a function attribute
 * such as const/pure/malloc/nonnull/returns_nonnull, an inline body that caches a value -- is therefore library
 * behaviour: `__attribute__((const))` on an accessor lets the caller's compiler fold the second call into the first
 * across a push or a pop, and the client then sees a stale top/size/pointer although the library object is fine.
 * The model-based harnesses call each accessor once per audit function, so nothing can be folded there.  Here every
 * family gets one function in which accessors are called, the object is changed through the API, and the same
 * accessors are called again with the same argument expressions; every result is compared with a value that is
 * known by construction.  mode = the family (trees, hash, heap, map, vector, string, dlist, slist, array, memory).
 * Compiled -O2 (and -O1 in the debug configuration).
 */
#include "vrt.h"
#include <stdio.h>
#include <string.h>
#include <stdint.h>
#include <wchar.h>
#include <cstl/bintree.h>
#include <cstl/rbtree.h>
#include <cstl/hash.h>
#include <cstl/heap.h>
#include <cstl/map.h>
#include <cstl/vector.h>
#include <cstl/string.h>
#include <cstl/dlist.h>
#include <cstl/slist.h>
#include <cstl/array.h>
#include <cstl/memory.h>

#define N 48
#define CK(cond, key, ...) VRT_CHECK(cond, "reread." key, __VA_ARGS__)

struct el {
    uint64_t pad0;
    int key;
    struct cstl_bintree_node bn;
    struct cstl_rbtree_node rn;
    struct cstl_heap_node hn;
    struct cstl_hash_node xn;
    struct cstl_dlist_node dn;
    struct cstl_slist_node sn;
};
static struct el *E[N];
/* The ordering key of element i lives in a file-scope table that never leaves this translation unit and is WRITTEN
 * BY THE CALLER right before the element is handed to the library: a prototype that wrongly promises "this call
 * does not call back into the caller" (__attribute__((leaf))) lets the caller's compiler move that store across
 * the call, and the comparison callback then sees the old value.  Callbacks also count into file-scope counters
 * that are read right after the call. */
static int keytab[N];
static int ncallbacks;
static int cmp_el(const void *a, const void *b, void *p)
{
    const struct el *x = a, *y = b;
    const int kx = keytab[x->key], ky = keytab[y->key];
    (void)p;
    return vrt_cmp_result((kx > ky) - (kx < ky), (unsigned)(kx * 7 + ky));
}
#define KEY(e) (keytab[(e)->key])
static void mk(void)
{
    int i;
    /* el.key is the element's index into keytab; the table entry is filled in by the family function */
    for (i = 0; i < N; i++) { E[i] = vrt_alloc(sizeof(struct el)); memset(E[i], 0x5e, sizeof(struct el)); E[i]->key = i; keytab[i] = -1000 - i; }
    ncallbacks = 0;
}
static void noop(void *e, void *p) { (void)e; (void)p; ncallbacks++; }
static void unmk(void) { int i; for (i = 0; i < N; i++) vrt_free(E[i]); }

/* ---- trees ---- */
static __attribute__((noinline)) void f_trees(void)
{
    struct cstl_bintree bt;
    struct cstl_rbtree rt;
    int i;
    mk();
    cstl_bintree_init(&bt, cmp_el, NULL, offsetof(struct el, bn));
    cstl_rbtree_init(&rt, cmp_el, NULL, offsetof(struct el, rn));
    {
        VRT_OP0("bintree.insert", "three elements, keys 10 30 20 written just before each insert");
        keytab[0] = 10; cstl_bintree_insert(&bt, E[0], NULL);
        keytab[1] = 30; cstl_bintree_insert(&bt, E[1], NULL);
        keytab[2] = 20; cstl_bintree_insert(&bt, E[2], NULL);
        CK(cstl_bintree_find(&bt, E[2], NULL) == E[2] && cstl_bintree_find(&bt, E[1], NULL) == E[1] && cstl_bintree_find(&bt, E[0], NULL) == E[0],
           "trees.indirect-keys", "an element is not found under the key that was written just before its insert");
        keytab[3] = 10; cstl_rbtree_insert(&rt, E[3], NULL);
        keytab[4] = 30; cstl_rbtree_insert(&rt, E[4], NULL);
        keytab[5] = 20; cstl_rbtree_insert(&rt, E[5], NULL);
        CK(cstl_rbtree_find(&rt, E[5], NULL) == E[5] && cstl_rbtree_find(&rt, E[4], NULL) == E[4] && cstl_rbtree_find(&rt, E[3], NULL) == E[3],
           "trees.indirect-keys", "an element is not found under the key that was written just before its insert (rbtree)");
        CK(cstl_bintree_erase(&bt, E[0]) == E[0] && cstl_bintree_erase(&bt, E[1]) == E[1] && cstl_bintree_erase(&bt, E[2]) == E[2]
           && cstl_rbtree_erase(&rt, E[3]) == E[3] && cstl_rbtree_erase(&rt, E[4]) == E[4] && cstl_rbtree_erase(&rt, E[5]) == E[5], "trees.indirect-keys.erase", "erase of the three elements");
        for (i = 0; i < 6; i++) keytab[i] = -1000 - i;
    }
    for (i = 0; i < N; i++) {
        struct el *const e = E[i], *const ep = i > 0 ? E[i - 1] : NULL;     /* locals: the same argument VALUES in every call */
        const size_t s0 = cstl_bintree_size(&bt), r0 = cstl_rbtree_size(&rt);
        const void *f0 = cstl_bintree_find(&bt, e, NULL), *g0 = cstl_rbtree_find(&rt, e, NULL);
        size_t s1, r1;
        const void *f1, *g1;
        VRT_OP1("bintree.insert", "key %ld", ((i * 29) % N));
        keytab[i] = (i * 29) % N;      /* the store sits directly in front of the library call */
        cstl_bintree_insert(&bt, e, NULL);
        cstl_rbtree_insert(&rt, e, NULL);
        s1 = cstl_bintree_size(&bt); r1 = cstl_rbtree_size(&rt);
        f1 = cstl_bintree_find(&bt, e, NULL); g1 = cstl_rbtree_find(&rt, e, NULL);
        CK(f0 == NULL && g0 == NULL, "trees.find-before-insert", "find of a key that was never inserted returned an element");
        CK(s1 == s0 + 1 && r1 == r0 + 1, "trees.size-after-insert", "size %zu -> %zu (bintree), %zu -> %zu (rbtree) across an insert", s0, s1, r0, r1);
        CK(f1 == e && g1 == e, "trees.find-after-insert", "find right after the insert did not return the element");
        if (i % 3 == 2) {
            size_t s2, r2;
            const void *f2, *g2;
            const void *fp = cstl_bintree_find(&bt, ep, NULL), *gp = cstl_rbtree_find(&rt, ep, NULL);
            VRT_OP1("bintree.erase", "key %ld", KEY(ep));
            CK(fp == ep && gp == ep, "trees.find-before-erase", "an element inserted earlier is not found");
            CK(cstl_bintree_erase(&bt, ep) == ep && cstl_rbtree_erase(&rt, ep) == ep, "trees.erase", "erase did not return the element");
            s2 = cstl_bintree_size(&bt); r2 = cstl_rbtree_size(&rt);
            f2 = cstl_bintree_find(&bt, ep, NULL); g2 = cstl_rbtree_find(&rt, ep, NULL);
            CK(s2 == s1 - 1 && r2 == r1 - 1 && f2 == NULL && g2 == NULL, "trees.after-erase", "size/find right after an erase are stale");
            CK(cstl_bintree_find(&bt, e, NULL) == e && cstl_rbtree_find(&rt, e, NULL) == e, "trees.find-other-after-erase", "another element is no longer found");
        }
        VRT_COUNT("reread.rounds");
    }
    {
        const size_t left = cstl_bintree_size(&bt);
        ncallbacks = 0;
        cstl_bintree_clear(&bt, noop, NULL);
        CK((size_t)ncallbacks == left, "trees.clear-callbacks", "bintree clear of %zu elements: the caller counted %d callbacks", left, ncallbacks);
        cstl_rbtree_clear(&rt, noop, NULL);
        CK((size_t)ncallbacks == 2 * left, "trees.clear-callbacks", "rbtree clear of %zu elements: the caller counted %d callbacks in total", left, ncallbacks);
    }
    CK(cstl_bintree_size(&bt) == 0 && cstl_rbtree_size(&rt) == 0 && cstl_bintree_find(&bt, E[0], NULL) == NULL && cstl_rbtree_find(&rt, E[0], NULL) == NULL,
       "trees.after-clear", "size/find after clear are stale");
    unmk();
}

/* ---- heap ---- */
static __attribute__((noinline)) void f_heap(void)
{
    struct cstl_heap h;
    int i, mx = -1;
    mk();
    cstl_heap_init(&h, cmp_el, NULL, offsetof(struct el, hn));
    {
        /* straight-line, constant stores to neighbouring table entries, each directly in front of the call that makes
         * the library compare with it (what a compiler merges and sinks if it believes the call cannot look) */
        const void *g;
        VRT_OP0("heap.push", "three elements, priorities 10 30 20 written just before each push");
        keytab[0] = 10; cstl_heap_push(&h, E[0]);
        keytab[1] = 30; cstl_heap_push(&h, E[1]);
        keytab[2] = 20; cstl_heap_push(&h, E[2]);
        g = cstl_heap_get(&h);
        CK(g == E[1], "heap.indirect-priorities", "the top of the heap is not the element whose priority was written as 30 before its push");
        CK(cstl_heap_pop(&h) == E[1] && cstl_heap_pop(&h) == E[2] && cstl_heap_pop(&h) == E[0] && cstl_heap_pop(&h) == NULL, "heap.indirect-priorities.pop-order", "pops do not come in priority order 30 20 10");
        keytab[0] = -1000; keytab[1] = -1001; keytab[2] = -1002;
    }
    for (i = 0; i < N; i++) {
        const void *g0 = cstl_heap_get(&h), *g1;
        const size_t s0 = cstl_heap_size(&h);
        size_t s1;
        VRT_OP1("heap.push", "key %ld", ((i * 29) % N));
        keytab[i] = (i * 29) % N;      /* the store sits directly in front of the library call */
        cstl_heap_push(&h, E[i]);
        if (keytab[i] > mx) mx = keytab[i];
        g1 = cstl_heap_get(&h); s1 = cstl_heap_size(&h);
        CK((i == 0) == (g0 == NULL), "heap.get-before-push", "get before push %d returned %p", i, g0);
        CK(s1 == s0 + 1 && g1 != NULL && KEY((const struct el *)g1) == mx, "heap.after-push", "size/get right after a push are stale (size %zu -> %zu)", s0, s1);
        VRT_COUNT("reread.rounds");
    }
    for (i = N - 1; i >= 0; i--) {
        const void *g0 = cstl_heap_get(&h), *g1;
        void *p;
        VRT_OP0("heap.pop", "");
        p = cstl_heap_pop(&h);
        g1 = cstl_heap_get(&h);
        CK(p == g0 && KEY((struct el *)p) == i, "heap.pop", "pop returned key %d, expected %d", p ? KEY((struct el *)p) : -1, i);
        CK(cstl_heap_size(&h) == (size_t)i && (i == 0 ? g1 == NULL : (g1 != NULL && KEY((const struct el *)g1) == i - 1)), "heap.after-pop", "size/get right after a pop are stale");
    }
    unmk();
}

/* ---- hash ---- */
static int nvisits;
static int count_visit(const void *e, void *p) { (void)e; ++*(size_t *)p; nvisits++; return 0; }
static __attribute__((noinline)) void f_hash(void)
{
    struct cstl_hash h;
    int i;
    mk();
    cstl_hash_init(&h, offsetof(struct el, xn));
    cstl_hash_resize(&h, 8, NULL);
    for (i = 0; i < N; i++) {
        const size_t k = (size_t)((i * 29) % N) * 0x100000001ull, s0 = cstl_hash_size(&h);
        const float l0 = cstl_hash_load(&h);
        struct el *const e = E[i];
        void *f0 = cstl_hash_find(&h, k, NULL, NULL), *f1;
        size_t s1;
        float l1;
        VRT_OP1("hash.insert", "key %ld", (long)k);
        cstl_hash_insert(&h, k, e);
        s1 = cstl_hash_size(&h); l1 = cstl_hash_load(&h); f1 = cstl_hash_find(&h, k, NULL, NULL);
        CK(f0 == NULL && f1 == e && s1 == s0 + 1 && l1 > l0, "hash.after-insert", "size/load/find right after an insert are stale (size %zu -> %zu)", s0, s1);
        if (i == 20) { cstl_hash_resize(&h, 32, NULL); CK(cstl_hash_load(&h) < l1 && cstl_hash_find(&h, k, NULL, NULL) == e, "hash.after-resize", "load/find right after a resize are stale"); }
        if (i % 4 == 3) {
            VRT_OP1("hash.erase", "key %ld", (long)k);
            cstl_hash_erase(&h, e);
            CK(cstl_hash_size(&h) == s0 && cstl_hash_find(&h, k, NULL, NULL) == NULL, "hash.after-erase", "size/find right after an erase are stale");
        }
        VRT_COUNT("reread.rounds");
    }
    {
        const size_t left = cstl_hash_size(&h);
        size_t seen = 0;
        CK(cstl_hash_foreach_const(&h, count_visit, &seen) == 0 && seen == left && (size_t)nvisits == left, "hash.foreach-callbacks",
           "foreach_const over %zu elements: %zu / %d visits counted by the caller", left, seen, nvisits);
        ncallbacks = 0;
        cstl_hash_clear(&h, noop);
        CK((size_t)ncallbacks == left, "hash.clear-callbacks", "clear of %zu elements: the caller counted %d callbacks", left, ncallbacks);
    }
    CK(cstl_hash_size(&h) == 0, "hash.after-clear", "size after clear is stale");
    unmk();
}

/* ---- map ---- */
static int ncmp_int;
static int cmp_int(const void *a, const void *b, void *p) { (void)p; ncmp_int++; return (*(const int *)a > *(const int *)b) - (*(const int *)a < *(const int *)b); }
static __attribute__((noinline)) void f_map(void)
{
    cstl_map_t m;
    static int keys[N], vals[N];
    int i;
    cstl_map_init(&m, cmp_int, NULL);
    for (i = 0; i < N; i++) {
        cstl_map_iterator_t it0, it1;
        const size_t s0 = cstl_map_size(&m);
        int r;
        int *const kp = &keys[i];
        keys[i] = (i * 29) % N; vals[i] = i;
        cstl_map_find(&m, kp, &it0);
        VRT_OP1("map.insert", "key %ld", keys[i]);
        r = cstl_map_insert(&m, kp, &vals[i], NULL);
        cstl_map_find(&m, kp, &it1);
        CK(r == 0 && cstl_map_size(&m) == s0 + 1 && cstl_map_iterator_eq(&it0, cstl_map_iterator_end(&m)) && !cstl_map_iterator_eq(&it1, cstl_map_iterator_end(&m))
           && it1.key == &keys[i] && it1.val == &vals[i], "map.after-insert", "size/find right after an insert are stale");
        if (i % 3 == 2) {
            cstl_map_iterator_t it2;
            VRT_OP1("map.erase", "key %ld", keys[i - 1]);
            CK(cstl_map_erase(&m, &keys[i - 1], NULL) == 0, "map.erase", "erase of a present key failed");
            cstl_map_find(&m, &keys[i - 1], &it2);
            CK(cstl_map_size(&m) == s0 && cstl_map_iterator_eq(&it2, cstl_map_iterator_end(&m)), "map.after-erase", "size/find right after an erase are stale");
        }
        VRT_COUNT("reread.rounds");
    }
    {
        const size_t left = cstl_map_size(&m);
        cstl_map_iterator_t it;
        int probe = keys[N - 1], c0 = ncmp_int;
        cstl_map_find(&m, &probe, &it);
        CK(ncmp_int > c0, "map.find-comparisons", "a find in a map of %zu entries: the caller counted no comparison", left);
        ncallbacks = 0;
        cstl_map_clear(&m, noop, NULL);
        CK((size_t)ncallbacks == left, "map.clear-callbacks", "clear of %zu entries: the caller counted %d callbacks", left, ncallbacks);
    }
    CK(cstl_map_size(&m) == 0, "map.after-clear", "size after clear is stale");
}

/* ---- vector ---- */
static int nctor, ndtor;
static void v_ctor(void *e, void *p) { (void)p; *(uint32_t *)e = 0xC0C0C0C0u; nctor++; }
static void v_dtor(void *e, void *p) { (void)p; *(uint32_t *)e = 0xDDDDDDDDu; ndtor++; }
static int nvcmp;
static int cmp_u32(const void *a, const void *b, void *p) { (void)p; nvcmp++; return (*(const uint32_t *)a > *(const uint32_t *)b) - (*(const uint32_t *)a < *(const uint32_t *)b); }
static __attribute__((noinline)) void f_vector(void)
{
    struct cstl_vector v;
    size_t n;
    cstl_vector_init(&v, sizeof(uint64_t));
    for (n = 1; n <= 3000; n = n * 2 + 1) {
        const size_t s0 = cstl_vector_size(&v), c0 = cstl_vector_capacity(&v);
        size_t s1, c1, k;
        void *d1;
        VRT_OP1("vector.resize", "-> %ld", (long)n);
        cstl_vector_resize(&v, n);
        s1 = cstl_vector_size(&v); c1 = cstl_vector_capacity(&v); d1 = cstl_vector_data(&v);
        CK(s1 == n && c1 >= n && c1 >= c0 && s0 < s1 && d1 != NULL, "vector.after-resize", "size/capacity/data right after a resize are stale (%zu -> %zu)", s0, s1);
        CK(cstl_vector_at(&v, 0) == d1 && cstl_vector_at(&v, n - 1) == (char *)d1 + (n - 1) * sizeof(uint64_t) && cstl_vector_at_const(&v, n / 2) == (char *)d1 + (n / 2) * sizeof(uint64_t),
           "vector.at-after-resize", "at() right after a resize does not point into the current buffer");
        for (k = s0; k < n; k++) *(uint64_t *)cstl_vector_at(&v, k) = k * 3;
        CK(VRT_ABORTS((void)cstl_vector_at(&v, n)), "vector.at-size-no-abort", "at(size) right after a resize returned");
        VRT_COUNT("reread.rounds");
    }
    {
        size_t k;
        for (k = 0; k < cstl_vector_size(&v); k++) CK(*(uint64_t *)cstl_vector_at(&v, k) == k * 3, "vector.content", "element %zu lost its value", k);
        VRT_OP0("vector.shrink", "resize 7 + shrink_to_fit");
        cstl_vector_resize(&v, 7); cstl_vector_shrink_to_fit(&v);
        CK(cstl_vector_size(&v) == 7 && cstl_vector_capacity(&v) == 7 && cstl_vector_at(&v, 6) == (char *)cstl_vector_data(&v) + 6 * 8 && *(uint64_t *)cstl_vector_at(&v, 6) == 18,
           "vector.after-shrink", "size/capacity/data/at right after shrinking are stale");
        cstl_vector_clear(&v);
        CK(cstl_vector_size(&v) == 0 && cstl_vector_capacity(&v) == 0 && cstl_vector_data(&v) == NULL, "vector.after-clear", "size/capacity/data after clear are stale");
    }
    {
        struct cstl_vector w;
        cstl_vector_init_complex(&w, sizeof(uint32_t), v_ctor, v_dtor, NULL);
        nctor = ndtor = 0;
        cstl_vector_resize(&w, 100);
        CK(nctor == 100 && ndtor == 0, "vector.constructor-calls", "growing by 100 elements: the caller counted %d constructor calls", nctor);
        cstl_vector_resize(&w, 40);
        CK(ndtor == 60, "vector.destructor-calls", "shrinking by 60 elements: the caller counted %d destructor calls", ndtor);
        cstl_vector_clear(&w);
        CK(ndtor == 100 && nctor == 100, "vector.destructor-calls", "after clear: %d constructor and %d destructor calls for 100 elements", nctor, ndtor);
        /* sort with a comparator that counts into file-scope state */
        cstl_vector_init(&w, sizeof(uint32_t));
        cstl_vector_resize(&w, 64);
        { size_t k; for (k = 0; k < 64; k++) *(uint32_t *)cstl_vector_at(&w, k) = (uint32_t)((k * 37) % 64); }
        nvcmp = 0;
        cstl_vector_sort(&w, cmp_u32, NULL);
        { size_t k; for (k = 0; k < 64; k++) CK(*(uint32_t *)cstl_vector_at(&w, k) == k, "vector.sort", "element %zu after sort", k); }
        CK(nvcmp >= 63, "vector.sort-comparisons", "sorting 64 elements: the caller counted %d comparisons", nvcmp);
        { uint32_t probe = 17; CK(cstl_vector_search(&w, &probe, cmp_u32, NULL) == 17 && cstl_vector_find(&w, &probe, cmp_u32, NULL) == 17, "vector.search", "search/find of a present value"); }
        cstl_vector_clear(&w);
    }
}

/* ---- string ---- */
static __attribute__((noinline)) void f_string(void)
{
    cstl_string_t s;
    cstl_wstring_t w;
    char ref[256];
    int i;
    cstl_string_init(&s); cstl_wstring_init(&w);
    ref[0] = 0;
    for (i = 0; i < 40; i++) {
        const size_t s0 = cstl_string_size(&s), w0 = cstl_wstring_size(&w);
        const char *p1;
        const int emp0 = cstl_string_str(&s)[0] == 0;
        const char c = (char)('a' + i % 26);
        const int cmp0 = cstl_string_compare_str(&s, ref);
        const ssize_t e0 = strchr(ref, c) ? (ssize_t)(strchr(ref, c) - ref) : -1;
        ssize_t f0 = s0 > 0 ? cstl_string_find_ch(&s, c, 0) : -1, f1;
        VRT_OP1("string.append_ch", "'%ld'", c);
        cstl_string_append_ch(&s, 3, c); cstl_wstring_append_ch(&w, 2, (wchar_t)(0x100 + i));
        ref[s0] = ref[s0 + 1] = ref[s0 + 2] = c; ref[s0 + 3] = 0;
        p1 = cstl_string_str(&s);
        f1 = cstl_string_find_ch(&s, c, 0);
        CK(cmp0 == 0 && emp0 == (s0 == 0), "string.before-append", "compare with the reference before the append is %d", cmp0);
        CK(cstl_string_size(&s) == s0 + 3 && cstl_wstring_size(&w) == w0 + 2 && strcmp(p1, ref) == 0 && cstl_string_compare_str(&s, ref) == 0
           && *cstl_string_at(&s, s0 + 2) == c && p1[s0 + 3] == 0 && *cstl_wstring_at(&w, w0 + 1) == (wchar_t)(0x100 + i) && cstl_wstring_str(&w)[w0 + 2] == 0,
           "string.after-append", "size/str/at/compare right after an append are stale");
        CK(f0 == e0 && f1 == (ssize_t)(strchr(ref, c) - ref), "string.find-after-append", "find_ch before/after the append: %zd / %zd, expected %zd / %zd", f0, f1, e0, (ssize_t)(strchr(ref, c) - ref));
        if (i % 5 == 4) {
            VRT_OP0("string.erase", "pos 1 count 2");
            cstl_string_erase(&s, 1, 2); memmove(ref + 1, ref + 3, strlen(ref + 3) + 1);
            CK(cstl_string_size(&s) == strlen(ref) && strcmp(cstl_string_str(&s), ref) == 0, "string.after-erase", "size/str right after an erase are stale");
            /* keep find positions predictable: put the two characters back */
            cstl_string_insert_ch(&s, 1, 2, ref[0]); memmove(ref + 3, ref + 1, strlen(ref + 1) + 1); ref[1] = ref[2] = ref[0];
            CK(strcmp(cstl_string_str(&s), ref) == 0, "string.after-insert", "str right after an insert is stale");
        }
        VRT_COUNT("reread.rounds");
    }
    cstl_string_clear(&s); cstl_wstring_clear(&w);
    CK(cstl_string_size(&s) == 0 && cstl_string_str(&s)[0] == 0 && cstl_wstring_size(&w) == 0, "string.after-clear", "size/str after clear are stale");
}

/* ---- lists ---- */
static int lv_last, lv_count, lv_bad;
static int order_visit(void *e, void *p)
{
    const int k = KEY((struct el *)e);
    (void)p;
    if (k < lv_last) lv_bad++;
    lv_last = k; lv_count++;
    return 0;
}
static __attribute__((noinline)) void f_dlist(void)
{
    struct cstl_dlist l;
    int i;
    mk();
    cstl_dlist_init(&l, offsetof(struct el, dn));
    {
        VRT_OP0("dlist.sort", "three elements, keys 30 10 20 written just before each push_back");
        keytab[0] = 30; cstl_dlist_push_back(&l, E[0]);
        keytab[1] = 10; cstl_dlist_push_back(&l, E[1]);
        keytab[2] = 20; cstl_dlist_push_back(&l, E[2]);
        cstl_dlist_sort(&l, cmp_el, NULL);
        CK(cstl_dlist_front(&l) == E[1] && cstl_dlist_back(&l) == E[0], "dlist.indirect-keys", "after sort front/back are not the elements whose keys were written as 10 and 30");
        /* a list does not depend on the keys: the owner re-prioritises an element and sorts again, the store directly in front of the sort */
        keytab[0] = 5; cstl_dlist_sort(&l, cmp_el, NULL); keytab[1] = 10;     /* the neighbouring entry is (re)written right after the call */
        CK(cstl_dlist_front(&l) == E[0] && cstl_dlist_back(&l) == E[2], "dlist.indirect-keys.resort", "after the second sort front/back are not the elements with keys 5 and 20");
        CK(cstl_dlist_pop_front(&l) == E[0] && cstl_dlist_pop_front(&l) == E[1] && cstl_dlist_pop_front(&l) == E[2], "dlist.indirect-keys.order", "sorted order is not 5 10 20");
        keytab[0] = -1000; keytab[1] = -1001; keytab[2] = -1002;
    }
    for (i = 0; i < N; i++) {
        const size_t s0 = cstl_dlist_size(&l);
        void *f0 = cstl_dlist_front(&l), *b0 = cstl_dlist_back(&l), *f1, *b1;
        VRT_OP1("dlist.push", "%ld", i);
        keytab[i] = (i * 29) % N;      /* the store sits directly in front of the library call */
        if (i & 1) cstl_dlist_push_front(&l, E[i]); else cstl_dlist_push_back(&l, E[i]);
        f1 = cstl_dlist_front(&l); b1 = cstl_dlist_back(&l);
        CK(cstl_dlist_size(&l) == s0 + 1 && (i == 0 ? (f0 == NULL && b0 == NULL && f1 == E[0] && b1 == E[0]) : (i & 1) ? (f1 == E[i] && b1 == b0) : (b1 == E[i] && f1 == f0)),
           "dlist.after-push", "size/front/back right after a push are stale");
        VRT_COUNT("reread.rounds");
    }
    {
        /* sort by keys the caller wrote into its own table, then walk with a visitor that counts into file-scope state */
        VRT_OP0("dlist.sort", "");
        cstl_dlist_sort(&l, cmp_el, NULL);
        lv_last = -1; lv_count = 0; lv_bad = 0;
        CK(cstl_dlist_foreach(&l, order_visit, NULL, CSTL_DLIST_FOREACH_DIR_FWD) == 0 && lv_count == N && lv_bad == 0, "dlist.sort-foreach", "after sort the visitor saw %d elements, %d out of order", lv_count, lv_bad);
        CK(KEY((struct el *)cstl_dlist_front(&l)) == 0 && KEY((struct el *)cstl_dlist_back(&l)) == N - 1, "dlist.sort-front-back", "front/back after sort are not the least/greatest element");
    }
    for (i = 0; i < N; i++) {
        void *f0 = cstl_dlist_front(&l), *b0 = cstl_dlist_back(&l), *p;
        VRT_OP1("dlist.pop", "%ld", i);
        p = (i & 1) ? cstl_dlist_pop_front(&l) : cstl_dlist_pop_back(&l);
        CK(p == ((i & 1) ? f0 : b0) && cstl_dlist_size(&l) == (size_t)(N - 1 - i) && (i == N - 1 ? (cstl_dlist_front(&l) == NULL && cstl_dlist_back(&l) == NULL)
           : ((i & 1) ? (cstl_dlist_front(&l) != f0 && cstl_dlist_back(&l) == b0) : (cstl_dlist_back(&l) != b0 && cstl_dlist_front(&l) == f0))),
           "dlist.after-pop", "size/front/back right after a pop are stale");
    }
    unmk();
}
static __attribute__((noinline)) void f_slist(void)
{
    struct cstl_slist l;
    int i;
    mk();
    cstl_slist_init(&l, offsetof(struct el, sn));
    {
        VRT_OP0("slist.sort", "three elements, keys 30 10 20 written just before each push_back");
        keytab[0] = 30; cstl_slist_push_back(&l, E[0]);
        keytab[1] = 10; cstl_slist_push_back(&l, E[1]);
        keytab[2] = 20; cstl_slist_push_back(&l, E[2]);
        cstl_slist_sort(&l, cmp_el, NULL);
        CK(cstl_slist_front(&l) == E[1] && cstl_slist_back(&l) == E[0], "slist.indirect-keys", "after sort front/back are not the elements whose keys were written as 10 and 30");
        /* a list does not depend on the keys: the owner re-prioritises an element and sorts again, the store directly in front of the sort */
        keytab[0] = 5; cstl_slist_sort(&l, cmp_el, NULL); keytab[1] = 10;     /* the neighbouring entry is (re)written right after the call */
        CK(cstl_slist_front(&l) == E[0] && cstl_slist_back(&l) == E[2], "slist.indirect-keys.resort", "after the second sort front/back are not the elements with keys 5 and 20");
        CK(cstl_slist_pop_front(&l) == E[0] && cstl_slist_pop_front(&l) == E[1] && cstl_slist_pop_front(&l) == E[2], "slist.indirect-keys.order", "sorted order is not 5 10 20");
        keytab[0] = -1000; keytab[1] = -1001; keytab[2] = -1002;
    }
    for (i = 0; i < N; i++) {
        const size_t s0 = cstl_slist_size(&l);
        void *f0 = cstl_slist_front(&l), *b0 = cstl_slist_back(&l), *f1, *b1;
        VRT_OP1("slist.push", "%ld", i);
        keytab[i] = (i * 29) % N;      /* the store sits directly in front of the library call */
        if (i & 1) cstl_slist_push_front(&l, E[i]); else cstl_slist_push_back(&l, E[i]);
        f1 = cstl_slist_front(&l); b1 = cstl_slist_back(&l);
        CK(cstl_slist_size(&l) == s0 + 1 && (i == 0 ? (f0 == NULL && b0 == NULL && f1 == E[0] && b1 == E[0]) : (i & 1) ? (f1 == E[i] && b1 == b0) : (b1 == E[i] && f1 == f0)),
           "slist.after-push", "size/front/back right after a push are stale");
        VRT_COUNT("reread.rounds");
    }
    {
        /* sort by keys the caller wrote into its own table, then walk with a visitor that counts into file-scope state */
        VRT_OP0("slist.sort", "");
        cstl_slist_sort(&l, cmp_el, NULL);
        lv_last = -1; lv_count = 0; lv_bad = 0;
        CK(cstl_slist_foreach(&l, order_visit, NULL) == 0 && lv_count == N && lv_bad == 0, "slist.sort-foreach", "after sort the visitor saw %d elements, %d out of order", lv_count, lv_bad);
        CK(KEY((struct el *)cstl_slist_front(&l)) == 0 && KEY((struct el *)cstl_slist_back(&l)) == N - 1, "slist.sort-front-back", "front/back after sort are not the least/greatest element");
    }
    for (i = 0; i < N; i++) {
        void *f0 = cstl_slist_front(&l), *b0 = cstl_slist_back(&l), *p;
        VRT_OP1("slist.pop_front", "%ld", i);
        p = cstl_slist_pop_front(&l);
        CK(p == f0 && cstl_slist_size(&l) == (size_t)(N - 1 - i) && (i == N - 1 ? (cstl_slist_front(&l) == NULL && cstl_slist_back(&l) == NULL) : (cstl_slist_front(&l) != f0 && cstl_slist_back(&l) == b0)),
           "slist.after-pop", "size/front/back right after a pop are stale");
    }
    CK(cstl_slist_pop_front(&l) == NULL && cstl_slist_size(&l) == 0, "slist.pop-empty", "pop_front on the emptied list");
    unmk();
}

/* ---- arrays ---- */
static __attribute__((noinline)) void f_array(void)
{
    cstl_array_t a, s;
    size_t n;
    cstl_array_init(&a); cstl_array_init(&s);
    for (n = 4; n <= 2000; n = n * 3 + 1) {
        const size_t s0 = cstl_array_size(&a);
        const void *d0 = cstl_array_data_const(&a);
        char *d1;
        VRT_OP1("array.alloc", "%ld x 4", (long)n);
        cstl_array_alloc(&a, n, 4);
        d1 = cstl_array_data(&a);
        CK(cstl_array_size(&a) == n && s0 != n && d1 != NULL && (s0 == 0) == (d0 == NULL) && cstl_array_at(&a, n - 1) == d1 + (n - 1) * 4,
           "array.after-alloc", "size/data/at right after an alloc are stale");
        VRT_OP0("array.slice", "[1, n-1)");
        cstl_array_slice(&a, 1, n - 1, &s);
        /* data() is documented as the UNDERLYING array, also for a view */
        CK(cstl_array_size(&s) == n - 2 && cstl_array_data(&s) == d1 && cstl_array_at_const(&s, 0) == d1 + 4 && cstl_array_at_const(&s, n - 3) == d1 + (n - 2) * 4, "array.after-slice", "size/data/at of the slice are stale");
        cstl_array_slice(&s, 1, 2, &s);
        CK(cstl_array_size(&s) == 1 && cstl_array_at(&s, 0) == d1 + 8, "array.after-slice-in-place", "size/data right after slicing in place are stale");
        CK(VRT_ABORTS((void)cstl_array_at(&s, 1)), "array.at-size-no-abort", "at(size) of the re-sliced view returned");
        cstl_array_unslice(&s, &s);
        CK(cstl_array_size(&s) == n && cstl_array_data(&s) == d1, "array.after-unslice", "size/data right after unslice are stale");
        cstl_array_reset(&s);
        CK(cstl_array_size(&s) == 0 && cstl_array_data(&s) == NULL, "array.after-reset", "size/data right after reset are stale");
        VRT_COUNT("reread.rounds");
    }
    cstl_array_reset(&a);
    CK(cstl_array_size(&a) == 0 && cstl_array_data_const(&a) == NULL && vrt_lib_live() == 0, "array.after-reset", "size/data after the final reset are stale");
}

/* ---- smart pointers ---- */
static int cleared;
static void clr(void *m, void *p) { (void)m; (void)p; cleared++; }
static __attribute__((noinline)) void f_memory(void)
{
    cstl_shared_ptr_t a, b;
    cstl_weak_ptr_t w;
    cstl_unique_ptr_t u, u2;
    int i;
    cstl_shared_ptr_init(&a); cstl_shared_ptr_init(&b); cstl_weak_ptr_init(&w); cstl_unique_ptr_init(&u); cstl_unique_ptr_init(&u2);
    for (i = 0; i < 24; i++) {
        void *g0 = cstl_shared_ptr_get(&a), *g1, *ub;
        const int c0 = cleared;
        VRT_OP1("shared_ptr.alloc", "round %ld", i);
        cstl_shared_ptr_alloc(&a, 16 + (size_t)i, clr);
        g1 = cstl_shared_ptr_get(&a);
        CK(g0 == NULL && g1 != NULL && cstl_shared_ptr_unique(&a), "memory.after-alloc", "get/unique right after an alloc are stale");
        cstl_shared_ptr_share(&a, &b);
        CK(!cstl_shared_ptr_unique(&a) && cstl_shared_ptr_get(&b) == g1 && cstl_shared_ptr_get_const(&a) == g1, "memory.after-share", "get/unique right after a share are stale");
        cstl_weak_ptr_from(&w, &a);
        cstl_shared_ptr_reset(&b);
        CK(cstl_shared_ptr_get(&b) == NULL && !cstl_shared_ptr_unique(&a) && cleared == c0, "memory.after-reset-of-co-owner", "get/unique right after resetting the co-owner are stale");
        cstl_weak_ptr_lock(&w, &b);
        CK(cstl_shared_ptr_get(&b) == g1, "memory.after-lock", "get right after a lock is stale");
        cstl_weak_ptr_reset(&w); cstl_shared_ptr_reset(&b);
        CK(cstl_shared_ptr_unique(&a) && cstl_shared_ptr_get(&a) == g1, "memory.after-weak-reset", "unique right after the last other reference went is stale");
        {
            const int c1 = cleared;         /* read directly in front of the call ... */
            cstl_shared_ptr_reset(&a);
            CK(cleared == c1 + 1, "memory.clear-callback-count", "the caller's counter went from %d to %d across the reset of the last owner", c1, cleared);   /* ... and directly behind it */
        }
        CK(cstl_shared_ptr_get(&a) == NULL && cleared == c0 + 1, "memory.after-last-reset", "get right after the last reset is stale, or the callback did not run exactly once");
        /* unique pointers */
        cstl_unique_ptr_alloc(&u, 8 + (size_t)i, NULL, NULL);
        ub = cstl_unique_ptr_get(&u);
        cstl_unique_ptr_swap(&u, &u2);
        CK(ub != NULL && cstl_unique_ptr_get(&u) == NULL && cstl_unique_ptr_get(&u2) == ub, "memory.unique.after-swap", "get right after a swap is stale");
        cstl_unique_ptr_reset(&u2);
        CK(cstl_unique_ptr_get_const(&u2) == NULL && vrt_lib_live() == 0, "memory.unique.after-reset", "get right after a reset is stale");
        VRT_COUNT("reread.rounds");
    }
}


/* ---- argument expressions with side effects ----
 * A client may write cstl_heap_get(&queue[i++]) or cstl_array_at(&a, next_index()): ISO C 7.1.4 promises that a library
 * function, also one that is additionally implemented as a function-like macro, evaluates each of its arguments exactly
 * once.  An accessor turned into a macro that mentions a parameter twice (an inline "fast path" in a public header) keeps
 * every object-level oracle happy as long as the arguments are plain variables -- which is what every model harness passes.
 * Here every public entry point of the family is called once with each argument wrapped in a counting expression, and the
 * accessors are additionally called through a cursor that walks over two objects. */
static int nev;
static void bump(void) { nev++; }      /* a call: argument evaluations are then indeterminately sequenced, not unsequenced */
#define A(x) (bump(), (x))
#define ONCE(n, entry, stmt) do { nev = 0; VRT_OP0(entry, "every argument expression has a side effect"); stmt; \
        CK(nev == (n), "once." entry, "the %d argument expressions of one call were evaluated %d times in total", (n), nev); \
        VRT_COUNT("reread.once-calls"); } while (0)
static int once_visit(void *e, void *p) { (void)e; ++*(int *)p; return 0; }
static int once_cvisit(const void *e, void *p) { (void)e; ++*(int *)p; return 0; }
static int once_bvisit(const void *e, cstl_bintree_visit_order_t o, void *p) { (void)e; (void)o; ++*(int *)p; return 0; }

static __attribute__((noinline)) void once_trees(void)
{
    struct cstl_bintree bt[2];
    struct cstl_rbtree rt[2];
    int c, cnt = 0;
    size_t mn, mx;
    const void *r;
    mk();
    keytab[0] = 10; keytab[1] = 20; keytab[2] = 30; keytab[3] = 40;
    ONCE(4, "bintree.init", cstl_bintree_init(A(&bt[0]), A(cmp_el), A(NULL), A(offsetof(struct el, bn))));
    ONCE(4, "bintree.init", cstl_bintree_init(A(&bt[1]), A(cmp_el), A(NULL), A(offsetof(struct el, bn))));
    ONCE(4, "rbtree.init", cstl_rbtree_init(A(&rt[0]), A(cmp_el), A(NULL), A(offsetof(struct el, rn))));
    ONCE(4, "rbtree.init", cstl_rbtree_init(A(&rt[1]), A(cmp_el), A(NULL), A(offsetof(struct el, rn))));
    ONCE(3, "bintree.insert", cstl_bintree_insert(A(&bt[0]), A(E[0]), A(NULL)));
    ONCE(3, "bintree.insert", cstl_bintree_insert(A(&bt[1]), A(E[1]), A(NULL)));
    ONCE(3, "rbtree.insert", cstl_rbtree_insert(A(&rt[0]), A(E[2]), A(NULL)));
    ONCE(3, "rbtree.insert", cstl_rbtree_insert(A(&rt[1]), A(E[3]), A(NULL)));
    /* the cursor walks over two trees: each call must look at exactly one of them and advance the cursor once */
    c = 0; r = cstl_bintree_find(&bt[c++], E[0], NULL); CK(c == 1 && r == E[0], "once.cursor.bintree.find", "find(&bt[c++], ...) advanced the cursor %d times / looked at the wrong tree", c);
    c = 0; CK(cstl_bintree_size(&bt[c++]) == 1 && c == 1, "once.cursor.bintree.size", "size(&bt[c++]) advanced the cursor %d times", c);
    c = 0; r = cstl_rbtree_find(&rt[c++], E[2], NULL); CK(c == 1 && r == E[2], "once.cursor.rbtree.find", "find(&rt[c++], ...) advanced the cursor %d times / looked at the wrong tree", c);
    c = 0; CK(cstl_rbtree_size(&rt[c++]) == 1 && c == 1, "once.cursor.rbtree.size", "size(&rt[c++]) advanced the cursor %d times", c);
    ONCE(3, "bintree.find", r = cstl_bintree_find(A(&bt[1]), A(E[1]), A(NULL))); CK(r == E[1], "once.bintree.find.result", "wrong element");
    ONCE(3, "rbtree.find", r = cstl_rbtree_find(A(&rt[1]), A(E[3]), A(NULL))); CK(r == E[3], "once.rbtree.find.result", "wrong element");
    ONCE(1, "bintree.size", mn = cstl_bintree_size(A(&bt[0]))); CK(mn == 1, "once.bintree.size.result", "size %zu", mn);
    ONCE(1, "rbtree.size", mn = cstl_rbtree_size(A(&rt[0]))); CK(mn == 1, "once.rbtree.size.result", "size %zu", mn);
    ONCE(3, "bintree.height", cstl_bintree_height(A(&bt[0]), A(&mn), A(&mx))); CK(mn == 1 && mx == 1, "once.bintree.height.result", "height %zu %zu", mn, mx);
    ONCE(3, "rbtree.height", cstl_rbtree_height(A(&rt[0]), A(&mn), A(&mx))); CK(mn == 1 && mx == 1, "once.rbtree.height.result", "height %zu %zu", mn, mx);
    ONCE(4, "bintree.foreach", cstl_bintree_foreach(A(&bt[0]), A(once_bvisit), A(&cnt), A(CSTL_BINTREE_FOREACH_DIR_FWD)));
    ONCE(4, "rbtree.foreach", cstl_rbtree_foreach(A(&rt[0]), A(once_bvisit), A(&cnt), A(CSTL_BINTREE_FOREACH_DIR_REV)));
    CK(cnt == 2, "once.trees.foreach.result", "%d visits for one leaf in each of two trees", cnt);
    ONCE(2, "bintree.swap", cstl_bintree_swap(A(&bt[0]), A(&bt[1])));
    ONCE(2, "rbtree.swap", cstl_rbtree_swap(A(&rt[0]), A(&rt[1])));
    CK(cstl_bintree_find(&bt[0], E[1], NULL) == E[1] && cstl_rbtree_find(&rt[0], E[3], NULL) == E[3], "once.trees.swap.result", "contents after swap");
    ONCE(2, "bintree.erase", r = cstl_bintree_erase(A(&bt[0]), A(E[1]))); CK(r == E[1], "once.bintree.erase.result", "wrong element");
    ONCE(2, "rbtree.erase", r = cstl_rbtree_erase(A(&rt[0]), A(E[3]))); CK(r == E[3], "once.rbtree.erase.result", "wrong element");
    ncallbacks = 0;
    ONCE(3, "bintree.clear", cstl_bintree_clear(A(&bt[1]), A(noop), A(NULL)));
    ONCE(3, "rbtree.clear", cstl_rbtree_clear(A(&rt[1]), A(noop), A(NULL)));
    CK(ncallbacks == 2, "once.trees.clear.result", "%d callbacks", ncallbacks);
    unmk();
}

static __attribute__((noinline)) void once_heap(void)
{
    struct cstl_heap q[2];
    int c;
    const void *r;
    size_t n;
    mk();
    keytab[0] = 10; keytab[1] = 20; keytab[2] = 30;
    ONCE(4, "heap.init", cstl_heap_init(A(&q[0]), A(cmp_el), A(NULL), A(offsetof(struct el, hn))));
    ONCE(4, "heap.init", cstl_heap_init(A(&q[1]), A(cmp_el), A(NULL), A(offsetof(struct el, hn))));
    ONCE(2, "heap.push", cstl_heap_push(A(&q[0]), A(E[0])));
    ONCE(2, "heap.push", cstl_heap_push(A(&q[1]), A(E[1])));
    ONCE(2, "heap.push", cstl_heap_push(A(&q[1]), A(E[2])));
    c = 0; r = cstl_heap_get(&q[c++]); CK(c == 1 && r == E[0], "once.cursor.heap.get", "get(&q[c++]) advanced the cursor %d times / returned the top of the wrong heap", c);
    c = 0; r = cstl_heap_get(&q[c++ & 1]); r = cstl_heap_get(&q[c++ & 1]); CK(c == 2 && r == E[2], "once.cursor.heap.get", "two get(&q[c++ & 1]) calls advanced the cursor %d times", c);
    c = 0; n = cstl_heap_size(&q[c++]); CK(c == 1 && n == 1, "once.cursor.heap.size", "size(&q[c++]) advanced the cursor %d times", c);
    ONCE(1, "heap.get", r = cstl_heap_get(A(&q[1]))); CK(r == E[2], "once.heap.get.result", "wrong element");
    ONCE(1, "heap.size", n = cstl_heap_size(A(&q[1]))); CK(n == 2, "once.heap.size.result", "size %zu", n);
    ONCE(2, "heap.swap", cstl_heap_swap(A(&q[0]), A(&q[1])));
    c = 0; r = cstl_heap_pop(&q[c++]); CK(c == 1 && r == E[2], "once.cursor.heap.pop", "pop(&q[c++]) advanced the cursor %d times / popped from the wrong heap", c);
    ONCE(1, "heap.pop", r = cstl_heap_pop(A(&q[0]))); CK(r == E[1], "once.heap.pop.result", "wrong element");
    ncallbacks = 0;
    ONCE(2, "heap.clear", cstl_heap_clear(A(&q[1]), A(noop)));
    CK(ncallbacks == 1 && cstl_heap_size(&q[0]) == 0 && cstl_heap_size(&q[1]) == 0, "once.heap.clear.result", "%d callbacks", ncallbacks);
    unmk();
}

static size_t once_hashf(size_t k, size_t m) { return k % m; }
static __attribute__((noinline)) void once_hash(void)
{
    struct cstl_hash h[2];
    int c, cnt = 0;
    const void *r;
    size_t n;
    float ld;
    mk();
    ONCE(2, "hash.init", cstl_hash_init(A(&h[0]), A(offsetof(struct el, xn))));
    ONCE(2, "hash.init", cstl_hash_init(A(&h[1]), A(offsetof(struct el, xn))));
    ONCE(3, "hash.resize", cstl_hash_resize(A(&h[0]), A(8), A(once_hashf)));
    ONCE(3, "hash.resize", cstl_hash_resize(A(&h[1]), A(4), A(NULL)));
    ONCE(3, "hash.insert", cstl_hash_insert(A(&h[0]), A(77), A(E[0])));
    ONCE(3, "hash.insert", cstl_hash_insert(A(&h[1]), A(78), A(E[1])));
    ONCE(3, "hash.insert", cstl_hash_insert(A(&h[1]), A(79), A(E[2])));
    c = 0; r = cstl_hash_find(&h[c++], 77, NULL, NULL); CK(c == 1 && r == E[0], "once.cursor.hash.find", "find(&h[c++], ...) advanced the cursor %d times / looked at the wrong table", c);
    c = 0; n = cstl_hash_size(&h[c++]); CK(c == 1 && n == 1, "once.cursor.hash.size", "size(&h[c++]) advanced the cursor %d times", c);
    c = 0; ld = cstl_hash_load(&h[c++]); CK(c == 1 && ld == 1.0f / 8, "once.cursor.hash.load", "load(&h[c++]) advanced the cursor %d times", c);
    ONCE(4, "hash.find", r = cstl_hash_find(A(&h[1]), A(79), A(NULL), A(NULL))); CK(r == E[2], "once.hash.find.result", "wrong element");
    ONCE(1, "hash.size", n = cstl_hash_size(A(&h[1]))); CK(n == 2, "once.hash.size.result", "size %zu", n);
    ONCE(1, "hash.load", ld = cstl_hash_load(A(&h[1]))); CK(ld == 0.5f, "once.hash.load.result", "load %f", (double)ld);
    ONCE(3, "hash.foreach", cstl_hash_foreach(A(&h[1]), A(once_visit), A(&cnt)));
    ONCE(3, "hash.foreach_const", cstl_hash_foreach_const(A(&h[1]), A(once_cvisit), A(&cnt)));
    CK(cnt == 4, "once.hash.foreach.result", "%d visits", cnt);
    ONCE(3, "hash.resize", cstl_hash_resize(A(&h[1]), A(16), A(NULL)));
    ONCE(1, "hash.rehash", cstl_hash_rehash(A(&h[1])));
    ONCE(1, "hash.shrink_to_fit", cstl_hash_shrink_to_fit(A(&h[1])));
    ONCE(2, "hash.swap", cstl_hash_swap(A(&h[0]), A(&h[1])));
    CK(cstl_hash_find(&h[0], 78, NULL, NULL) == E[1] && cstl_hash_find(&h[1], 77, NULL, NULL) == E[0], "once.hash.swap.result", "contents after swap");
    ONCE(2, "hash.erase", cstl_hash_erase(A(&h[0]), A(E[1])));
    CK(cstl_hash_size(&h[0]) == 1, "once.hash.erase.result", "size after erase");
    ONCE(2, "hash.div", n = cstl_hash_div(A(29), A(7))); CK(n == 1, "once.hash.div.result", "29 mod 7 = %zu", n);
    ONCE(2, "hash.mul", n = cstl_hash_mul(A(29), A(7))); CK(n < 7, "once.hash.mul.result", "out of range %zu", n);
    ncallbacks = 0;
    ONCE(2, "hash.clear", cstl_hash_clear(A(&h[0]), A(noop)));
    ONCE(2, "hash.clear", cstl_hash_clear(A(&h[1]), A(noop)));
    CK(ncallbacks == 2, "once.hash.clear.result", "%d callbacks", ncallbacks);
    unmk();
}

static __attribute__((noinline)) void once_map(void)
{
    cstl_map_t m[2];
    static int k[4] = { 1, 2, 3, 4 }, v[4];
    cstl_map_iterator_t it, it2;
    const cstl_map_iterator_t *e;
    int c, rc;
    size_t n;
    ONCE(3, "map.init", cstl_map_init(A(&m[0]), A(cmp_int), A(NULL)));
    ONCE(3, "map.init", cstl_map_init(A(&m[1]), A(cmp_int), A(NULL)));
    ONCE(4, "map.insert", rc = cstl_map_insert(A(&m[0]), A(&k[0]), A(&v[0]), A(&it))); CK(rc == 0 && it.key == &k[0], "once.map.insert.result", "rc %d", rc);
    ONCE(4, "map.insert", rc = cstl_map_insert(A(&m[1]), A(&k[1]), A(&v[1]), A(NULL))); CK(rc == 0, "once.map.insert.result", "rc %d", rc);
    ONCE(4, "map.insert", rc = cstl_map_insert(A(&m[1]), A(&k[2]), A(&v[2]), A(NULL))); CK(rc == 0, "once.map.insert.result", "rc %d", rc);
    c = 0; n = cstl_map_size(&m[c++]); CK(c == 1 && n == 1, "once.cursor.map.size", "size(&m[c++]) advanced the cursor %d times", c);
    c = 0; cstl_map_find(&m[c++], &k[0], &it); CK(c == 1 && it.val == &v[0], "once.cursor.map.find", "find(&m[c++], ...) advanced the cursor %d times / looked at the wrong map", c);
    c = 0; e = cstl_map_iterator_end(&m[c++]); CK(c == 1 && e != NULL, "once.cursor.map.iterator_end", "iterator_end(&m[c++]) advanced the cursor %d times", c);
    ONCE(1, "map.size", n = cstl_map_size(A(&m[1]))); CK(n == 2, "once.map.size.result", "size %zu", n);
    ONCE(3, "map.find", cstl_map_find(A(&m[1]), A(&k[2]), A(&it))); CK(it.key == &k[2] && it.val == &v[2], "once.map.find.result", "wrong entry");
    ONCE(1, "map.iterator_end", e = cstl_map_iterator_end(A(&m[1])));
    ONCE(2, "map.iterator_eq", rc = cstl_map_iterator_eq(A(&it), A(e))); CK(!rc, "once.map.iterator_eq.result", "a found entry equals end");
    cstl_map_find(&m[1], &k[3], &it2);
    ONCE(2, "map.iterator_eq", rc = cstl_map_iterator_eq(A(&it2), A(e))); CK(rc, "once.map.iterator_eq.result", "an absent key's iterator differs from end");
    ONCE(2, "map.erase_iterator", cstl_map_erase_iterator(A(&m[1]), A(&it)));
    ONCE(3, "map.erase", rc = cstl_map_erase(A(&m[1]), A(&k[1]), A(&it))); CK(rc == 0 && it.key == &k[1] && it.val == &v[1], "once.map.erase.result", "rc %d", rc);
    ncallbacks = 0;
    ONCE(3, "map.clear", cstl_map_clear(A(&m[0]), A(noop), A(NULL)));
    ONCE(3, "map.clear", cstl_map_clear(A(&m[1]), A(noop), A(NULL)));
    CK(ncallbacks == 1 && vrt_lib_live() == 0, "once.map.clear.result", "%d callbacks", ncallbacks);
}

static __attribute__((noinline)) void once_vector(void)
{
    struct cstl_vector v[2];
    uint32_t raw[8] = { 5, 3, 7, 1, 8, 2, 6, 4 }, probe = 7, tmp;
    size_t i, n;
    int c;
    void *p;
    ssize_t ix;
    ONCE(2, "vector.init", cstl_vector_init(A(&v[0]), A(sizeof(uint32_t))));
    ONCE(5, "vector.init_complex", cstl_vector_init_complex(A(&v[1]), A(sizeof(uint32_t)), A(v_ctor), A(v_dtor), A(NULL)));
    ONCE(2, "vector.reserve", cstl_vector_reserve(A(&v[0]), A(16)));
    ONCE(2, "vector.resize", cstl_vector_resize(A(&v[0]), A(8)));
    ONCE(2, "vector.resize", cstl_vector_resize(A(&v[1]), A(3)));
    for (i = 0; i < 8; i++) *(uint32_t *)cstl_vector_at(&v[0], i) = raw[i];
    /* the classic walk: at(&v, i++) */
    for (i = 0, n = 0; i < 8; n++) { const uint32_t *q = cstl_vector_at(&v[0], i++); CK(*q == raw[n] && i == n + 1, "once.cursor.vector.at", "at(&v, i++) advanced the index to %zu after %zu calls / returned the wrong element", i, n + 1); }
    for (i = 0, n = 0; i < 8; n++) { const uint32_t *q = cstl_vector_at_const(&v[0], i++); CK(*q == raw[n] && i == n + 1, "once.cursor.vector.at_const", "at_const(&v, i++) advanced the index to %zu after %zu calls", i, n + 1); }
    c = 0; n = cstl_vector_size(&v[c++]); CK(c == 1 && n == 8, "once.cursor.vector.size", "size(&v[c++]) advanced the cursor %d times", c);
    c = 0; n = cstl_vector_capacity(&v[c++]); CK(c == 1 && n >= 16, "once.cursor.vector.capacity", "capacity(&v[c++]) advanced the cursor %d times", c);
    c = 0; p = cstl_vector_data(&v[c++]); CK(c == 1 && p == cstl_vector_at(&v[0], 0), "once.cursor.vector.data", "data(&v[c++]) advanced the cursor %d times", c);
    ONCE(1, "vector.size", n = cstl_vector_size(A(&v[1]))); CK(n == 3, "once.vector.size.result", "size %zu", n);
    ONCE(1, "vector.capacity", n = cstl_vector_capacity(A(&v[1]))); CK(n >= 3, "once.vector.capacity.result", "capacity %zu", n);
    ONCE(1, "vector.data", p = cstl_vector_data(A(&v[1]))); CK(p != NULL, "once.vector.data.result", "NULL data");
    ONCE(2, "vector.at", p = cstl_vector_at(A(&v[1]), A(2))); CK(p == (char *)cstl_vector_data(&v[1]) + 8, "once.vector.at.result", "wrong address");
    ONCE(2, "vector.at_const", p = (void *)cstl_vector_at_const(A(&v[1]), A(1))); CK(p == (char *)cstl_vector_data(&v[1]) + 4, "once.vector.at_const.result", "wrong address");
    ONCE(3, "vector.sort", cstl_vector_sort(A(&v[0]), A(cmp_u32), A(NULL)));
    for (i = 0; i < 8; i++) CK(*(uint32_t *)cstl_vector_at(&v[0], i) == i + 1, "once.vector.sort.result", "element %zu", i);
    ONCE(4, "vector.search", ix = cstl_vector_search(A(&v[0]), A(&probe), A(cmp_u32), A(NULL))); CK(ix == 6, "once.vector.search.result", "index %zd", ix);
    ONCE(4, "vector.find", ix = cstl_vector_find(A(&v[0]), A(&probe), A(cmp_u32), A(NULL))); CK(ix == 6, "once.vector.find.result", "index %zd", ix);
    ONCE(1, "vector.reverse", cstl_vector_reverse(A(&v[0]))); CK(*(uint32_t *)cstl_vector_at(&v[0], 0) == 8, "once.vector.reverse.result", "first element");
    ONCE(2, "vector.swap", cstl_vector_swap(A(&v[0]), A(&v[1]))); CK(cstl_vector_size(&v[0]) == 3 && cstl_vector_size(&v[1]) == 8, "once.vector.swap.result", "sizes after swap");
    ONCE(1, "vector.shrink_to_fit", cstl_vector_shrink_to_fit(A(&v[1]))); CK(cstl_vector_capacity(&v[1]) == 8, "once.vector.shrink_to_fit.result", "capacity");
    ONCE(1, "vector.clear", cstl_vector_clear(A(&v[0])));
    ONCE(1, "vector.clear", cstl_vector_clear(A(&v[1])));
    ONCE(8, "raw_array.sort", cstl_raw_array_sort(A(raw), A(8), A(sizeof(raw[0])), A(cmp_u32), A(NULL), A(cstl_swap), A(&tmp), A(CSTL_SORT_ALGORITHM_HEAP)));
    for (i = 0; i < 8; i++) CK(raw[i] == i + 1, "once.raw_array.sort.result", "element %zu", i);
    ONCE(6, "raw_array.search", ix = cstl_raw_array_search(A(raw), A(8), A(sizeof(raw[0])), A(&probe), A(cmp_u32), A(NULL))); CK(ix == 6, "once.raw_array.search.result", "index %zd", ix);
    ONCE(6, "raw_array.find", ix = cstl_raw_array_find(A(raw), A(8), A(sizeof(raw[0])), A(&probe), A(cmp_u32), A(NULL))); CK(ix == 6, "once.raw_array.find.result", "index %zd", ix);
    ONCE(5, "raw_array.reverse", cstl_raw_array_reverse(A(raw), A(8), A(sizeof(raw[0])), A(cstl_swap), A(&tmp))); CK(raw[0] == 8 && raw[7] == 1, "once.raw_array.reverse.result", "ends");
    CK(vrt_lib_live() == 0, "once.vector.leak", "library blocks left");
}

static __attribute__((noinline)) void once_string(void)
{
    cstl_string_t s[2];
    cstl_wstring_t w[2];
    size_t i, n;
    int c, rc;
    ssize_t ix;
    const char *p;
    ONCE(1, "string.init", cstl_string_init(A(&s[0]))); ONCE(1, "string.init", cstl_string_init(A(&s[1])));
    ONCE(1, "wstring.init", cstl_wstring_init(A(&w[0]))); ONCE(1, "wstring.init", cstl_wstring_init(A(&w[1])));
    ONCE(2, "string.set_str", cstl_string_set_str(A(&s[0]), A("hello")));
    ONCE(2, "wstring.set_str", cstl_wstring_set_str(A(&w[0]), A(L"hello")));
    ONCE(2, "string.reserve", cstl_string_reserve(A(&s[1]), A(20)));
    ONCE(2, "string.append_str", cstl_string_append_str(A(&s[1]), A("wor")));
    ONCE(3, "string.append_str_n", cstl_string_append_str_n(A(&s[1]), A("ldxx"), A(2)));
    ONCE(3, "string.append_ch", cstl_string_append_ch(A(&s[1]), A(2), A('!')));
    ONCE(2, "string.append", cstl_string_append(A(&s[0]), A(&s[1])));
    CK(strcmp(cstl_string_str(&s[0]), "helloworld!!") == 0, "once.string.append.result", "content '%s'", cstl_string_str(&s[0]));
    ONCE(4, "string.insert_ch", cstl_string_insert_ch(A(&s[0]), A(5), A(1), A(' ')));
    ONCE(3, "string.insert_str", cstl_string_insert_str(A(&s[0]), A(0), A(">")));
    ONCE(4, "string.insert_str_n", cstl_string_insert_str_n(A(&s[0]), A(1), A("> x"), A(2)));
    { cstl_string_t t; cstl_string_init(&t); cstl_string_set_str(&t, "world!!");
      ONCE(3, "string.insert", cstl_string_insert(A(&s[1]), A(0), A(&t))); cstl_string_clear(&t); }
    CK(strcmp(cstl_string_str(&s[0]), ">> hello world!!") == 0 && strcmp(cstl_string_str(&s[1]), "world!!world!!") == 0, "once.string.insert.result", "content '%s' / '%s'", cstl_string_str(&s[0]), cstl_string_str(&s[1]));
    /* the classic walk: at(&s, i++) */
    p = cstl_string_str(&s[0]);
    for (i = 0, n = 0; i < 16; n++) { const char ch = *cstl_string_at(&s[0], i++); CK(ch == p[n] && i == n + 1, "once.cursor.string.at", "at(&s, i++) advanced the index to %zu after %zu calls / returned the wrong character", i, n + 1); }
    for (i = 0, n = 0; i < 16; n++) { const char ch = *cstl_string_at_const(&s[0], i++); CK(ch == p[n] && i == n + 1, "once.cursor.string.at_const", "at_const(&s, i++) advanced the index to %zu after %zu calls", i, n + 1); }
    for (i = 0, n = 0; i < 5; n++) { const wchar_t ch = *cstl_wstring_at(&w[0], i++); CK(ch == L"hello"[n] && i == n + 1, "once.cursor.wstring.at", "at(&w, i++) advanced the index to %zu after %zu calls", i, n + 1); }
    c = 0; n = cstl_string_size(&s[c++]); CK(c == 1 && n == 16, "once.cursor.string.size", "size(&s[c++]) advanced the cursor %d times", c);
    c = 0; p = cstl_string_str(&s[c++]); CK(c == 1 && p[0] == '>', "once.cursor.string.str", "str(&s[c++]) advanced the cursor %d times", c);
    c = 0; p = cstl_string_data(&s[c++]); CK(c == 1 && p[0] == '>', "once.cursor.string.data", "data(&s[c++]) advanced the cursor %d times", c);
    c = 0; n = cstl_string_capacity(&s[c++]); CK(c == 1 && n >= 16, "once.cursor.string.capacity", "capacity(&s[c++]) advanced the cursor %d times", c);
    c = 0; n = cstl_wstring_size(&w[c++]); CK(c == 1 && n == 5, "once.cursor.wstring.size", "size(&w[c++]) advanced the cursor %d times", c);
    ONCE(1, "string.size", n = cstl_string_size(A(&s[1]))); CK(n == 14, "once.string.size.result", "size %zu", n);
    ONCE(1, "string.capacity", n = cstl_string_capacity(A(&s[1]))); CK(n >= 14, "once.string.capacity.result", "capacity %zu", n);
    ONCE(1, "string.str", p = cstl_string_str(A(&s[1]))); CK(p[0] == 'w', "once.string.str.result", "content");
    ONCE(1, "string.data", p = cstl_string_data(A(&s[1]))); CK(p[0] == 'w', "once.string.data.result", "content");
    ONCE(2, "string.at", p = cstl_string_at(A(&s[1]), A(1))); CK(*p == 'o', "once.string.at.result", "character");
    ONCE(2, "string.at_const", p = cstl_string_at_const(A(&s[1]), A(2))); CK(*p == 'r', "once.string.at_const.result", "character");
    ONCE(2, "string.compare_str", rc = cstl_string_compare_str(A(&s[1]), A("world!!world!!"))); CK(rc == 0, "once.string.compare_str.result", "rc %d", rc);
    ONCE(2, "string.compare", rc = cstl_string_compare(A(&s[0]), A(&s[1]))); CK(rc < 0, "once.string.compare.result", "rc %d", rc);
    ONCE(3, "string.find_ch", ix = cstl_string_find_ch(A(&s[1]), A('!'), A(7))); CK(ix == 12, "once.string.find_ch.result", "index %zd", ix);
    ONCE(3, "string.find_str", ix = cstl_string_find_str(A(&s[1]), A("ld"), A(4))); CK(ix == 10, "once.string.find_str.result", "index %zd", ix);
    ONCE(3, "string.find", ix = cstl_string_find(A(&s[0]), A(&s[1]), A(0))); CK(ix == -1, "once.string.find.result", "index %zd", ix);
    ONCE(4, "string.substr", cstl_string_substr(A(&s[0]), A(3), A(5), A(&s[1]))); CK(strcmp(cstl_string_str(&s[1]), "hello") == 0, "once.string.substr.result", "content '%s'", cstl_string_str(&s[1]));
    ONCE(3, "string.erase", cstl_string_erase(A(&s[0]), A(0), A(3))); CK(strcmp(cstl_string_str(&s[0]), "hello world!!") == 0, "once.string.erase.result", "content '%s'", cstl_string_str(&s[0]));
    ONCE(2, "string.resize", cstl_string_resize(A(&s[0]), A(5))); CK(cstl_string_compare(&s[0], &s[1]) == 0, "once.string.resize.result", "content '%s'", cstl_string_str(&s[0]));
    ONCE(2, "string.swap", cstl_string_swap(A(&s[0]), A(&s[1])));
    ONCE(2, "wstring.swap", cstl_wstring_swap(A(&w[0]), A(&w[1]))); CK(cstl_wstring_size(&w[0]) == 0 && cstl_wstring_size(&w[1]) == 5, "once.wstring.swap.result", "sizes after swap");
    ONCE(3, "wstring.find_ch", ix = cstl_wstring_find_ch(A(&w[1]), A(L'l'), A(3))); CK(ix == 3, "once.wstring.find_ch.result", "index %zd", ix);
    ONCE(1, "string.clear", cstl_string_clear(A(&s[0]))); ONCE(1, "string.clear", cstl_string_clear(A(&s[1])));
    ONCE(1, "wstring.clear", cstl_wstring_clear(A(&w[0]))); ONCE(1, "wstring.clear", cstl_wstring_clear(A(&w[1])));
    CK(vrt_lib_live() == 0, "once.string.leak", "library blocks left");
}

static __attribute__((noinline)) void once_dlist(void)
{
    struct cstl_dlist l[2];
    int c, cnt = 0, rc;
    void *r;
    size_t n;
    mk();
    keytab[0] = 30; keytab[1] = 10; keytab[2] = 20; keytab[3] = 40; keytab[4] = 50;
    ONCE(2, "dlist.init", cstl_dlist_init(A(&l[0]), A(offsetof(struct el, dn))));
    ONCE(2, "dlist.init", cstl_dlist_init(A(&l[1]), A(offsetof(struct el, dn))));
    ONCE(2, "dlist.push_back", cstl_dlist_push_back(A(&l[0]), A(E[0])));
    ONCE(2, "dlist.push_front", cstl_dlist_push_front(A(&l[0]), A(E[1])));
    ONCE(3, "dlist.insert", cstl_dlist_insert(A(&l[0]), A(E[1]), A(E[2])));         /* 10 20 30 */
    ONCE(2, "dlist.push_back", cstl_dlist_push_back(A(&l[1]), A(E[3])));
    ONCE(2, "dlist.push_back", cstl_dlist_push_back(A(&l[1]), A(E[4])));             /* 40 50 */
    c = 0; r = cstl_dlist_front(&l[c++]); CK(c == 1 && r == E[1], "once.cursor.dlist.front", "front(&l[c++]) advanced the cursor %d times / looked at the wrong list", c);
    c = 0; r = cstl_dlist_back(&l[c++]); CK(c == 1 && r == E[0], "once.cursor.dlist.back", "back(&l[c++]) advanced the cursor %d times / looked at the wrong list", c);
    c = 0; n = cstl_dlist_size(&l[c++]); CK(c == 1 && n == 3, "once.cursor.dlist.size", "size(&l[c++]) advanced the cursor %d times", c);
    c = 0; r = cstl_dlist_front(&l[c++ & 1]); r = cstl_dlist_front(&l[c++ & 1]); CK(c == 2 && r == E[3], "once.cursor.dlist.front", "two front(&l[c++ & 1]) calls advanced the cursor %d times", c);
    ONCE(1, "dlist.front", r = cstl_dlist_front(A(&l[1]))); CK(r == E[3], "once.dlist.front.result", "wrong element");
    ONCE(1, "dlist.back", r = cstl_dlist_back(A(&l[1]))); CK(r == E[4], "once.dlist.back.result", "wrong element");
    ONCE(1, "dlist.size", n = cstl_dlist_size(A(&l[1]))); CK(n == 2, "once.dlist.size.result", "size %zu", n);
    ONCE(5, "dlist.find", r = cstl_dlist_find(A(&l[0]), A(E[2]), A(cmp_el), A(NULL), A(CSTL_DLIST_FOREACH_DIR_FWD))); CK(r == E[2], "once.dlist.find.result", "wrong element");
    ONCE(4, "dlist.foreach", rc = cstl_dlist_foreach(A(&l[0]), A(once_visit), A(&cnt), A(CSTL_DLIST_FOREACH_DIR_REV))); CK(rc == 0 && cnt == 3, "once.dlist.foreach.result", "%d visits", cnt);
    ONCE(1, "dlist.reverse", cstl_dlist_reverse(A(&l[0]))); CK(cstl_dlist_front(&l[0]) == E[0], "once.dlist.reverse.result", "front after reverse");
    ONCE(3, "dlist.sort", cstl_dlist_sort(A(&l[0]), A(cmp_el), A(NULL))); CK(cstl_dlist_front(&l[0]) == E[1] && cstl_dlist_back(&l[0]) == E[0], "once.dlist.sort.result", "ends after sort");
    ONCE(2, "dlist.swap", cstl_dlist_swap(A(&l[0]), A(&l[1]))); CK(cstl_dlist_size(&l[0]) == 2 && cstl_dlist_size(&l[1]) == 3, "once.dlist.swap.result", "sizes after swap");
    ONCE(2, "dlist.concat", cstl_dlist_concat(A(&l[1]), A(&l[0]))); CK(cstl_dlist_size(&l[1]) == 5 && cstl_dlist_size(&l[0]) == 0 && cstl_dlist_back(&l[1]) == E[4], "once.dlist.concat.result", "sizes after concat");
    ONCE(2, "dlist.erase", cstl_dlist_erase(A(&l[1]), A(E[2]))); CK(cstl_dlist_size(&l[1]) == 4, "once.dlist.erase.result", "size after erase");
    c = 1; r = cstl_dlist_pop_front(&l[c--]); CK(c == 0 && r == E[1], "once.cursor.dlist.pop_front", "pop_front(&l[c--]) moved the cursor to %d / popped from the wrong list", c);
    ONCE(1, "dlist.pop_front", r = cstl_dlist_pop_front(A(&l[1]))); CK(r == E[0], "once.dlist.pop_front.result", "wrong element");
    ONCE(1, "dlist.pop_back", r = cstl_dlist_pop_back(A(&l[1]))); CK(r == E[4], "once.dlist.pop_back.result", "wrong element");
    ncallbacks = 0;
    ONCE(2, "dlist.clear", cstl_dlist_clear(A(&l[1]), A(noop))); CK(ncallbacks == 1 && cstl_dlist_size(&l[1]) == 0, "once.dlist.clear.result", "%d callbacks", ncallbacks);
    unmk();
}

static __attribute__((noinline)) void once_slist(void)
{
    struct cstl_slist l[2];
    int c, cnt = 0, rc;
    void *r;
    size_t n;
    mk();
    keytab[0] = 30; keytab[1] = 10; keytab[2] = 20; keytab[3] = 40; keytab[4] = 50;
    ONCE(2, "slist.init", cstl_slist_init(A(&l[0]), A(offsetof(struct el, sn))));
    ONCE(2, "slist.init", cstl_slist_init(A(&l[1]), A(offsetof(struct el, sn))));
    ONCE(2, "slist.push_back", cstl_slist_push_back(A(&l[0]), A(E[0])));
    ONCE(2, "slist.push_front", cstl_slist_push_front(A(&l[0]), A(E[1])));
    ONCE(3, "slist.insert_after", cstl_slist_insert_after(A(&l[0]), A(E[1]), A(E[2])));     /* 10 20 30 */
    ONCE(2, "slist.push_back", cstl_slist_push_back(A(&l[1]), A(E[3])));
    ONCE(2, "slist.push_back", cstl_slist_push_back(A(&l[1]), A(E[4])));                     /* 40 50 */
    c = 0; r = cstl_slist_front(&l[c++]); CK(c == 1 && r == E[1], "once.cursor.slist.front", "front(&l[c++]) advanced the cursor %d times / looked at the wrong list", c);
    c = 0; r = cstl_slist_back(&l[c++]); CK(c == 1 && r == E[0], "once.cursor.slist.back", "back(&l[c++]) advanced the cursor %d times / looked at the wrong list", c);
    c = 0; n = cstl_slist_size(&l[c++]); CK(c == 1 && n == 3, "once.cursor.slist.size", "size(&l[c++]) advanced the cursor %d times", c);
    ONCE(1, "slist.front", r = cstl_slist_front(A(&l[1]))); CK(r == E[3], "once.slist.front.result", "wrong element");
    ONCE(1, "slist.back", r = cstl_slist_back(A(&l[1]))); CK(r == E[4], "once.slist.back.result", "wrong element");
    ONCE(1, "slist.size", n = cstl_slist_size(A(&l[1]))); CK(n == 2, "once.slist.size.result", "size %zu", n);
    ONCE(3, "slist.foreach", rc = cstl_slist_foreach(A(&l[0]), A(once_visit), A(&cnt))); CK(rc == 0 && cnt == 3, "once.slist.foreach.result", "%d visits", cnt);
    ONCE(1, "slist.reverse", cstl_slist_reverse(A(&l[0]))); CK(cstl_slist_front(&l[0]) == E[0] && cstl_slist_back(&l[0]) == E[1], "once.slist.reverse.result", "ends after reverse");
    ONCE(3, "slist.sort", cstl_slist_sort(A(&l[0]), A(cmp_el), A(NULL))); CK(cstl_slist_front(&l[0]) == E[1] && cstl_slist_back(&l[0]) == E[0], "once.slist.sort.result", "ends after sort");
    ONCE(2, "slist.swap", cstl_slist_swap(A(&l[0]), A(&l[1]))); CK(cstl_slist_size(&l[0]) == 2 && cstl_slist_size(&l[1]) == 3, "once.slist.swap.result", "sizes after swap");
    ONCE(2, "slist.concat", cstl_slist_concat(A(&l[1]), A(&l[0]))); CK(cstl_slist_size(&l[1]) == 5 && cstl_slist_size(&l[0]) == 0 && cstl_slist_back(&l[1]) == E[4], "once.slist.concat.result", "sizes after concat");
    ONCE(2, "slist.erase_after", r = cstl_slist_erase_after(A(&l[1]), A(E[1]))); CK(r == E[2] && cstl_slist_size(&l[1]) == 4, "once.slist.erase_after.result", "wrong element");
    c = 1; r = cstl_slist_pop_front(&l[c--]); CK(c == 0 && r == E[1], "once.cursor.slist.pop_front", "pop_front(&l[c--]) moved the cursor to %d / popped from the wrong list", c);
    ONCE(1, "slist.pop_front", r = cstl_slist_pop_front(A(&l[1]))); CK(r == E[0], "once.slist.pop_front.result", "wrong element");
    ncallbacks = 0;
    ONCE(2, "slist.clear", cstl_slist_clear(A(&l[1]), A(noop))); CK(ncallbacks == 2 && cstl_slist_size(&l[1]) == 0, "once.slist.clear.result", "%d callbacks", ncallbacks);
    unmk();
}

static __attribute__((noinline)) void once_array(void)
{
    cstl_array_t a[2], sl;
    static uint32_t ext[6] = { 9, 8, 7, 6, 5, 4 };
    size_t i, n;
    int c;
    void *p;
    ONCE(1, "array.init", cstl_array_init(A(&a[0]))); ONCE(1, "array.init", cstl_array_init(A(&a[1]))); cstl_array_init(&sl);
    ONCE(3, "array.alloc", cstl_array_alloc(A(&a[0]), A(8), A(sizeof(uint32_t))));
    ONCE(4, "array.set", cstl_array_set(A(&a[1]), A(ext), A(6), A(sizeof(ext[0]))));
    for (i = 0; i < 8; i++) *(uint32_t *)cstl_array_at(&a[0], i) = (uint32_t)(100 + i);
    /* the classic walk: at(&a, i++) -- the last call is the one whose second evaluation would be one past the end */
    for (i = 0, n = 0; i < 8; n++) { const uint32_t *q = cstl_array_at(&a[0], i++); CK(*q == 100 + n && i == n + 1, "once.cursor.array.at", "at(&a, i++) advanced the index to %zu after %zu calls / returned the wrong element", i, n + 1); }
    for (i = 0, n = 0; i < 6; n++) { const uint32_t *q = cstl_array_at_const(&a[1], i++); CK(q == &ext[n] && i == n + 1, "once.cursor.array.at_const", "at_const(&a, i++) advanced the index to %zu after %zu calls", i, n + 1); }
    c = 0; n = cstl_array_size(&a[c++]); CK(c == 1 && n == 8, "once.cursor.array.size", "size(&a[c++]) advanced the cursor %d times", c);
    c = 0; p = cstl_array_data(&a[c++]); CK(c == 1 && p == cstl_array_at(&a[0], 0), "once.cursor.array.data", "data(&a[c++]) advanced the cursor %d times", c);
    ONCE(1, "array.size", n = cstl_array_size(A(&a[1]))); CK(n == 6, "once.array.size.result", "size %zu", n);
    ONCE(1, "array.data", p = cstl_array_data(A(&a[1]))); CK(p == ext, "once.array.data.result", "wrong address");
    ONCE(1, "array.data_const", p = (void *)cstl_array_data_const(A(&a[1]))); CK(p == ext, "once.array.data_const.result", "wrong address");
    ONCE(2, "array.at", p = cstl_array_at(A(&a[1]), A(5))); CK(p == &ext[5], "once.array.at.result", "wrong address");
    ONCE(2, "array.at_const", p = (void *)cstl_array_at_const(A(&a[1]), A(0))); CK(p == &ext[0], "once.array.at_const.result", "wrong address");
    ONCE(4, "array.slice", cstl_array_slice(A(&a[0]), A(2), A(5), A(&sl))); CK(cstl_array_size(&sl) == 3 && *(uint32_t *)cstl_array_at(&sl, 0) == 102, "once.array.slice.result", "view");
    ONCE(2, "array.unslice", cstl_array_unslice(A(&sl), A(&sl))); CK(cstl_array_size(&sl) == 8, "once.array.unslice.result", "size");
    ONCE(1, "array.reset", cstl_array_reset(A(&sl)));
    ONCE(2, "array.release", cstl_array_release(A(&a[1]), A(&p))); CK(p == ext, "once.array.release.result", "buffer %p", p);
    ONCE(1, "array.reset", cstl_array_reset(A(&a[0]))); ONCE(1, "array.reset", cstl_array_reset(A(&a[1])));
    CK(vrt_lib_live() == 0, "once.array.leak", "library blocks left");
}

static __attribute__((noinline)) void once_memory(void)
{
    cstl_shared_ptr_t sp[2];
    cstl_weak_ptr_t wp[2];
    cstl_unique_ptr_t up[2];
    struct cstl_guarded_ptr gp[2];
    int c, word = 0, b;
    void *p, *q;
    cstl_xtor_func_t *cf;
    void *pr;
    ONCE(1, "guarded_ptr.init", cstl_guarded_ptr_init(A(&gp[0]))); ONCE(1, "guarded_ptr.init", cstl_guarded_ptr_init(A(&gp[1])));
    ONCE(2, "guarded_ptr.set", cstl_guarded_ptr_set(A(&gp[0]), A(&word)));
    c = 0; p = cstl_guarded_ptr_get(&gp[c++]); CK(c == 1 && p == &word, "once.cursor.guarded_ptr.get", "get(&gp[c++]) advanced the cursor %d times", c);
    ONCE(1, "guarded_ptr.get", p = cstl_guarded_ptr_get(A(&gp[0]))); CK(p == &word, "once.guarded_ptr.get.result", "wrong pointer");
    ONCE(1, "guarded_ptr.get_const", p = (void *)cstl_guarded_ptr_get_const(A(&gp[0]))); CK(p == &word, "once.guarded_ptr.get_const.result", "wrong pointer");
    ONCE(2, "guarded_ptr.copy", cstl_guarded_ptr_copy(A(&gp[1]), A(&gp[0]))); CK(cstl_guarded_ptr_get(&gp[1]) == &word, "once.guarded_ptr.copy.result", "wrong pointer");
    cstl_guarded_ptr_set(&gp[1], NULL);
    ONCE(2, "guarded_ptr.swap", cstl_guarded_ptr_swap(A(&gp[0]), A(&gp[1]))); CK(cstl_guarded_ptr_get(&gp[1]) == &word && cstl_guarded_ptr_get(&gp[0]) == NULL, "once.guarded_ptr.swap.result", "pointers after swap");

    ONCE(1, "unique_ptr.init", cstl_unique_ptr_init(A(&up[0]))); ONCE(1, "unique_ptr.init", cstl_unique_ptr_init(A(&up[1])));
    cleared = 0;
    ONCE(4, "unique_ptr.alloc", cstl_unique_ptr_alloc(A(&up[0]), A(24), A(clr), A(&word)));
    c = 0; p = cstl_unique_ptr_get(&up[c++]); CK(c == 1 && p != NULL, "once.cursor.unique_ptr.get", "get(&up[c++]) advanced the cursor %d times", c);
    ONCE(1, "unique_ptr.get", q = cstl_unique_ptr_get(A(&up[0]))); CK(q == p, "once.unique_ptr.get.result", "wrong pointer");
    ONCE(1, "unique_ptr.get_const", q = (void *)cstl_unique_ptr_get_const(A(&up[0]))); CK(q == p, "once.unique_ptr.get_const.result", "wrong pointer");
    ONCE(2, "unique_ptr.swap", cstl_unique_ptr_swap(A(&up[0]), A(&up[1]))); CK(cstl_unique_ptr_get(&up[1]) == p && cstl_unique_ptr_get(&up[0]) == NULL, "once.unique_ptr.swap.result", "pointers after swap");
    ONCE(3, "unique_ptr.release", q = cstl_unique_ptr_release(A(&up[1]), A(&cf), A(&pr))); CK(q == p && cf == clr && pr == &word && cleared == 0, "once.unique_ptr.release.result", "released pointer / callback / priv");
    free(q);        /* library block, released to the caller: the caller frees it (counted as a library free by the wrapper) */
    ONCE(4, "unique_ptr.alloc", cstl_unique_ptr_alloc(A(&up[1]), A(8), A(clr), A(NULL)));
    ONCE(1, "unique_ptr.reset", cstl_unique_ptr_reset(A(&up[1]))); CK(cleared == 1, "once.unique_ptr.reset.result", "%d callbacks", cleared);

    ONCE(1, "shared_ptr.init", cstl_shared_ptr_init(A(&sp[0]))); ONCE(1, "shared_ptr.init", cstl_shared_ptr_init(A(&sp[1])));
    ONCE(1, "weak_ptr.init", cstl_weak_ptr_init(A(&wp[0]))); ONCE(1, "weak_ptr.init", cstl_weak_ptr_init(A(&wp[1])));
    cleared = 0;
    ONCE(3, "shared_ptr.alloc", cstl_shared_ptr_alloc(A(&sp[0]), A(32), A(clr)));
    c = 0; p = cstl_shared_ptr_get(&sp[c++]); CK(c == 1 && p != NULL, "once.cursor.shared_ptr.get", "get(&sp[c++]) advanced the cursor %d times", c);
    c = 0; b = cstl_shared_ptr_unique(&sp[c++]); CK(c == 1 && b, "once.cursor.shared_ptr.unique", "unique(&sp[c++]) advanced the cursor %d times", c);
    ONCE(1, "shared_ptr.get", q = cstl_shared_ptr_get(A(&sp[0]))); CK(q == p, "once.shared_ptr.get.result", "wrong pointer");
    ONCE(1, "shared_ptr.get_const", q = (void *)cstl_shared_ptr_get_const(A(&sp[0]))); CK(q == p, "once.shared_ptr.get_const.result", "wrong pointer");
    ONCE(1, "shared_ptr.unique", b = cstl_shared_ptr_unique(A(&sp[0]))); CK(b, "once.shared_ptr.unique.result", "sole owner not unique");
    ONCE(2, "shared_ptr.share", cstl_shared_ptr_share(A(&sp[0]), A(&sp[1]))); CK(cstl_shared_ptr_get(&sp[1]) == p && !cstl_shared_ptr_unique(&sp[0]), "once.shared_ptr.share.result", "co-owner");
    ONCE(1, "shared_ptr.reset", cstl_shared_ptr_reset(A(&sp[1])));
    ONCE(2, "shared_ptr.swap", cstl_shared_ptr_swap(A(&sp[0]), A(&sp[1]))); CK(cstl_shared_ptr_get(&sp[1]) == p && cstl_shared_ptr_get(&sp[0]) == NULL, "once.shared_ptr.swap.result", "pointers after swap");
    ONCE(2, "weak_ptr.from", cstl_weak_ptr_from(A(&wp[0]), A(&sp[1])));
    ONCE(2, "weak_ptr.swap", cstl_weak_ptr_swap(A(&wp[0]), A(&wp[1])));
    ONCE(2, "weak_ptr.lock", cstl_weak_ptr_lock(A(&wp[1]), A(&sp[0]))); CK(cstl_shared_ptr_get(&sp[0]) == p, "once.weak_ptr.lock.result", "lock did not yield the owner");
    ONCE(1, "shared_ptr.reset", cstl_shared_ptr_reset(A(&sp[0]))); CK(cleared == 0, "once.shared_ptr.reset.result", "destroyed while an owner exists");
    ONCE(1, "shared_ptr.reset", cstl_shared_ptr_reset(A(&sp[1]))); CK(cleared == 1, "once.shared_ptr.reset.result", "%d callbacks at the last owner", cleared);
    ONCE(2, "weak_ptr.lock", cstl_weak_ptr_lock(A(&wp[1]), A(&sp[0]))); CK(cstl_shared_ptr_get(&sp[0]) == NULL, "once.weak_ptr.lock.result", "lock of an expired weak pointer yielded an owner");
    ONCE(1, "weak_ptr.reset", cstl_weak_ptr_reset(A(&wp[1]))); ONCE(1, "weak_ptr.reset", cstl_weak_ptr_reset(A(&wp[0])));
    CK(vrt_lib_live() == 0, "once.memory.leak", "library blocks left");
}

/* ---- macro arguments are expressions, member designators need not be plain identifiers ----
 * The DECLARE_ / _INITIALIZER macros take a type, a member designator, a comparison function and a priv pointer.  A client
 * may pass `table + 1` or `desc ? cmp_a : cmp_b` for the pointers and `in.node` or `nodes[2]` for the member (offsetof
 * accepts both).  A macro body that does not parenthesise a parameter, or pastes the member name, behaves for plain
 * identifiers only.  The containers are declared through the macros with such arguments (automatic storage, so any
 * expression is allowed) and then used; the comparison function checks the priv it receives. */
struct mel {
    long pad;
    struct { int x; struct cstl_bintree_node bn; } in;
    struct cstl_rbtree_node rn[3];
    struct { struct cstl_heap_node hn; } deep[2];
    struct cstl_dlist_node dn[2];
    struct { struct cstl_slist_node sn; } s;
    struct cstl_hash_node xn[2];
    int key;
};
static long privtab[4];
static const void *mcmp_priv_seen;
static int mcmp_calls;
static int mcmp(const void *a, const void *b, void *p)
{
    const struct mel *x = a, *y = b;
    mcmp_priv_seen = p; mcmp_calls++;
    return (x->key > y->key) - (x->key < y->key);
}
static int mcmp_desc(const void *a, const void *b, void *p) { return -mcmp(a, b, p); }
static volatile int macro_sel = 1;
#define MCK_PRIV(what) CK(mcmp_calls > 0 && mcmp_priv_seen == (const void *)&privtab[1], "macro." what ".priv", \
        "the comparison function of a container declared with PRIV = `privtab + 1` received %p, not &privtab[1] = %p", mcmp_priv_seen, (void *)&privtab[1])
static struct mel *mkm(int n)
{
    struct mel *m = vrt_alloc((size_t)n * sizeof(*m));
    int i;
    memset(m, 0x6b, (size_t)n * sizeof(*m));
    for (i = 0; i < n; i++) m[i].key = (i * 7) % n;
    mcmp_calls = 0; mcmp_priv_seen = NULL;
    return m;
}
static __attribute__((noinline)) void macro_trees(void)
{
    DECLARE_CSTL_BINTREE(bt, struct mel, in.bn, macro_sel ? mcmp : mcmp_desc, privtab + 1);
    DECLARE_CSTL_RBTREE(rt, struct mel, rn[2], macro_sel ? mcmp : mcmp_desc, privtab + 1);
    struct mel *m = mkm(9), probe;
    int i;
    VRT_OP0("bintree.insert", "tree declared by macro with expression arguments and a nested / array member designator");
    for (i = 0; i < 9; i++) { cstl_bintree_insert(&bt, &m[i], NULL); cstl_rbtree_insert(&rt, &m[i], NULL); }
    MCK_PRIV("trees");
    probe.key = 5;
    CK(cstl_bintree_size(&bt) == 9 && cstl_rbtree_size(&rt) == 9 && cstl_bintree_find(&bt, &probe, NULL) == &m[2] && cstl_rbtree_find(&rt, &probe, NULL) == &m[2],
       "macro.trees.find", "find in a tree declared by macro with member designators in.bn / rn[2] did not return the element with key 5");
    for (i = 0; i < 9; i++) CK(cstl_bintree_erase(&bt, &m[i]) == &m[i] && cstl_rbtree_erase(&rt, &m[i]) == &m[i], "macro.trees.erase", "erase of element %d", i);
    vrt_free(m);
    VRT_COUNT("reread.macro-declared-containers");
}
static __attribute__((noinline)) void macro_heap(void)
{
    DECLARE_CSTL_HEAP(hp, struct mel, deep[1].hn, macro_sel ? mcmp : mcmp_desc, privtab + 1);
    struct mel *m = mkm(9);
    int i;
    VRT_OP0("heap.push", "heap declared by macro with expression arguments and a nested member designator");
    for (i = 0; i < 9; i++) cstl_heap_push(&hp, &m[i]);
    MCK_PRIV("heap");
    for (i = 8; i >= 0; i--) { const struct mel *t = cstl_heap_pop(&hp); CK(t != NULL && t->key == i && t >= m && t < m + 9, "macro.heap.pop", "pop returned key %d, expected %d", t ? t->key : -1, i); }
    CK(cstl_heap_pop(&hp) == NULL, "macro.heap.pop", "pop on the emptied heap");
    vrt_free(m);
    VRT_COUNT("reread.macro-declared-containers");
}
static __attribute__((noinline)) void macro_dlist(void)
{
    DECLARE_CSTL_DLIST(dl, struct mel, dn[1]);
    struct mel *m = mkm(5);
    int i;
    VRT_OP0("dlist.push_back", "list declared by macro with an array member designator");
    for (i = 0; i < 5; i++) cstl_dlist_push_back(&dl, &m[i]);
    cstl_dlist_sort(&dl, macro_sel ? mcmp : mcmp_desc, privtab + 1);
    MCK_PRIV("dlist");
    CK(cstl_dlist_size(&dl) == 5 && ((struct mel *)cstl_dlist_front(&dl))->key == 0 && ((struct mel *)cstl_dlist_back(&dl))->key == 4, "macro.dlist.sort", "front/back after sort");
    for (i = 0; i < 5; i++) { const struct mel *t = cstl_dlist_pop_front(&dl); CK(t != NULL && t->key == i, "macro.dlist.pop", "pop_front returned key %d, expected %d", t ? t->key : -1, i); }
    vrt_free(m);
    VRT_COUNT("reread.macro-declared-containers");
}
static __attribute__((noinline)) void macro_slist(void)
{
    DECLARE_CSTL_SLIST(sl, struct mel, s.sn);
    struct mel *m = mkm(5);
    int i;
    VRT_OP0("slist.push_back", "list declared by macro with a nested member designator");
    for (i = 0; i < 5; i++) cstl_slist_push_back(&sl, &m[i]);
    cstl_slist_sort(&sl, macro_sel ? mcmp : mcmp_desc, privtab + 1);
    MCK_PRIV("slist");
    CK(cstl_slist_size(&sl) == 5 && ((struct mel *)cstl_slist_front(&sl))->key == 0 && ((struct mel *)cstl_slist_back(&sl))->key == 4, "macro.slist.sort", "front/back after sort");
    for (i = 0; i < 5; i++) { const struct mel *t = cstl_slist_pop_front(&sl); CK(t != NULL && t->key == i, "macro.slist.pop", "pop_front returned key %d, expected %d", t ? t->key : -1, i); }
    vrt_free(m);
    VRT_COUNT("reread.macro-declared-containers");
}
static __attribute__((noinline)) void macro_hash(void)
{
    DECLARE_CSTL_HASH(hs, struct mel, xn[1]);
    struct mel *m = mkm(7);
    int i;
    VRT_OP0("hash.insert", "table declared by macro with an array member designator");
    cstl_hash_resize(&hs, 5, NULL);
    for (i = 0; i < 7; i++) cstl_hash_insert(&hs, (size_t)(1000 + i), &m[i]);
    for (i = 0; i < 7; i++) CK(cstl_hash_find(&hs, (size_t)(1000 + i), NULL, NULL) == &m[i], "macro.hash.find", "element %d not found under its key", i);
    cstl_hash_clear(&hs, NULL);
    vrt_free(m);
    VRT_COUNT("reread.macro-declared-containers");
}

/* ---- arguments of other arithmetic types, literal constants ----
 * A function call converts each argument to the parameter's type as if by assignment; a macro twin of a function computes
 * in the argument's own type.  A negative int passed for a size_t key, a character constant for an index ... */
static __attribute__((noinline)) void conv_hash(void)
{
    const int k = -7, m = 16;
    const short sk = -300;
    const size_t want = (size_t)k % (size_t)m, want2 = (size_t)sk % 9u;
    size_t r;
    VRT_OP0("hash.div", "negative int / short arguments are converted to size_t at the call");
    r = cstl_hash_div(k, m);
    CK(r == want, "conv.hash.div", "cstl_hash_div(-7, 16) with int arguments returned %zu, a call converts them to size_t: %zu", r, want);
    r = cstl_hash_div(sk, 9);
    CK(r == want2, "conv.hash.div", "cstl_hash_div((short)-300, 9) returned %zu, expected %zu", r, want2);
    r = cstl_hash_div(-1, 3);
    CK(r == (size_t)-1 % 3u, "conv.hash.div", "cstl_hash_div(-1, 3) returned %zu, expected %zu", r, (size_t)-1 % 3u);
    r = cstl_hash_mul(k, m);
    CK(r < 16 && r == cstl_hash_mul((size_t)k, (size_t)m), "conv.hash.mul", "cstl_hash_mul(-7, 16) with int arguments returned %zu", r);
    r = cstl_hash_mul(-1, 3);
    CK(r < 3, "conv.hash.mul", "cstl_hash_mul(-1, 3) returned %zu", r);
    VRT_COUNT("reread.conversion-calls");
}
static __attribute__((noinline)) void conv_vector(void)
{
    struct cstl_vector v;
    const unsigned char uc = 3;
    const signed char sc = 2;
    const long long ll = 4;
    size_t i;
    cstl_vector_init(&v, sizeof(uint32_t));
    cstl_vector_resize(&v, (unsigned char)6);
    for (i = 0; i < 6; i++) *(uint32_t *)cstl_vector_at(&v, i) = (uint32_t)(10 + i);
    VRT_OP0("vector.at", "index arguments of types unsigned char, signed char, long long, character constant, bool expression");
    CK(*(uint32_t *)cstl_vector_at(&v, uc) == 13 && *(uint32_t *)cstl_vector_at(&v, sc) == 12 && *(uint32_t *)cstl_vector_at(&v, ll) == 14
       && *(uint32_t *)cstl_vector_at(&v, 'b' - 'a') == 11 && *(const uint32_t *)cstl_vector_at_const(&v, uc > 2) == 11 && *(uint32_t *)cstl_vector_at(&v, 5.0) == 15,
       "conv.vector.at", "at() with a small-integer / floating index argument returned the wrong element");
    CK(VRT_ABORTS((void)cstl_vector_at(&v, -1)), "conv.vector.at.negative", "at(&v, -1) (converted to SIZE_MAX) returned");
    CK(VRT_ABORTS((void)cstl_vector_at(&v, sc - 3)), "conv.vector.at.negative", "at(&v, (signed char)2 - 3) returned");
    cstl_vector_clear(&v);
    VRT_COUNT("reread.conversion-calls");
}
static __attribute__((noinline)) void conv_string(void)
{
    cstl_string_t s;
    cstl_wstring_t w;
    cstl_string_init(&s); cstl_wstring_init(&w);
    /* a string that is not empty but starts with a NUL: resize() fills with NULs */
    VRT_OP0("string.compare_str", "literal arguments; a non-empty string of NULs");
    cstl_string_resize(&s, 3); cstl_wstring_resize(&w, 3);
    CK(cstl_string_size(&s) == 3 && cstl_string_compare_str(&s, "") == strcmp(cstl_string_str(&s), "") && cstl_string_compare_str(&s, "") == 0,
       "conv.string.compare-literal-empty", "compare_str(s, \"\") of a string of three NULs is %d, strcmp says 0", cstl_string_compare_str(&s, ""));
    CK(cstl_wstring_compare_str(&w, L"") == 0, "conv.wstring.compare-literal-empty", "compare_str(w, L\"\") of a string of three NULs is %d, wcscmp says 0", cstl_wstring_compare_str(&w, L""));
    CK(cstl_string_compare_str(&s, "a") < 0 && cstl_wstring_compare_str(&w, L"a") < 0, "conv.string.compare-literal", "compare_str with the literal \"a\"");
    *cstl_string_at(&s, 0) = 'a'; *cstl_wstring_at(&w, 0) = L'a';
    CK(cstl_string_compare_str(&s, "a") == 0 && cstl_string_compare_str(&s, "") > 0 && cstl_wstring_compare_str(&w, L"a") == 0 && cstl_wstring_compare_str(&w, L"") > 0,
       "conv.string.compare-literal", "compare_str of \"a\\0\\0\" with literals");
    CK(cstl_string_find_ch(&s, 'a', 0) == 0 && cstl_string_find_ch(&s, 'a', 1) == -1 && cstl_wstring_find_ch(&w, L'a', 0) == 0, "conv.string.find-literal", "find_ch with character constants");
    CK(*cstl_string_at(&s, '\0') == 'a' && *cstl_string_at_const(&s, (signed char)0) == 'a', "conv.string.at", "at() with a character-constant index");
    cstl_string_clear(&s); cstl_wstring_clear(&w);
    VRT_COUNT("reread.conversion-calls");
}

/* ---- names a macro author would pick ----
 * A statement macro that copies an argument into a block-local captures the caller's identifier of the same name
 * (`struct cstl_rbtree * const tree = (tree);`).  The same calls once more through variables named like the nouns and
 * like the parameter names of the prototypes. */
static __attribute__((noinline)) void names_trees(void)
{
    struct cstl_bintree bt_obj;
    struct cstl_rbtree rt_obj;
    struct cstl_bintree *const bt = &bt_obj, *const tree_b = bt;
    struct cstl_rbtree *const t = &rt_obj, *const tree = t, *const rt = t;
    cstl_compare_func_t *const cmp = cmp_el;
    cstl_xtor_func_t *const clr = noop;
    void *const priv = NULL, *p;
    size_t size, min, max;
    int n = 0;
    struct el *e;
    mk();
    keytab[0] = 1; keytab[1] = 2;
    VRT_OP0("rbtree.clear", "arguments are variables named tree / t / bt / rt / cmp / clr / priv / e / p / size");
    cstl_bintree_init(bt, cmp, priv, offsetof(struct el, bn)); cstl_rbtree_init(tree, cmp, priv, offsetof(struct el, rn));
    e = E[0]; cstl_bintree_insert(tree_b, e, NULL); cstl_rbtree_insert(rt, e, NULL);
    e = E[1]; cstl_bintree_insert(bt, e, NULL); cstl_rbtree_insert(t, e, NULL);
    p = (void *)cstl_rbtree_find(tree, e, NULL); size = cstl_rbtree_size(tree);
    CK(p == e && size == 2 && cstl_bintree_find(bt, e, NULL) == e && cstl_bintree_size(tree_b) == 2, "names.trees.find", "find/size through variables named tree/bt");
    cstl_rbtree_height(tree, &min, &max); cstl_bintree_foreach(bt, once_bvisit, &n, CSTL_BINTREE_FOREACH_DIR_FWD); cstl_rbtree_foreach(rt, once_bvisit, &n, CSTL_BINTREE_FOREACH_DIR_FWD);
    CK(max == 2 && n == 8, "names.trees.foreach", "height %zu, %d visits", max, n);
    ncallbacks = 0;
    cstl_rbtree_clear(tree, clr, priv); cstl_bintree_clear(bt, clr, priv);
    CK(ncallbacks == 4 && cstl_rbtree_size(t) == 0 && cstl_bintree_size(bt) == 0, "names.trees.clear", "clear(tree, clr, priv): %d callbacks for 2 + 2 elements", ncallbacks);
    unmk();
    VRT_COUNT("reread.named-variable-calls");
}
static __attribute__((noinline)) void names_heap(void)
{
    struct cstl_heap heap_obj, *const heap = &heap_obj, *const h = heap;
    cstl_compare_func_t *const cmp = cmp_el;
    cstl_xtor_func_t *const clr = noop;
    void *const priv = NULL;
    const void *p;
    struct el *e;
    size_t size;
    mk();
    keytab[0] = 1; keytab[1] = 2;
    VRT_OP0("heap.clear", "arguments are variables named heap / h / cmp / clr / priv / e / p / size");
    cstl_heap_init(heap, cmp, priv, offsetof(struct el, hn));
    e = E[0]; cstl_heap_push(heap, e); e = E[1]; cstl_heap_push(h, e);
    p = cstl_heap_get(heap); size = cstl_heap_size(heap);
    CK(p == e && size == 2, "names.heap.get", "get/size through a variable named heap");
    ncallbacks = 0;
    cstl_heap_clear(heap, clr);
    CK(ncallbacks == 2 && cstl_heap_size(h) == 0 && cstl_heap_get(heap) == NULL, "names.heap.clear", "clear(heap, clr): %d callbacks for 2 elements", ncallbacks);
    unmk();
    VRT_COUNT("reread.named-variable-calls");
}
static __attribute__((noinline)) void names_lists(int dl)
{
    struct cstl_dlist dobj, *const l = &dobj, *const list = l;
    struct cstl_slist sobj, *const sl = &sobj, *const slist = sl;
    cstl_xtor_func_t *const clr = noop;
    void *p, *e;
    size_t size;
    mk();
    VRT_OP0("list.clear", "arguments are variables named list / l / sl / clr / e / p / size");
    if (dl) {
        cstl_dlist_init(list, offsetof(struct el, dn));
        e = E[0]; cstl_dlist_push_back(list, e); e = E[1]; cstl_dlist_push_front(l, e);
        p = cstl_dlist_front(list); size = cstl_dlist_size(list);
        CK(p == e && size == 2 && cstl_dlist_back(l) == E[0], "names.dlist.front", "front/size/back through a variable named list");
        ncallbacks = 0; cstl_dlist_clear(list, clr);
        CK(ncallbacks == 2 && cstl_dlist_size(l) == 0, "names.dlist.clear", "clear(list, clr): %d callbacks for 2 elements", ncallbacks);
    } else {
        cstl_slist_init(slist, offsetof(struct el, sn));
        e = E[0]; cstl_slist_push_back(slist, e); e = E[1]; cstl_slist_push_front(sl, e);
        p = cstl_slist_front(slist); size = cstl_slist_size(slist);
        CK(p == e && size == 2 && cstl_slist_back(sl) == E[0], "names.slist.front", "front/size/back through a variable named slist");
        ncallbacks = 0; cstl_slist_clear(slist, clr);
        CK(ncallbacks == 2 && cstl_slist_size(sl) == 0, "names.slist.clear", "clear(slist, clr): %d callbacks for 2 elements", ncallbacks);
    }
    unmk();
    VRT_COUNT("reread.named-variable-calls");
}
static __attribute__((noinline)) void names_map(void)
{
    cstl_map_t map_obj, *const map = &map_obj, *const m = map;
    cstl_compare_func_t *const cmp = cmp_int;
    cstl_xtor_func_t *const clr = noop;
    void *const priv = NULL;
    static int key = 4, val = 5;
    int *const k = &key, *const v = &val;
    cstl_map_iterator_t it, *const i = &it;
    size_t size;
    VRT_OP0("map.clear", "arguments are variables named map / m / cmp / clr / priv / key / k / v / i / size");
    cstl_map_init(map, cmp, priv);
    CK(cstl_map_insert(map, k, v, i) == 0 && i->key == k && i->val == v, "names.map.insert", "insert through variables named map/k/v/i");
    cstl_map_find(m, &key, i); size = cstl_map_size(map);
    CK(size == 1 && !cstl_map_iterator_eq(i, cstl_map_iterator_end(map)), "names.map.find", "find/size through a variable named map");
    ncallbacks = 0; cstl_map_clear(map, clr, priv);
    CK(ncallbacks == 1 && cstl_map_size(m) == 0, "names.map.clear", "clear(map, clr, priv): %d callbacks for 1 entry", ncallbacks);
    VRT_COUNT("reread.named-variable-calls");
}
static __attribute__((noinline)) void names_hash(void)
{
    struct cstl_hash hash_obj, *const hash = &hash_obj, *const h = hash;
    cstl_xtor_func_t *const clr = noop;
    const size_t k = 77, count = 8, n = 8;
    void *e, *p;
    size_t size;
    mk();
    VRT_OP0("hash.clear", "arguments are variables named hash / h / clr / k / e / p / count / n / size");
    cstl_hash_init(hash, offsetof(struct el, xn)); cstl_hash_resize(hash, count, NULL); (void)n;
    e = E[0]; cstl_hash_insert(hash, k, e);
    p = cstl_hash_find(h, k, NULL, NULL); size = cstl_hash_size(hash);
    CK(p == e && size == 1, "names.hash.find", "find/size through a variable named hash");
    ncallbacks = 0; cstl_hash_clear(hash, clr);
    CK(ncallbacks == 1 && cstl_hash_size(h) == 0, "names.hash.clear", "clear(hash, clr): %d callbacks for 1 element", ncallbacks);
    unmk();
    VRT_COUNT("reread.named-variable-calls");
}
static __attribute__((noinline)) void names_vector(void)
{
    struct cstl_vector vec, *const v = &vec, *const vector = v;
    const size_t sz = 5, i = 2;
    size_t size;
    void *p;
    VRT_OP0("vector.at", "arguments are variables named vector / v / sz / i / p / size");
    cstl_vector_init(vector, sizeof(uint32_t)); cstl_vector_resize(v, sz);
    p = cstl_vector_at(vector, i); size = cstl_vector_size(vector);
    CK(size == 5 && p == (char *)cstl_vector_data(v) + 8, "names.vector.at", "at/size through a variable named vector");
    cstl_vector_clear(vector);
    CK(cstl_vector_size(v) == 0 && cstl_vector_capacity(vector) == 0, "names.vector.clear", "clear(vector)");
    VRT_COUNT("reread.named-variable-calls");
}
static __attribute__((noinline)) void names_string(void)
{
    cstl_string_t str_obj, *const s = &str_obj, *const string = s;
    const char *const str = "abc";
    const size_t pos = 1, n = 1, i = 2, sz = 2;
    size_t size;
    VRT_OP0("string.erase", "arguments are variables named string / s / str / pos / n / i / sz / size");
    cstl_string_init(string); cstl_string_set_str(s, str);
    cstl_string_erase(string, pos, n); size = cstl_string_size(string);
    CK(size == 2 && strcmp(cstl_string_str(s), "ac") == 0 && *cstl_string_at(string, i - 1) == 'c', "names.string.erase", "erase/size/at through a variable named string");
    cstl_string_resize(string, sz); cstl_string_clear(string);
    CK(cstl_string_size(s) == 0, "names.string.clear", "clear(string)");
    VRT_COUNT("reread.named-variable-calls");
}
static __attribute__((noinline)) void names_array(void)
{
    cstl_array_t array_obj, *const a = &array_obj, *const array = a, slice_obj, *const slice = &slice_obj;
    const size_t nm = 6, sz = 4, i = 3, beg = 1, end = 4;
    size_t size;
    void *p, *buf;
    VRT_OP0("array.at", "arguments are variables named array / a / slice / nm / sz / i / beg / end / buf / p / size");
    cstl_array_init(array); cstl_array_init(slice);
    cstl_array_alloc(array, nm, sz);
    p = cstl_array_at(array, i); size = cstl_array_size(array); buf = cstl_array_data(a);
    CK(size == 6 && p == (char *)buf + 12, "names.array.at", "at/size/data through a variable named array");
    cstl_array_slice(array, beg, end, slice);
    CK(cstl_array_size(slice) == 3 && cstl_array_at(slice, 0) == (char *)buf + 4, "names.array.slice", "slice(array, beg, end, slice)");
    cstl_array_reset(slice); cstl_array_reset(array);
    CK(cstl_array_size(a) == 0 && vrt_lib_live() == 0, "names.array.reset", "reset(array)");
    VRT_COUNT("reread.named-variable-calls");
}
static __attribute__((noinline)) void names_memory(void)
{
    cstl_shared_ptr_t sp_obj, *const sp = &sp_obj, *const ptr = sp, e_obj, *const ex = &e_obj;
    cstl_weak_ptr_t wp_obj, *const wp = &wp_obj;
    cstl_unique_ptr_t up_obj, *const up = &up_obj;
    cstl_xtor_func_t *const clr_fn = clr;
    const size_t sz = 24, size = 24;
    void *p, *priv = NULL;
    VRT_OP0("shared_ptr.reset", "arguments are variables named sp / ptr / wp / up / sz / size / priv / p");
    cstl_shared_ptr_init(sp); cstl_shared_ptr_init(ex); cstl_weak_ptr_init(wp); cstl_unique_ptr_init(up);
    cleared = 0;
    cstl_shared_ptr_alloc(ptr, sz, clr_fn); p = cstl_shared_ptr_get(sp);
    cstl_shared_ptr_share(sp, ex); cstl_weak_ptr_from(wp, ptr); cstl_shared_ptr_reset(ex); cstl_weak_ptr_lock(wp, ex);
    CK(p != NULL && cstl_shared_ptr_get(ex) == p && !cstl_shared_ptr_unique(ptr), "names.memory.lock", "share/from/lock through variables named sp/ptr/wp");
    cstl_shared_ptr_reset(ex); cstl_weak_ptr_reset(wp); cstl_shared_ptr_reset(ptr);
    cstl_unique_ptr_alloc(up, size, clr_fn, priv); cstl_unique_ptr_reset(up);
    CK(cleared == 2 && vrt_lib_live() == 0, "names.memory.reset", "%d clear callbacks for one shared and one unique allocation", cleared);
    VRT_COUNT("reread.named-variable-calls");
}

/* ---- declared objects as elements, the same object in two roles, caller buffers at odd addresses ----
 * (a) Elements that are DECLARED objects (not heap blocks): a function attribute that promises "the result aliases nothing"
 *     (malloc, returns_nonnull ...) lets the client's compiler fold `pop_front(&l) == &obj` or reorder accesses through the
 *     returned pointer and through the object's own name.
 * (b) One string object as both operands (find(s, s, pos), compare(s, s)), with an embedded NUL.
 * (c) An external array buffer at an odd address (records behind a one-byte header). */
static __attribute__((noinline)) void declared_lists(int dl)
{
    struct el a, b, c;
    struct cstl_dlist d;
    struct cstl_slist s;
    void *r;
    memset(&a, 0x41, sizeof(a)); memset(&b, 0x42, sizeof(b)); memset(&c, 0x43, sizeof(c));
    a.key = 0; b.key = 1; c.key = 2; keytab[0] = 10; keytab[1] = 20; keytab[2] = 30;
    VRT_OP0("list.pop_front", "elements are declared (automatic) objects; results compared with their addresses, accessed under both names");
    if (dl) {
        cstl_dlist_init(&d, offsetof(struct el, dn));
        cstl_dlist_push_back(&d, &a); cstl_dlist_push_back(&d, &b); cstl_dlist_push_back(&d, &c);
        a.pad0 = 111;
        r = cstl_dlist_pop_front(&d);
        CK(r == &a, "declared.dlist.pop_front", "pop_front did not return the address of the declared first element");
        ((struct el *)r)->pad0 = 222;
        CK(a.pad0 == 222, "declared.dlist.alias", "a store through the pointer returned by pop_front is not seen under the object's own name");
        r = cstl_dlist_pop_back(&d);
        CK(r == &c && cstl_dlist_front(&d) == &b && cstl_dlist_back(&d) == &b, "declared.dlist.pop_back", "pop_back/front/back with declared elements");
        b.pad0 = 5; ((struct el *)cstl_dlist_front(&d))->pad0 = 6;
        CK(b.pad0 == 6 && cstl_dlist_pop_front(&d) == &b && cstl_dlist_pop_front(&d) == NULL, "declared.dlist.alias", "front() alias / last pops");
    } else {
        cstl_slist_init(&s, offsetof(struct el, sn));
        cstl_slist_push_back(&s, &a); cstl_slist_push_back(&s, &b); cstl_slist_push_back(&s, &c);
        a.pad0 = 111;
        r = cstl_slist_pop_front(&s);
        CK(r == &a, "declared.slist.pop_front", "pop_front did not return the address of the declared first element");
        ((struct el *)r)->pad0 = 222;
        CK(a.pad0 == 222, "declared.slist.alias", "a store through the pointer returned by pop_front is not seen under the object's own name");
        r = cstl_slist_erase_after(&s, &b);
        CK(r == &c && cstl_slist_front(&s) == &b && cstl_slist_back(&s) == &b, "declared.slist.erase_after", "erase_after/front/back with declared elements");
        c.pad0 = 7; ((struct el *)r)->pad0 = 8;
        CK(c.pad0 == 8 && cstl_slist_pop_front(&s) == &b && cstl_slist_pop_front(&s) == NULL, "declared.slist.alias", "erase_after alias / last pops");
    }
    VRT_COUNT("reread.declared-object-calls");
}
static __attribute__((noinline)) void declared_trees_heap(int heap)
{
    struct el a, b;
    const void *r;
    memset(&a, 0x41, sizeof(a)); memset(&b, 0x42, sizeof(b));
    a.key = 0; b.key = 1; keytab[0] = 10; keytab[1] = 20;
    VRT_OP0("tree.erase", "elements are declared (automatic) objects");
    if (heap) {
        struct cstl_heap h;
        cstl_heap_init(&h, cmp_el, NULL, offsetof(struct el, hn));
        cstl_heap_push(&h, &a); cstl_heap_push(&h, &b);
        b.pad0 = 1;
        r = cstl_heap_get(&h);
        CK(r == &b, "declared.heap.get", "get did not return the address of the declared maximum");
        r = cstl_heap_pop(&h);
        CK(r == &b, "declared.heap.pop", "pop did not return the address of the declared maximum");
        ((struct el *)r)->pad0 = 2;
        CK(b.pad0 == 2 && cstl_heap_pop(&h) == &a && cstl_heap_pop(&h) == NULL, "declared.heap.alias", "store through the popped pointer / last pops");
    } else {
        struct cstl_bintree bt;
        struct cstl_rbtree rt;
        cstl_bintree_init(&bt, cmp_el, NULL, offsetof(struct el, bn)); cstl_rbtree_init(&rt, cmp_el, NULL, offsetof(struct el, rn));
        cstl_bintree_insert(&bt, &a, NULL); cstl_bintree_insert(&bt, &b, NULL); cstl_rbtree_insert(&rt, &a, NULL); cstl_rbtree_insert(&rt, &b, NULL);
        CK(cstl_bintree_find(&bt, &b, NULL) == &b && cstl_rbtree_find(&rt, &a, NULL) == &a, "declared.trees.find", "find did not return the address of the declared element");
        a.pad0 = 1;
        r = cstl_bintree_erase(&bt, &a);
        CK(r == &a, "declared.trees.erase", "erase did not return the address of the declared element");
        ((struct el *)r)->pad0 = 2;
        CK(a.pad0 == 2 && cstl_rbtree_erase(&rt, &b) == &b && cstl_bintree_erase(&bt, &b) == &b && cstl_rbtree_erase(&rt, &a) == &a, "declared.trees.alias", "store through the erased pointer / remaining erases");
    }
    VRT_COUNT("reread.declared-object-calls");
}
static __attribute__((noinline)) void declared_hash(void)
{
    struct el a, b;
    struct cstl_hash h;
    void *r;
    memset(&a, 0x41, sizeof(a)); memset(&b, 0x42, sizeof(b));
    cstl_hash_init(&h, offsetof(struct el, xn)); cstl_hash_resize(&h, 4, NULL);
    VRT_OP0("hash.find", "elements are declared (automatic) objects");
    cstl_hash_insert(&h, 5, &a); cstl_hash_insert(&h, 6, &b);
    a.pad0 = 1;
    r = cstl_hash_find(&h, 5, NULL, NULL);
    CK(r == &a, "declared.hash.find", "find did not return the address of the declared element");
    ((struct el *)r)->pad0 = 2;
    CK(a.pad0 == 2 && cstl_hash_find(&h, 6, NULL, NULL) == &b, "declared.hash.alias", "store through the found pointer");
    cstl_hash_clear(&h, NULL);
    VRT_COUNT("reread.declared-object-calls");
}
static __attribute__((noinline)) void same_object_string(void)
{
    cstl_string_t s;
    cstl_wstring_t w;
    static const char raw[5] = { 'a', 'b', 0, 'a', 'b' };
    static const wchar_t wraw[3] = { 0, L'x', L'y' };
    cstl_string_init(&s); cstl_wstring_init(&w);
    VRT_OP0("string.find", "the same string object as haystack and needle, with an embedded NUL");
    cstl_string_insert_str_n(&s, 0, raw, 5); cstl_wstring_insert_str_n(&w, 0, wraw, 3);
    CK(cstl_string_size(&s) == 5 && cstl_wstring_size(&w) == 3, "same.string.setup", "sizes");
    /* the needle of find(hay, ndl, pos) is str(ndl): it ends at the first NUL, exactly as for strstr / wcsstr */
    /* (pos 1 is left out: whether the haystack, too, ends at its first NUL is the C library's view, the whole buffer the other) */
    CK(cstl_string_find(&s, &s, 0) == 0 && cstl_string_find(&s, &s, 3) == 3 && cstl_string_find(&s, &s, 4) == -1,
       "same.string.find", "find(s, s, pos) on \"ab\\0ab\" does not agree with strstr on the same characters");
    CK(cstl_wstring_find(&w, &w, 0) == 0 && cstl_wstring_find(&w, &w, 1) == 1 && cstl_wstring_find(&w, &w, 2) == 2,
       "same.wstring.find", "find(w, w, pos) on L\"\\0xy\" (empty needle) does not agree with wcsstr");
    CK(cstl_string_compare(&s, &s) == 0 && cstl_wstring_compare(&w, &w) == 0, "same.string.compare", "compare(s, s) is not 0");
    /* (append(s, s) / insert(s, pos, s) are NOT driven: "append one string object to ANOTHER"; with the source inside the buffer
     * that is being re-allocated today's library reads the old buffer -- an aliasing the documentation does not promise) */
    cstl_string_clear(&s); cstl_wstring_clear(&w);
    VRT_COUNT("reread.same-object-calls");
}
static __attribute__((noinline)) void odd_buffer_array(void)
{
    cstl_array_t a, v;
    unsigned char *blk = vrt_alloc(1 + 5 * 3 + 1);
    void *buf = NULL;
    size_t i;
    for (i = 0; i < 17; i++) blk[i] = (unsigned char)(i + 1);
    cstl_array_init(&a); cstl_array_init(&v);
    VRT_OP0("array.set", "an external buffer of five 3-byte records at an ODD address");
    cstl_array_set(&a, blk + 1, 5, 3);
    CK(cstl_array_size(&a) == 5 && cstl_array_data(&a) == blk + 1 && cstl_array_at(&a, 0) == blk + 1 && cstl_array_at(&a, 4) == blk + 13
       && *(unsigned char *)cstl_array_at(&a, 2) == 8, "odd.array.at", "at()/data() of a view over a buffer at an odd address");
    cstl_array_slice(&a, 1, 4, &v);
    CK(cstl_array_size(&v) == 3 && cstl_array_at(&v, 0) == blk + 4 && cstl_array_at_const(&v, 2) == blk + 10, "odd.array.slice", "slice over a buffer at an odd address");
    cstl_array_reset(&v);
    cstl_array_release(&a, &buf);
    CK(buf == blk + 1 && cstl_array_size(&a) == 0 && vrt_lib_live() == 0, "odd.array.release", "release handed back %p, the buffer supplied was %p", buf, (void *)(blk + 1));
    vrt_free(blk);
    VRT_COUNT("reread.odd-address-buffers");
}
static void extra_trees(void) { macro_trees(); names_trees(); declared_trees_heap(0); }
static void extra_heap(void) { macro_heap(); names_heap(); declared_trees_heap(1); }
static void extra_hash(void) { macro_hash(); conv_hash(); names_hash(); declared_hash(); }
static void extra_map(void) { names_map(); }
static void extra_vector(void) { conv_vector(); names_vector(); }
static void extra_string(void) { conv_string(); names_string(); same_object_string(); }
static void extra_dlist(void) { macro_dlist(); names_lists(1); declared_lists(1); }
static void extra_slist(void) { macro_slist(); names_lists(0); declared_lists(0); }
static void extra_array(void) { names_array(); odd_buffer_array(); }
static void extra_memory(void) { names_memory(); }

static const struct { const char *name; void (*f)(void); void (*once)(void); void (*extra)(void); } fam[] = {
    { "trees", f_trees, once_trees, extra_trees }, { "heap", f_heap, once_heap, extra_heap }, { "hash", f_hash, once_hash, extra_hash }, { "map", f_map, once_map, extra_map },
    { "vector", f_vector, once_vector, extra_vector }, { "string", f_string, once_string, extra_string },
    { "dlist", f_dlist, once_dlist, extra_dlist }, { "slist", f_slist, once_slist, extra_slist }, { "array", f_array, once_array, extra_array }, { "memory", f_memory, once_memory, extra_memory },
};
#define NFAM ((int)(sizeof(fam) / sizeof(fam[0])))
static uint64_t ncases(void) { return 1; }
static void run_case(uint64_t idx)
{
    int k;
    (void)idx;
    for (k = 0; k < NFAM; k++) if (strcmp(vrt_mode, fam[k].name) == 0 || strcmp(vrt_mode, "all") == 0 || vrt_mode[0] == 0) {
        vrt_case_note("look - change - look again in one optimised caller function: %s", fam[k].name);
        vrt_state(fam[k].name);
        fam[k].f();
        vrt_state("side-effect-arguments");
        fam[k].once();
        vrt_state("macro-arguments-names-conversions");
        fam[k].extra();
        vrt_sig(0, vrt_mix(0x4e4e, (uint64_t)k));
        VRT_COUNT("reread.families");
    }
}
static void winit(void) { vrt_sig_name(0, "families"); }
static const char *const required[] = { "reread.families", "reread.rounds", "reread.once-calls", "reread.named-variable-calls", NULL };
static const struct vrt_harness H = { "reread", ncases, run_case, winit, NULL, required, 1 };
int main(int argc, char **argv) { return vrt_main(argc, argv, &H); }
