/*
 * reread.c -- "look, change, look again" inside ONE caller function, compiled with optimisation.
 *
 * The accessors of every container (size, front/back, get, find, at, data, str, unique, ...) are declared, and many
 * of them defined, in the public headers.  What a client's compiler may assume about them -- a function attribute
 * such as const/pure/malloc/nonnull/returns_nonnull, an inline body that caches a value -- is therefore library
 * behaviour: `__attribute__((const))` on an accessor lets the caller's compiler fold the second call into the first
 * across a push or a pop, and the client then sees a stale top/size/pointer although the library object is fine.
 * The model-based harnesses call each accessor once per audit function, so nothing can be folded there.  Here every
 * family gets one function in which accessors are called, the object is changed through the API, and the same
 * accessors are called again with the same argument expressions; every result is compared with a value that is
 * known by construction.  mode = the family (trees, hash, heap, map, vector, string, dlist, slist, array, memory).
 * Compiled -O2 (and -O1 in the debug configuration).
 */
#include "vrt.h"
#include <stdio.h>
#include <string.h>
#include <stdint.h>
#include <wchar.h>
#include <cstl/bintree.h>
#include <cstl/rbtree.h>
#include <cstl/hash.h>
#include <cstl/heap.h>
#include <cstl/map.h>
#include <cstl/vector.h>
#include <cstl/string.h>
#include <cstl/dlist.h>
#include <cstl/slist.h>
#include <cstl/array.h>
#include <cstl/memory.h>

#define N 48
#define CK(cond, key, ...) VRT_CHECK(cond, "reread." key, __VA_ARGS__)

struct el {
    uint64_t pad0;
    int key;
    struct cstl_bintree_node bn;
    struct cstl_rbtree_node rn;
    struct cstl_heap_node hn;
    struct cstl_hash_node xn;
    struct cstl_dlist_node dn;
    struct cstl_slist_node sn;
};
static struct el *E[N];
/* The ordering key of element i lives in a file-scope table that never leaves this translation unit and is WRITTEN
 * BY THE CALLER right before the element is handed to the library: a prototype that wrongly promises "this call
 * does not call back into the caller" (__attribute__((leaf))) lets the caller's compiler move that store across
 * the call, and the comparison callback then sees the old value.  Callbacks also count into file-scope counters
 * that are read right after the call. */
static int keytab[N];
static int ncallbacks;
static int cmp_el(const void *a, const void *b, void *p)
{
    const struct el *x = a, *y = b;
    const int kx = keytab[x->key], ky = keytab[y->key];
    (void)p;
    return vrt_cmp_result((kx > ky) - (kx < ky), (unsigned)(kx * 7 + ky));
}
#define KEY(e) (keytab[(e)->key])
static void mk(void)
{
    int i;
    /* el.key is the element's index into keytab; the table entry is filled in by the family function */
    for (i = 0; i < N; i++) { E[i] = vrt_alloc(sizeof(struct el)); memset(E[i], 0x5e, sizeof(struct el)); E[i]->key = i; keytab[i] = -1000 - i; }
    ncallbacks = 0;
}
static void noop(void *e, void *p) { (void)e; (void)p; ncallbacks++; }
static void unmk(void) { int i; for (i = 0; i < N; i++) vrt_free(E[i]); }

/* ---- trees ---- */
static __attribute__((noinline)) void f_trees(void)
{
    struct cstl_bintree bt;
    struct cstl_rbtree rt;
    int i;
    mk();
    cstl_bintree_init(&bt, cmp_el, NULL, offsetof(struct el, bn));
    cstl_rbtree_init(&rt, cmp_el, NULL, offsetof(struct el, rn));
    {
        VRT_OP0("bintree.insert", "three elements, keys 10 30 20 written just before each insert");
        keytab[0] = 10; cstl_bintree_insert(&bt, E[0], NULL);
        keytab[1] = 30; cstl_bintree_insert(&bt, E[1], NULL);
        keytab[2] = 20; cstl_bintree_insert(&bt, E[2], NULL);
        CK(cstl_bintree_find(&bt, E[2], NULL) == E[2] && cstl_bintree_find(&bt, E[1], NULL) == E[1] && cstl_bintree_find(&bt, E[0], NULL) == E[0],
           "trees.indirect-keys", "an element is not found under the key that was written just before its insert");
        keytab[3] = 10; cstl_rbtree_insert(&rt, E[3], NULL);
        keytab[4] = 30; cstl_rbtree_insert(&rt, E[4], NULL);
        keytab[5] = 20; cstl_rbtree_insert(&rt, E[5], NULL);
        CK(cstl_rbtree_find(&rt, E[5], NULL) == E[5] && cstl_rbtree_find(&rt, E[4], NULL) == E[4] && cstl_rbtree_find(&rt, E[3], NULL) == E[3],
           "trees.indirect-keys", "an element is not found under the key that was written just before its insert (rbtree)");
        CK(cstl_bintree_erase(&bt, E[0]) == E[0] && cstl_bintree_erase(&bt, E[1]) == E[1] && cstl_bintree_erase(&bt, E[2]) == E[2]
           && cstl_rbtree_erase(&rt, E[3]) == E[3] && cstl_rbtree_erase(&rt, E[4]) == E[4] && cstl_rbtree_erase(&rt, E[5]) == E[5], "trees.indirect-keys.erase", "erase of the three elements");
        for (i = 0; i < 6; i++) keytab[i] = -1000 - i;
    }
    for (i = 0; i < N; i++) {
        struct el *const e = E[i], *const ep = i > 0 ? E[i - 1] : NULL;     /* locals: the same argument VALUES in every call */
        const size_t s0 = cstl_bintree_size(&bt), r0 = cstl_rbtree_size(&rt);
        const void *f0 = cstl_bintree_find(&bt, e, NULL), *g0 = cstl_rbtree_find(&rt, e, NULL);
        size_t s1, r1;
        const void *f1, *g1;
        VRT_OP1("bintree.insert", "key %ld", ((i * 29) % N));
        keytab[i] = (i * 29) % N;      /* the store sits directly in front of the library call */
        cstl_bintree_insert(&bt, e, NULL);
        cstl_rbtree_insert(&rt, e, NULL);
        s1 = cstl_bintree_size(&bt); r1 = cstl_rbtree_size(&rt);
        f1 = cstl_bintree_find(&bt, e, NULL); g1 = cstl_rbtree_find(&rt, e, NULL);
        CK(f0 == NULL && g0 == NULL, "trees.find-before-insert", "find of a key that was never inserted returned an element");
        CK(s1 == s0 + 1 && r1 == r0 + 1, "trees.size-after-insert", "size %zu -> %zu (bintree), %zu -> %zu (rbtree) across an insert", s0, s1, r0, r1);
        CK(f1 == e && g1 == e, "trees.find-after-insert", "find right after the insert did not return the element");
        if (i % 3 == 2) {
            size_t s2, r2;
            const void *f2, *g2;
            const void *fp = cstl_bintree_find(&bt, ep, NULL), *gp = cstl_rbtree_find(&rt, ep, NULL);
            VRT_OP1("bintree.erase", "key %ld", KEY(ep));
            CK(fp == ep && gp == ep, "trees.find-before-erase", "an element inserted earlier is not found");
            CK(cstl_bintree_erase(&bt, ep) == ep && cstl_rbtree_erase(&rt, ep) == ep, "trees.erase", "erase did not return the element");
            s2 = cstl_bintree_size(&bt); r2 = cstl_rbtree_size(&rt);
            f2 = cstl_bintree_find(&bt, ep, NULL); g2 = cstl_rbtree_find(&rt, ep, NULL);
            CK(s2 == s1 - 1 && r2 == r1 - 1 && f2 == NULL && g2 == NULL, "trees.after-erase", "size/find right after an erase are stale");
            CK(cstl_bintree_find(&bt, e, NULL) == e && cstl_rbtree_find(&rt, e, NULL) == e, "trees.find-other-after-erase", "another element is no longer found");
        }
        VRT_COUNT("reread.rounds");
    }
    {
        const size_t left = cstl_bintree_size(&bt);
        ncallbacks = 0;
        cstl_bintree_clear(&bt, noop, NULL);
        CK((size_t)ncallbacks == left, "trees.clear-callbacks", "bintree clear of %zu elements: the caller counted %d callbacks", left, ncallbacks);
        cstl_rbtree_clear(&rt, noop, NULL);
        CK((size_t)ncallbacks == 2 * left, "trees.clear-callbacks", "rbtree clear of %zu elements: the caller counted %d callbacks in total", left, ncallbacks);
    }
    CK(cstl_bintree_size(&bt) == 0 && cstl_rbtree_size(&rt) == 0 && cstl_bintree_find(&bt, E[0], NULL) == NULL && cstl_rbtree_find(&rt, E[0], NULL) == NULL,
       "trees.after-clear", "size/find after clear are stale");
    unmk();
}

/* ---- heap ---- */
static __attribute__((noinline)) void f_heap(void)
{
    struct cstl_heap h;
    int i, mx = -1;
    mk();
    cstl_heap_init(&h, cmp_el, NULL, offsetof(struct el, hn));
    {
        /* straight-line, constant stores to neighbouring table entries, each directly in front of the call that makes
         * the library compare with it (what a compiler merges and sinks if it believes the call cannot look) */
        const void *g;
        VRT_OP0("heap.push", "three elements, priorities 10 30 20 written just before each push");
        keytab[0] = 10; cstl_heap_push(&h, E[0]);
        keytab[1] = 30; cstl_heap_push(&h, E[1]);
        keytab[2] = 20; cstl_heap_push(&h, E[2]);
        g = cstl_heap_get(&h);
        CK(g == E[1], "heap.indirect-priorities", "the top of the heap is not the element whose priority was written as 30 before its push");
        CK(cstl_heap_pop(&h) == E[1] && cstl_heap_pop(&h) == E[2] && cstl_heap_pop(&h) == E[0] && cstl_heap_pop(&h) == NULL, "heap.indirect-priorities.pop-order", "pops do not come in priority order 30 20 10");
        keytab[0] = -1000; keytab[1] = -1001; keytab[2] = -1002;
    }
    for (i = 0; i < N; i++) {
        const void *g0 = cstl_heap_get(&h), *g1;
        const size_t s0 = cstl_heap_size(&h);
        size_t s1;
        VRT_OP1("heap.push", "key %ld", ((i * 29) % N));
        keytab[i] = (i * 29) % N;      /* the store sits directly in front of the library call */
        cstl_heap_push(&h, E[i]);
        if (keytab[i] > mx) mx = keytab[i];
        g1 = cstl_heap_get(&h); s1 = cstl_heap_size(&h);
        CK((i == 0) == (g0 == NULL), "heap.get-before-push", "get before push %d returned %p", i, g0);
        CK(s1 == s0 + 1 && g1 != NULL && KEY((const struct el *)g1) == mx, "heap.after-push", "size/get right after a push are stale (size %zu -> %zu)", s0, s1);
        VRT_COUNT("reread.rounds");
    }
    for (i = N - 1; i >= 0; i--) {
        const void *g0 = cstl_heap_get(&h), *g1;
        void *p;
        VRT_OP0("heap.pop", "");
        p = cstl_heap_pop(&h);
        g1 = cstl_heap_get(&h);
        CK(p == g0 && KEY((struct el *)p) == i, "heap.pop", "pop returned key %d, expected %d", p ? KEY((struct el *)p) : -1, i);
        CK(cstl_heap_size(&h) == (size_t)i && (i == 0 ? g1 == NULL : (g1 != NULL && KEY((const struct el *)g1) == i - 1)), "heap.after-pop", "size/get right after a pop are stale");
    }
    unmk();
}

/* ---- hash ---- */
static int nvisits;
static int count_visit(const void *e, void *p) { (void)e; ++*(size_t *)p; nvisits++; return 0; }
static __attribute__((noinline)) void f_hash(void)
{
    struct cstl_hash h;
    int i;
    mk();
    cstl_hash_init(&h, offsetof(struct el, xn));
    cstl_hash_resize(&h, 8, NULL);
    for (i = 0; i < N; i++) {
        const size_t k = (size_t)((i * 29) % N) * 0x100000001ull, s0 = cstl_hash_size(&h);
        const float l0 = cstl_hash_load(&h);
        struct el *const e = E[i];
        void *f0 = cstl_hash_find(&h, k, NULL, NULL), *f1;
        size_t s1;
        float l1;
        VRT_OP1("hash.insert", "key %ld", (long)k);
        cstl_hash_insert(&h, k, e);
        s1 = cstl_hash_size(&h); l1 = cstl_hash_load(&h); f1 = cstl_hash_find(&h, k, NULL, NULL);
        CK(f0 == NULL && f1 == e && s1 == s0 + 1 && l1 > l0, "hash.after-insert", "size/load/find right after an insert are stale (size %zu -> %zu)", s0, s1);
        if (i == 20) { cstl_hash_resize(&h, 32, NULL); CK(cstl_hash_load(&h) < l1 && cstl_hash_find(&h, k, NULL, NULL) == e, "hash.after-resize", "load/find right after a resize are stale"); }
        if (i % 4 == 3) {
            VRT_OP1("hash.erase", "key %ld", (long)k);
            cstl_hash_erase(&h, e);
            CK(cstl_hash_size(&h) == s0 && cstl_hash_find(&h, k, NULL, NULL) == NULL, "hash.after-erase", "size/find right after an erase are stale");
        }
        VRT_COUNT("reread.rounds");
    }
    {
        const size_t left = cstl_hash_size(&h);
        size_t seen = 0;
        CK(cstl_hash_foreach_const(&h, count_visit, &seen) == 0 && seen == left && (size_t)nvisits == left, "hash.foreach-callbacks",
           "foreach_const over %zu elements: %zu / %d visits counted by the caller", left, seen, nvisits);
        ncallbacks = 0;
        cstl_hash_clear(&h, noop);
        CK((size_t)ncallbacks == left, "hash.clear-callbacks", "clear of %zu elements: the caller counted %d callbacks", left, ncallbacks);
    }
    CK(cstl_hash_size(&h) == 0, "hash.after-clear", "size after clear is stale");
    unmk();
}

/* ---- map ---- */
static int ncmp_int;
static int cmp_int(const void *a, const void *b, void *p) { (void)p; ncmp_int++; return (*(const int *)a > *(const int *)b) - (*(const int *)a < *(const int *)b); }
static __attribute__((noinline)) void f_map(void)
{
    cstl_map_t m;
    static int keys[N], vals[N];
    int i;
    cstl_map_init(&m, cmp_int, NULL);
    for (i = 0; i < N; i++) {
        cstl_map_iterator_t it0, it1;
        const size_t s0 = cstl_map_size(&m);
        int r;
        int *const kp = &keys[i];
        keys[i] = (i * 29) % N; vals[i] = i;
        cstl_map_find(&m, kp, &it0);
        VRT_OP1("map.insert", "key %ld", keys[i]);
        r = cstl_map_insert(&m, kp, &vals[i], NULL);
        cstl_map_find(&m, kp, &it1);
        CK(r == 0 && cstl_map_size(&m) == s0 + 1 && cstl_map_iterator_eq(&it0, cstl_map_iterator_end(&m)) && !cstl_map_iterator_eq(&it1, cstl_map_iterator_end(&m))
           && it1.key == &keys[i] && it1.val == &vals[i], "map.after-insert", "size/find right after an insert are stale");
        if (i % 3 == 2) {
            cstl_map_iterator_t it2;
            VRT_OP1("map.erase", "key %ld", keys[i - 1]);
            CK(cstl_map_erase(&m, &keys[i - 1], NULL) == 0, "map.erase", "erase of a present key failed");
            cstl_map_find(&m, &keys[i - 1], &it2);
            CK(cstl_map_size(&m) == s0 && cstl_map_iterator_eq(&it2, cstl_map_iterator_end(&m)), "map.after-erase", "size/find right after an erase are stale");
        }
        VRT_COUNT("reread.rounds");
    }
    {
        const size_t left = cstl_map_size(&m);
        cstl_map_iterator_t it;
        int probe = keys[N - 1], c0 = ncmp_int;
        cstl_map_find(&m, &probe, &it);
        CK(ncmp_int > c0, "map.find-comparisons", "a find in a map of %zu entries: the caller counted no comparison", left);
        ncallbacks = 0;
        cstl_map_clear(&m, noop, NULL);
        CK((size_t)ncallbacks == left, "map.clear-callbacks", "clear of %zu entries: the caller counted %d callbacks", left, ncallbacks);
    }
    CK(cstl_map_size(&m) == 0, "map.after-clear", "size after clear is stale");
}

/* ---- vector ---- */
static int nctor, ndtor;
static void v_ctor(void *e, void *p) { (void)p; *(uint32_t *)e = 0xC0C0C0C0u; nctor++; }
static void v_dtor(void *e, void *p) { (void)p; *(uint32_t *)e = 0xDDDDDDDDu; ndtor++; }
static int nvcmp;
static int cmp_u32(const void *a, const void *b, void *p) { (void)p; nvcmp++; return (*(const uint32_t *)a > *(const uint32_t *)b) - (*(const uint32_t *)a < *(const uint32_t *)b); }
static __attribute__((noinline)) void f_vector(void)
{
    struct cstl_vector v;
    size_t n;
    cstl_vector_init(&v, sizeof(uint64_t));
    for (n = 1; n <= 3000; n = n * 2 + 1) {
        const size_t s0 = cstl_vector_size(&v), c0 = cstl_vector_capacity(&v);
        size_t s1, c1, k;
        void *d1;
        VRT_OP1("vector.resize", "-> %ld", (long)n);
        cstl_vector_resize(&v, n);
        s1 = cstl_vector_size(&v); c1 = cstl_vector_capacity(&v); d1 = cstl_vector_data(&v);
        CK(s1 == n && c1 >= n && c1 >= c0 && s0 < s1 && d1 != NULL, "vector.after-resize", "size/capacity/data right after a resize are stale (%zu -> %zu)", s0, s1);
        CK(cstl_vector_at(&v, 0) == d1 && cstl_vector_at(&v, n - 1) == (char *)d1 + (n - 1) * sizeof(uint64_t) && cstl_vector_at_const(&v, n / 2) == (char *)d1 + (n / 2) * sizeof(uint64_t),
           "vector.at-after-resize", "at() right after a resize does not point into the current buffer");
        for (k = s0; k < n; k++) *(uint64_t *)cstl_vector_at(&v, k) = k * 3;
        CK(VRT_ABORTS((void)cstl_vector_at(&v, n)), "vector.at-size-no-abort", "at(size) right after a resize returned");
        VRT_COUNT("reread.rounds");
    }
    {
        size_t k;
        for (k = 0; k < cstl_vector_size(&v); k++) CK(*(uint64_t *)cstl_vector_at(&v, k) == k * 3, "vector.content", "element %zu lost its value", k);
        VRT_OP0("vector.shrink", "resize 7 + shrink_to_fit");
        cstl_vector_resize(&v, 7); cstl_vector_shrink_to_fit(&v);
        CK(cstl_vector_size(&v) == 7 && cstl_vector_capacity(&v) == 7 && cstl_vector_at(&v, 6) == (char *)cstl_vector_data(&v) + 6 * 8 && *(uint64_t *)cstl_vector_at(&v, 6) == 18,
           "vector.after-shrink", "size/capacity/data/at right after shrinking are stale");
        cstl_vector_clear(&v);
        CK(cstl_vector_size(&v) == 0 && cstl_vector_capacity(&v) == 0 && cstl_vector_data(&v) == NULL, "vector.after-clear", "size/capacity/data after clear are stale");
    }
    {
        struct cstl_vector w;
        cstl_vector_init_complex(&w, sizeof(uint32_t), v_ctor, v_dtor, NULL);
        nctor = ndtor = 0;
        cstl_vector_resize(&w, 100);
        CK(nctor == 100 && ndtor == 0, "vector.constructor-calls", "growing by 100 elements: the caller counted %d constructor calls", nctor);
        cstl_vector_resize(&w, 40);
        CK(ndtor == 60, "vector.destructor-calls", "shrinking by 60 elements: the caller counted %d destructor calls", ndtor);
        cstl_vector_clear(&w);
        CK(ndtor == 100 && nctor == 100, "vector.destructor-calls", "after clear: %d constructor and %d destructor calls for 100 elements", nctor, ndtor);
        /* sort with a comparator that counts into file-scope state */
        cstl_vector_init(&w, sizeof(uint32_t));
        cstl_vector_resize(&w, 64);
        { size_t k; for (k = 0; k < 64; k++) *(uint32_t *)cstl_vector_at(&w, k) = (uint32_t)((k * 37) % 64); }
        nvcmp = 0;
        cstl_vector_sort(&w, cmp_u32, NULL);
        { size_t k; for (k = 0; k < 64; k++) CK(*(uint32_t *)cstl_vector_at(&w, k) == k, "vector.sort", "element %zu after sort", k); }
        CK(nvcmp >= 63, "vector.sort-comparisons", "sorting 64 elements: the caller counted %d comparisons", nvcmp);
        { uint32_t probe = 17; CK(cstl_vector_search(&w, &probe, cmp_u32, NULL) == 17 && cstl_vector_find(&w, &probe, cmp_u32, NULL) == 17, "vector.search", "search/find of a present value"); }
        cstl_vector_clear(&w);
    }
}

/* ---- string ---- */
static __attribute__((noinline)) void f_string(void)
{
    cstl_string_t s;
    cstl_wstring_t w;
    char ref[256];
    int i;
    cstl_string_init(&s); cstl_wstring_init(&w);
    ref[0] = 0;
    for (i = 0; i < 40; i++) {
        const size_t s0 = cstl_string_size(&s), w0 = cstl_wstring_size(&w);
        const char *p1;
        const int emp0 = cstl_string_str(&s)[0] == 0;
        const char c = (char)('a' + i % 26);
        const int cmp0 = cstl_string_compare_str(&s, ref);
        const ssize_t e0 = strchr(ref, c) ? (ssize_t)(strchr(ref, c) - ref) : -1;
        ssize_t f0 = s0 > 0 ? cstl_string_find_ch(&s, c, 0) : -1, f1;
        VRT_OP1("string.append_ch", "'%ld'", c);
        cstl_string_append_ch(&s, 3, c); cstl_wstring_append_ch(&w, 2, (wchar_t)(0x100 + i));
        ref[s0] = ref[s0 + 1] = ref[s0 + 2] = c; ref[s0 + 3] = 0;
        p1 = cstl_string_str(&s);
        f1 = cstl_string_find_ch(&s, c, 0);
        CK(cmp0 == 0 && emp0 == (s0 == 0), "string.before-append", "compare with the reference before the append is %d", cmp0);
        CK(cstl_string_size(&s) == s0 + 3 && cstl_wstring_size(&w) == w0 + 2 && strcmp(p1, ref) == 0 && cstl_string_compare_str(&s, ref) == 0
           && *cstl_string_at(&s, s0 + 2) == c && p1[s0 + 3] == 0 && *cstl_wstring_at(&w, w0 + 1) == (wchar_t)(0x100 + i) && cstl_wstring_str(&w)[w0 + 2] == 0,
           "string.after-append", "size/str/at/compare right after an append are stale");
        CK(f0 == e0 && f1 == (ssize_t)(strchr(ref, c) - ref), "string.find-after-append", "find_ch before/after the append: %zd / %zd, expected %zd / %zd", f0, f1, e0, (ssize_t)(strchr(ref, c) - ref));
        if (i % 5 == 4) {
            VRT_OP0("string.erase", "pos 1 count 2");
            cstl_string_erase(&s, 1, 2); memmove(ref + 1, ref + 3, strlen(ref + 3) + 1);
            CK(cstl_string_size(&s) == strlen(ref) && strcmp(cstl_string_str(&s), ref) == 0, "string.after-erase", "size/str right after an erase are stale");
            /* keep find positions predictable: put the two characters back */
            cstl_string_insert_ch(&s, 1, 2, ref[0]); memmove(ref + 3, ref + 1, strlen(ref + 1) + 1); ref[1] = ref[2] = ref[0];
            CK(strcmp(cstl_string_str(&s), ref) == 0, "string.after-insert", "str right after an insert is stale");
        }
        VRT_COUNT("reread.rounds");
    }
    cstl_string_clear(&s); cstl_wstring_clear(&w);
    CK(cstl_string_size(&s) == 0 && cstl_string_str(&s)[0] == 0 && cstl_wstring_size(&w) == 0, "string.after-clear", "size/str after clear are stale");
}

/* ---- lists ---- */
static int lv_last, lv_count, lv_bad;
static int order_visit(void *e, void *p)
{
    const int k = KEY((struct el *)e);
    (void)p;
    if (k < lv_last) lv_bad++;
    lv_last = k; lv_count++;
    return 0;
}
static __attribute__((noinline)) void f_dlist(void)
{
    struct cstl_dlist l;
    int i;
    mk();
    cstl_dlist_init(&l, offsetof(struct el, dn));
    {
        VRT_OP0("dlist.sort", "three elements, keys 30 10 20 written just before each push_back");
        keytab[0] = 30; cstl_dlist_push_back(&l, E[0]);
        keytab[1] = 10; cstl_dlist_push_back(&l, E[1]);
        keytab[2] = 20; cstl_dlist_push_back(&l, E[2]);
        cstl_dlist_sort(&l, cmp_el, NULL);
        CK(cstl_dlist_front(&l) == E[1] && cstl_dlist_back(&l) == E[0], "dlist.indirect-keys", "after sort front/back are not the elements whose keys were written as 10 and 30");
        /* a list does not depend on the keys: the owner re-prioritises an element and sorts again, the store directly in front of the sort */
        keytab[0] = 5; cstl_dlist_sort(&l, cmp_el, NULL); keytab[1] = 10;     /* the neighbouring entry is (re)written right after the call */
        CK(cstl_dlist_front(&l) == E[0] && cstl_dlist_back(&l) == E[2], "dlist.indirect-keys.resort", "after the second sort front/back are not the elements with keys 5 and 20");
        CK(cstl_dlist_pop_front(&l) == E[0] && cstl_dlist_pop_front(&l) == E[1] && cstl_dlist_pop_front(&l) == E[2], "dlist.indirect-keys.order", "sorted order is not 5 10 20");
        keytab[0] = -1000; keytab[1] = -1001; keytab[2] = -1002;
    }
    for (i = 0; i < N; i++) {
        const size_t s0 = cstl_dlist_size(&l);
        void *f0 = cstl_dlist_front(&l), *b0 = cstl_dlist_back(&l), *f1, *b1;
        VRT_OP1("dlist.push", "%ld", i);
        keytab[i] = (i * 29) % N;      /* the store sits directly in front of the library call */
        if (i & 1) cstl_dlist_push_front(&l, E[i]); else cstl_dlist_push_back(&l, E[i]);
        f1 = cstl_dlist_front(&l); b1 = cstl_dlist_back(&l);
        CK(cstl_dlist_size(&l) == s0 + 1 && (i == 0 ? (f0 == NULL && b0 == NULL && f1 == E[0] && b1 == E[0]) : (i & 1) ? (f1 == E[i] && b1 == b0) : (b1 == E[i] && f1 == f0)),
           "dlist.after-push", "size/front/back right after a push are stale");
        VRT_COUNT("reread.rounds");
    }
    {
        /* sort by keys the caller wrote into its own table, then walk with a visitor that counts into file-scope state */
        VRT_OP0("dlist.sort", "");
        cstl_dlist_sort(&l, cmp_el, NULL);
        lv_last = -1; lv_count = 0; lv_bad = 0;
        CK(cstl_dlist_foreach(&l, order_visit, NULL, CSTL_DLIST_FOREACH_DIR_FWD) == 0 && lv_count == N && lv_bad == 0, "dlist.sort-foreach", "after sort the visitor saw %d elements, %d out of order", lv_count, lv_bad);
        CK(KEY((struct el *)cstl_dlist_front(&l)) == 0 && KEY((struct el *)cstl_dlist_back(&l)) == N - 1, "dlist.sort-front-back", "front/back after sort are not the least/greatest element");
    }
    for (i = 0; i < N; i++) {
        void *f0 = cstl_dlist_front(&l), *b0 = cstl_dlist_back(&l), *p;
        VRT_OP1("dlist.pop", "%ld", i);
        p = (i & 1) ? cstl_dlist_pop_front(&l) : cstl_dlist_pop_back(&l);
        CK(p == ((i & 1) ? f0 : b0) && cstl_dlist_size(&l) == (size_t)(N - 1 - i) && (i == N - 1 ? (cstl_dlist_front(&l) == NULL && cstl_dlist_back(&l) == NULL)
           : ((i & 1) ? (cstl_dlist_front(&l) != f0 && cstl_dlist_back(&l) == b0) : (cstl_dlist_back(&l) != b0 && cstl_dlist_front(&l) == f0))),
           "dlist.after-pop", "size/front/back right after a pop are stale");
    }
    unmk();
}
static __attribute__((noinline)) void f_slist(void)
{
    struct cstl_slist l;
    int i;
    mk();
    cstl_slist_init(&l, offsetof(struct el, sn));
    {
        VRT_OP0("slist.sort", "three elements, keys 30 10 20 written just before each push_back");
        keytab[0] = 30; cstl_slist_push_back(&l, E[0]);
        keytab[1] = 10; cstl_slist_push_back(&l, E[1]);
        keytab[2] = 20; cstl_slist_push_back(&l, E[2]);
        cstl_slist_sort(&l, cmp_el, NULL);
        CK(cstl_slist_front(&l) == E[1] && cstl_slist_back(&l) == E[0], "slist.indirect-keys", "after sort front/back are not the elements whose keys were written as 10 and 30");
        /* a list does not depend on the keys: the owner re-prioritises an element and sorts again, the store directly in front of the sort */
        keytab[0] = 5; cstl_slist_sort(&l, cmp_el, NULL); keytab[1] = 10;     /* the neighbouring entry is (re)written right after the call */
        CK(cstl_slist_front(&l) == E[0] && cstl_slist_back(&l) == E[2], "slist.indirect-keys.resort", "after the second sort front/back are not the elements with keys 5 and 20");
        CK(cstl_slist_pop_front(&l) == E[0] && cstl_slist_pop_front(&l) == E[1] && cstl_slist_pop_front(&l) == E[2], "slist.indirect-keys.order", "sorted order is not 5 10 20");
        keytab[0] = -1000; keytab[1] = -1001; keytab[2] = -1002;
    }
    for (i = 0; i < N; i++) {
        const size_t s0 = cstl_slist_size(&l);
        void *f0 = cstl_slist_front(&l), *b0 = cstl_slist_back(&l), *f1, *b1;
        VRT_OP1("slist.push", "%ld", i);
        keytab[i] = (i * 29) % N;      /* the store sits directly in front of the library call */
        if (i & 1) cstl_slist_push_front(&l, E[i]); else cstl_slist_push_back(&l, E[i]);
        f1 = cstl_slist_front(&l); b1 = cstl_slist_back(&l);
        CK(cstl_slist_size(&l) == s0 + 1 && (i == 0 ? (f0 == NULL && b0 == NULL && f1 == E[0] && b1 == E[0]) : (i & 1) ? (f1 == E[i] && b1 == b0) : (b1 == E[i] && f1 == f0)),
           "slist.after-push", "size/front/back right after a push are stale");
        VRT_COUNT("reread.rounds");
    }
    {
        /* sort by keys the caller wrote into its own table, then walk with a visitor that counts into file-scope state */
        VRT_OP0("slist.sort", "");
        cstl_slist_sort(&l, cmp_el, NULL);
        lv_last = -1; lv_count = 0; lv_bad = 0;
        CK(cstl_slist_foreach(&l, order_visit, NULL) == 0 && lv_count == N && lv_bad == 0, "slist.sort-foreach", "after sort the visitor saw %d elements, %d out of order", lv_count, lv_bad);
        CK(KEY((struct el *)cstl_slist_front(&l)) == 0 && KEY((struct el *)cstl_slist_back(&l)) == N - 1, "slist.sort-front-back", "front/back after sort are not the least/greatest element");
    }
    for (i = 0; i < N; i++) {
        void *f0 = cstl_slist_front(&l), *b0 = cstl_slist_back(&l), *p;
        VRT_OP1("slist.pop_front", "%ld", i);
        p = cstl_slist_pop_front(&l);
        CK(p == f0 && cstl_slist_size(&l) == (size_t)(N - 1 - i) && (i == N - 1 ? (cstl_slist_front(&l) == NULL && cstl_slist_back(&l) == NULL) : (cstl_slist_front(&l) != f0 && cstl_slist_back(&l) == b0)),
           "slist.after-pop", "size/front/back right after a pop are stale");
    }
    CK(cstl_slist_pop_front(&l) == NULL && cstl_slist_size(&l) == 0, "slist.pop-empty", "pop_front on the emptied list");
    unmk();
}

/* ---- arrays ---- */
static __attribute__((noinline)) void f_array(void)
{
    cstl_array_t a, s;
    size_t n;
    cstl_array_init(&a); cstl_array_init(&s);
    for (n = 4; n <= 2000; n = n * 3 + 1) {
        const size_t s0 = cstl_array_size(&a);
        const void *d0 = cstl_array_data_const(&a);
        char *d1;
        VRT_OP1("array.alloc", "%ld x 4", (long)n);
        cstl_array_alloc(&a, n, 4);
        d1 = cstl_array_data(&a);
        CK(cstl_array_size(&a) == n && s0 != n && d1 != NULL && (s0 == 0) == (d0 == NULL) && cstl_array_at(&a, n - 1) == d1 + (n - 1) * 4,
           "array.after-alloc", "size/data/at right after an alloc are stale");
        VRT_OP0("array.slice", "[1, n-1)");
        cstl_array_slice(&a, 1, n - 1, &s);
        /* data() is documented as the UNDERLYING array, also for a view */
        CK(cstl_array_size(&s) == n - 2 && cstl_array_data(&s) == d1 && cstl_array_at_const(&s, 0) == d1 + 4 && cstl_array_at_const(&s, n - 3) == d1 + (n - 2) * 4, "array.after-slice", "size/data/at of the slice are stale");
        cstl_array_slice(&s, 1, 2, &s);
        CK(cstl_array_size(&s) == 1 && cstl_array_at(&s, 0) == d1 + 8, "array.after-slice-in-place", "size/data right after slicing in place are stale");
        CK(VRT_ABORTS((void)cstl_array_at(&s, 1)), "array.at-size-no-abort", "at(size) of the re-sliced view returned");
        cstl_array_unslice(&s, &s);
        CK(cstl_array_size(&s) == n && cstl_array_data(&s) == d1, "array.after-unslice", "size/data right after unslice are stale");
        cstl_array_reset(&s);
        CK(cstl_array_size(&s) == 0 && cstl_array_data(&s) == NULL, "array.after-reset", "size/data right after reset are stale");
        VRT_COUNT("reread.rounds");
    }
    cstl_array_reset(&a);
    CK(cstl_array_size(&a) == 0 && cstl_array_data_const(&a) == NULL && vrt_lib_live() == 0, "array.after-reset", "size/data after the final reset are stale");
}

/* ---- smart pointers ---- */
static int cleared;
static void clr(void *m, void *p) { (void)m; (void)p; cleared++; }
static __attribute__((noinline)) void f_memory(void)
{
    cstl_shared_ptr_t a, b;
    cstl_weak_ptr_t w;
    cstl_unique_ptr_t u, u2;
    int i;
    cstl_shared_ptr_init(&a); cstl_shared_ptr_init(&b); cstl_weak_ptr_init(&w); cstl_unique_ptr_init(&u); cstl_unique_ptr_init(&u2);
    for (i = 0; i < 24; i++) {
        void *g0 = cstl_shared_ptr_get(&a), *g1, *ub;
        const int c0 = cleared;
        VRT_OP1("shared_ptr.alloc", "round %ld", i);
        cstl_shared_ptr_alloc(&a, 16 + (size_t)i, clr);
        g1 = cstl_shared_ptr_get(&a);
        CK(g0 == NULL && g1 != NULL && cstl_shared_ptr_unique(&a), "memory.after-alloc", "get/unique right after an alloc are stale");
        cstl_shared_ptr_share(&a, &b);
        CK(!cstl_shared_ptr_unique(&a) && cstl_shared_ptr_get(&b) == g1 && cstl_shared_ptr_get_const(&a) == g1, "memory.after-share", "get/unique right after a share are stale");
        cstl_weak_ptr_from(&w, &a);
        cstl_shared_ptr_reset(&b);
        CK(cstl_shared_ptr_get(&b) == NULL && !cstl_shared_ptr_unique(&a) && cleared == c0, "memory.after-reset-of-co-owner", "get/unique right after resetting the co-owner are stale");
        cstl_weak_ptr_lock(&w, &b);
        CK(cstl_shared_ptr_get(&b) == g1, "memory.after-lock", "get right after a lock is stale");
        cstl_weak_ptr_reset(&w); cstl_shared_ptr_reset(&b);
        CK(cstl_shared_ptr_unique(&a) && cstl_shared_ptr_get(&a) == g1, "memory.after-weak-reset", "unique right after the last other reference went is stale");
        {
            const int c1 = cleared;         /* read directly in front of the call ... */
            cstl_shared_ptr_reset(&a);
            CK(cleared == c1 + 1, "memory.clear-callback-count", "the caller's counter went from %d to %d across the reset of the last owner", c1, cleared);   /* ... and directly behind it */
        }
        CK(cstl_shared_ptr_get(&a) == NULL && cleared == c0 + 1, "memory.after-last-reset", "get right after the last reset is stale, or the callback did not run exactly once");
        /* unique pointers */
        cstl_unique_ptr_alloc(&u, 8 + (size_t)i, NULL, NULL);
        ub = cstl_unique_ptr_get(&u);
        cstl_unique_ptr_swap(&u, &u2);
        CK(ub != NULL && cstl_unique_ptr_get(&u) == NULL && cstl_unique_ptr_get(&u2) == ub, "memory.unique.after-swap", "get right after a swap is stale");
        cstl_unique_ptr_reset(&u2);
        CK(cstl_unique_ptr_get_const(&u2) == NULL && vrt_lib_live() == 0, "memory.unique.after-reset", "get right after a reset is stale");
        VRT_COUNT("reread.rounds");
    }
}

static const struct { const char *name; void (*f)(void); } fam[] = {
    { "trees", f_trees }, { "heap", f_heap }, { "hash", f_hash }, { "map", f_map }, { "vector", f_vector }, { "string", f_string },
    { "dlist", f_dlist }, { "slist", f_slist }, { "array", f_array }, { "memory", f_memory },
};
#define NFAM ((int)(sizeof(fam) / sizeof(fam[0])))
static uint64_t ncases(void) { return 1; }
static void run_case(uint64_t idx)
{
    int k;
    (void)idx;
    for (k = 0; k < NFAM; k++) if (strcmp(vrt_mode, fam[k].name) == 0 || strcmp(vrt_mode, "all") == 0 || vrt_mode[0] == 0) {
        vrt_case_note("look - change - look again in one optimised caller function: %s", fam[k].name);
        vrt_state(fam[k].name);
        fam[k].f();
        vrt_sig(0, vrt_mix(0x4e4e, (uint64_t)k));
        VRT_COUNT("reread.families");
    }
}
static void winit(void) { vrt_sig_name(0, "families"); }
static const char *const required[] = { "reread.families", "reread.rounds", NULL };
static const struct vrt_harness H = { "reread", ncases, run_case, winit, NULL, required, 1 };
int main(int argc, char **argv) { return vrt_main(argc, argv, &H); }
