/*
 * C05 -- shared memory is destroyed exactly once, exactly when its last owner
 * lets go (single-threaded histories over shared/weak/unique pointer objects).
 *
 * Oracle: an ownership model predicts, for every call, the exact sequence of
 * clear-callback and allocator events ({clr(mem), free(mem)} iff the call
 * empties the owner set, free(book) iff it empties owners+weaks, nothing
 * else); observed != predicted is a violation at the call where it happens.
 */
#include "vrt.h"
#include "explore.h"
#include "cstl/memory.h"
#include <string.h>
#include <stdio.h>

#define NS 3
#define NW 3
#define NU 2
#define MAXA 64                 /* allocation records per case (ids recycled never) */
#define MEMMAGIC 0x600dfeedu
#define CLRMAGIC 0xdeadc1eau

struct arec {
    void *mem, *book;
    size_t size;
    int owners, weaks;
    int cleared, mem_freed, book_freed;
    int unique_kind;            /* 1: owned by a unique pointer (no book) */
    int noclr;                  /* allocated without a clear callback: only the free is expected */
    int selfweak;               /* the managed memory embeds a weak pointer to itself, reset by its clear callback */
};
static struct arec A[MAXA];
static int nA;

static cstl_shared_ptr_t S[NS];
static cstl_weak_ptr_t W[NW];
static cstl_unique_ptr_t U[NU];
static int Sa[NS], Wa[NW], Ua[NU];      /* model: allocation index or -1 */
static int ns, nw, nu;
static int use_macro;
static uintptr_t upriv[NU];             /* priv cookie stored with each unique allocation */

/* merged event log of one call: clear callbacks and allocator frees, in order */
struct mev { char kind; void *p; };     /* 'c' clear, 'f' free, 'm' malloc */
static struct mev obs[32];
static int nobs;
static int clr_bad;

static void on_clear_common(void *mem, void *priv, void *want_priv)
{
    uint32_t *w = mem;
    if (priv != want_priv) clr_bad = 1;
    if (mem == NULL) { clr_bad = 2; return; }
    if (w[0] != MEMMAGIC) clr_bad = 3;          /* second clear, or not a managed block */
    w[0] = CLRMAGIC;
    if (nobs < 32) { obs[nobs].kind = 'c'; obs[nobs].p = mem; }
    nobs++;
}
static int ev_consumed;
static void sync_alloc_events(void)
{
    int n = vrt_ev_n();
    for (; ev_consumed < n && ev_consumed < VRT_EV_MAX; ev_consumed++) {
        const struct vrt_aev *e = vrt_ev(ev_consumed);
        if (nobs < 32) {
            if (e->kind == 'f') { if (e->p == NULL) continue; obs[nobs].kind = 'f'; obs[nobs].p = e->p; }
            else { obs[nobs].kind = 'm'; obs[nobs].p = e->kind == 'r' ? e->q : e->p; }
        }
        nobs++;
    }
}
static void shared_clr(void *mem, void *priv) { sync_alloc_events(); on_clear_common(mem, priv, NULL); VRT_COUNT("event.clear.shared"); }
#define EW(mem) ((cstl_weak_ptr_t *)((char *)(mem) + 8))
/* re-entrant use the library supports: the dying object drops the weak reference it holds on itself */
static void shared_clr_selfweak(void *mem, void *priv)
{
    sync_alloc_events(); on_clear_common(mem, priv, NULL);
    cstl_weak_ptr_reset(EW(mem));
    VRT_COUNT("event.clear.shared"); VRT_COUNT("event.clear.reentrant-weak-reset");
}
static int *clear_hook_count;
static void big_clr(void *mem, void *priv)
{
    (void)priv;
    if (clear_hook_count) ++*clear_hook_count;
    *(uint32_t *)mem = CLRMAGIC;
}
static void unique_clr(void *mem, void *priv)
{
    sync_alloc_events();
    on_clear_common(mem, priv, priv);   /* priv is checked against the model by the caller */
    VRT_COUNT("event.clear.unique");
}
static void *last_unique_priv;
static void unique_clr2(void *mem, void *priv) { last_unique_priv = priv; unique_clr(mem, priv); }
static void unique_release_sentinel(void *mem, void *priv) { (void)mem; (void)priv; }      /* never called: marks "out-parameter not written" */

static void call_begin(void) { vrt_ev_begin(); ev_consumed = 0; nobs = 0; clr_bad = 0; }

/* predicted event list */
static struct mev want[32];
static int nwant;
static void want_add(char k, void *p) { want[nwant].kind = k; want[nwant].p = p; nwant++; }

static void call_end(const char *entry)
{
    int i;
    char key[128];
    sync_alloc_events();
    VRT_CHECK(clr_bad != 1, "memory.clear.wrong-priv", "%s: clear callback received an unexpected priv", entry);
    VRT_CHECK(clr_bad != 2, "memory.clear.null", "%s: clear callback invoked with NULL", entry);
    if (clr_bad == 3) {
        snprintf(key, sizeof(key), "memory.clear.twice-or-foreign.%s", entry);
        vrt_fail(key, "%s: clear callback ran for memory that was already cleared or is not a managed block", entry);
    }
    /* mallocs are checked by the caller (alloc ops); compare the destruction events */
    {
        struct mev got[32];
        int ng = 0, nm = 0;
        for (i = 0; i < nobs && i < 32; i++) {
            if (obs[i].kind == 'm') { nm++; continue; }
            got[ng++] = obs[i];
        }
        (void)nm;
        if (ng != nwant) {
            snprintf(key, sizeof(key), "memory.events.%s.%s", ng > nwant ? "unexpected-destruction" : "missing-destruction", entry);
            vrt_fail(key, "%s: observed %d clear/free events, the ownership model predicts %d (first observed: %c %p)",
                     entry, ng, nwant, ng ? got[0].kind : '-', ng ? got[0].p : NULL);
        }
        for (i = 0; i < ng; i++) {
            if (got[i].kind != want[i].kind || got[i].p != want[i].p) {
                snprintf(key, sizeof(key), "memory.events.wrong-order-or-block.%s", entry);
                vrt_fail(key, "%s: event %d is %c(%p), predicted %c(%p)", entry, i, got[i].kind, got[i].p, want[i].kind, want[i].p);
            }
        }
    }
    for (i = 0; i < nwant; i++) if (want[i].kind == 'f') VRT_COUNT("event.free");
}

/* model: drop one owner / one weak reference of allocation a, predicting events */
static void model_drop_owner(int a)
{
    if (a < 0) return;
    A[a].owners--;
    if (A[a].owners == 0) {
        if (!A[a].noclr) want_add('c', A[a].mem);
        if (A[a].selfweak) A[a].weaks--;        /* dropped inside the clear callback, before the memory goes */
        want_add('f', A[a].mem);
        A[a].cleared = 1; A[a].mem_freed = 1;
        VRT_COUNT("model.last-owner-released");
    }
    if (A[a].owners + A[a].weaks == 0) { want_add('f', A[a].book); A[a].book_freed = 1; VRT_COUNT("model.bookkeeping-released"); }
}
static void model_drop_weak(int a)
{
    if (a < 0) return;
    A[a].weaks--;
    if (A[a].owners + A[a].weaks == 0) { want_add('f', A[a].book); A[a].book_freed = 1; VRT_COUNT("model.bookkeeping-released"); }
}

/* ---- audits ---- */
static void audit(void)
{
    int i;
    for (i = 0; i < ns; i++) {
        void *g = cstl_shared_ptr_get(&S[i]);
        bool u = cstl_shared_ptr_unique(&S[i]);
        if (Sa[i] < 0) {
            VRT_CHECK(g == NULL, "memory.get.empty-not-null", "shared %d is empty in the model but get() = %p", i, g);
            VRT_CHECK(u, "memory.unique.empty", "unique() false on an empty shared pointer");
        } else {
            const struct arec *a = &A[Sa[i]];
            VRT_CHECK(g == a->mem, "memory.get.co-owners-differ", "shared %d: get() = %p, allocation is %p", i, g, a->mem);
            VRT_CHECK(*(uint32_t *)g == MEMMAGIC, "memory.owner-sees-cleared-memory", "shared %d owns memory whose clear callback already ran", i);
            VRT_CHECK(u == (a->owners + a->weaks == 1), "memory.unique.wrong",
                      "shared %d: unique() = %d with %d owners and %d weak references", i, (int)u, a->owners, a->weaks);
        }
    }
    for (i = 0; i < nu; i++) {
        void *g = cstl_unique_ptr_get(&U[i]);
        if (Ua[i] < 0) VRT_CHECK(g == NULL, "memory.unique_ptr.get.empty-not-null", "unique %d empty in the model, get() = %p", i, g);
        else {
            VRT_CHECK(g == A[Ua[i]].mem, "memory.unique_ptr.get", "unique %d: get() = %p, allocation is %p", i, g, A[Ua[i]].mem);
            VRT_CHECK(*(uint32_t *)g == MEMMAGIC, "memory.unique_ptr.owner-sees-cleared-memory", "unique %d owns cleared memory", i);
        }
    }
    /* live library blocks = mem + book of live allocations */
    {
        size_t expect = 0;
        for (i = 0; i < nA; i++) expect += (!A[i].mem_freed) + (!A[i].unique_kind && !A[i].book_freed);
        VRT_CHECK(vrt_lib_live() == expect, "memory.live-blocks", "library holds %zu live blocks, the model %zu", vrt_lib_live(), expect);
    }
    VRT_COUNT("audit");
}

/* ---- ops ---- */
enum {
    K_SALLOC = 1, K_SHARE, K_SSWAP, K_SRESET, K_WFROM, K_WLOCK, K_WSWAP, K_WRESET,
    K_UALLOC, K_URELEASE, K_USWAP, K_URESET, K_NK
};
#define OP(k, a, b, c) ((uint32_t)(k) | (uint32_t)(a) << 8 | (uint32_t)(b) << 12 | (uint32_t)(c) << 16)
#define OP_K(o) ((o) & 0xff)
#define OP_A(o) (((o) >> 8) & 15)
#define OP_B(o) (((o) >> 12) & 15)
#define OP_C(o) ((o) >> 16)

static const char *ownclass(int a)
{
    if (a < 0) return "empty";
    if (A[a].owners == 0) return "dead";
    return A[a].owners == 1 ? (A[a].weaks ? "last-owner+weak" : "last-owner") : "co-owned";
}

static int new_alloc_record(void)
{
    if (nA >= MAXA) vrt_fail("harness.memory.too-many-allocations", "case needs more than %d allocation records", MAXA);
    memset(&A[nA], 0, sizeof(A[nA]));
    return nA++;
}

static int st_apply(uint32_t op, int do_audit)
{
    const int k = OP_K(op), a = OP_A(op), b = OP_B(op);
    const size_t size = OP_C(op);
    int x, i;

    nwant = 0;
    switch (k) {
    case K_SALLOC: {
        if (a >= ns) return 0;
        vrt_state(ownclass(Sa[a]));
        VRT_OP2("shared_ptr.alloc", "S%ld size=%ld", a, size);
        model_drop_owner(Sa[a]); Sa[a] = -1;
        call_begin();
        cstl_shared_ptr_alloc(&S[a], size, (size & 1) ? NULL : (size % 4 == 2) ? shared_clr_selfweak : shared_clr);     /* odd sizes: no clear callback */
        call_end("shared_ptr.alloc");
        if (size > 0) {
            void *mem = cstl_shared_ptr_get(&S[a]), *book = NULL;
            int nm = 0;
            VRT_CHECK(mem != NULL, "memory.alloc.failed-without-fault", "shared alloc(%zu) left the pointer empty", size);
            for (i = 0; i < vrt_ev_n() && i < VRT_EV_MAX; i++) {
                const struct vrt_aev *e = vrt_ev(i);
                if (e->kind == 'm' && !e->failed) { nm++; if (e->p != mem) book = e->p; }
            }
            VRT_CHECK(nm == 2 && book != NULL, "memory.alloc.block-count", "shared alloc made %d allocations, expected managed block + bookkeeping block", nm);
            x = new_alloc_record();
            A[x].mem = mem; A[x].book = book; A[x].size = size; A[x].owners = 1; A[x].noclr = size & 1;
            *(uint32_t *)mem = MEMMAGIC;
            Sa[a] = x;
            VRT_COUNT("op.shared.alloc");
            if (size & 1) VRT_COUNT("op.shared.alloc.without-clear-callback");
            if (size % 4 == 2) {
                /* the object takes a weak reference to itself (observer / weak-self pattern) */
                cstl_weak_ptr_init(EW(mem));
                call_begin();
                cstl_weak_ptr_from(EW(mem), &S[a]);
                nwant = 0;
                call_end("weak_ptr.from");
                A[x].selfweak = 1; A[x].weaks++;
                VRT_COUNT("op.shared.alloc.self-weak");
            }
        } else {
            VRT_CHECK(cstl_shared_ptr_get(&S[a]) == NULL, "memory.alloc.zero-size-not-empty", "alloc(0) left a non-empty pointer");
            VRT_COUNT("op.shared.alloc.zero-size");
        }
        break;
    }
    case K_SHARE:
        if (a >= ns || b >= ns || a == b) return 0;
        vrt_state(ownclass(Sa[b]));
        VRT_OP2("shared_ptr.share", "S%ld -> S%ld", a, b);
        if (Sa[b] >= 0 && Sa[b] == Sa[a]) VRT_COUNT("op.share.into-co-owner-of-same");
        if (Sa[b] >= 0 && Sa[b] != Sa[a]) VRT_COUNT("op.share.into-owner-of-other");
        model_drop_owner(Sa[b]);
        Sa[b] = Sa[a];
        if (Sa[b] >= 0) A[Sa[b]].owners++;
        /* sharing into the last owner of the same allocation would destroy it first:
         * the documented "destination is reset first" semantics; the model follows it */
        call_begin();
        cstl_shared_ptr_share(&S[a], &S[b]);
        call_end("shared_ptr.share");
        VRT_COUNT("op.share");
        break;
    case K_SSWAP:
        if (a >= ns || b >= ns || a >= b) return 0;
        VRT_OP2("shared_ptr.swap", "S%ld <-> S%ld", a, b);
        if (Sa[a] >= 0 && Sa[b] >= 0 && Sa[a] != Sa[b]) VRT_COUNT("op.swap.owners-of-different-allocations");
        call_begin();
        cstl_shared_ptr_swap(&S[a], &S[b]);
        call_end("shared_ptr.swap");
        x = Sa[a]; Sa[a] = Sa[b]; Sa[b] = x;
        VRT_COUNT("op.shared.swap");
        break;
    case K_SRESET:
        if (a >= ns) return 0;
        vrt_state(ownclass(Sa[a]));
        VRT_OP1("shared_ptr.reset", "S%ld", a);
        model_drop_owner(Sa[a]); Sa[a] = -1;
        call_begin();
        cstl_shared_ptr_reset(&S[a]);
        call_end("shared_ptr.reset");
        VRT_COUNT("op.shared.reset");
        break;
    case K_WFROM:
        if (a >= nw || b >= ns) return 0;
        vrt_state(ownclass(Wa[a]));
        VRT_OP2("weak_ptr.from", "W%ld <- S%ld", a, b);
        model_drop_weak(Wa[a]);
        Wa[a] = Sa[b];
        if (Wa[a] >= 0) A[Wa[a]].weaks++;
        call_begin();
        cstl_weak_ptr_from(&W[a], &S[b]);
        call_end("weak_ptr.from");
        VRT_COUNT("op.weak.from");
        break;
    case K_WLOCK: {
        int tgt;
        if (a >= nw || b >= ns) return 0;
        vrt_state(ownclass(Wa[a]));
        VRT_OP2("weak_ptr.lock", "W%ld -> S%ld", a, b);
        tgt = Wa[a];
        if (tgt >= 0 && Sa[b] == tgt && A[tgt].owners == 1) VRT_COUNT("op.lock.into-last-owner-of-same");
        model_drop_owner(Sa[b]); Sa[b] = -1;
        /* lock yields an owner iff an owner still exists (after the destination was reset) */
        if (tgt >= 0 && A[tgt].owners > 0) { Sa[b] = tgt; A[tgt].owners++; VRT_COUNT("op.lock.yields-owner"); }
        else if (tgt >= 0) VRT_COUNT("op.lock.dead-yields-empty");
        else VRT_COUNT("op.lock.empty-weak");
        call_begin();
        cstl_weak_ptr_lock(&W[a], &S[b]);
        call_end("weak_ptr.lock");
        if (Sa[b] < 0)
            VRT_CHECK(cstl_shared_ptr_get(&S[b]) == NULL, "memory.lock.owner-from-dead", "lock produced an owner although no owner exists");
        else
            VRT_CHECK(cstl_shared_ptr_get(&S[b]) == A[tgt].mem, "memory.lock.empty-from-live", "lock did not produce an owner although one exists");
        break;
    }
    case K_WSWAP:
        if (a >= nw || b >= nw || a >= b) return 0;
        VRT_OP2("weak_ptr.swap", "W%ld <-> W%ld", a, b);
        call_begin();
        cstl_weak_ptr_swap(&W[a], &W[b]);
        call_end("weak_ptr.swap");
        x = Wa[a]; Wa[a] = Wa[b]; Wa[b] = x;
        VRT_COUNT("op.weak.swap");
        break;
    case K_WRESET:
        if (a >= nw) return 0;
        vrt_state(ownclass(Wa[a]));
        VRT_OP1("weak_ptr.reset", "W%ld", a);
        if (Wa[a] >= 0 && A[Wa[a]].owners == 0 && A[Wa[a]].weaks == 1) VRT_COUNT("op.weak.reset.last-reference-after-owners");
        model_drop_weak(Wa[a]); Wa[a] = -1;
        call_begin();
        cstl_weak_ptr_reset(&W[a]);
        call_end("weak_ptr.reset");
        VRT_COUNT("op.weak.reset");
        break;
    case K_UALLOC:
        if (a >= nu) return 0;
        vrt_state(Ua[a] < 0 ? "empty" : "owning");
        VRT_OP2("unique_ptr.alloc", "U%ld size=%ld", a, size);
        x = Ua[a];
        if (Ua[a] >= 0) { if (!A[Ua[a]].noclr) want_add('c', A[Ua[a]].mem); want_add('f', A[Ua[a]].mem); A[Ua[a]].cleared = A[Ua[a]].mem_freed = 1; Ua[a] = -1; }
        call_begin();
        upriv[a] += 16;
        last_unique_priv = NULL;
        cstl_unique_ptr_alloc(&U[a], size, (size & 1) ? NULL : unique_clr2, (void *)(upriv[a] + a));
        call_end("unique_ptr.alloc");
        if (x >= 0 && !A[x].noclr) VRT_CHECK(last_unique_priv == A[x].book, "memory.unique_ptr.alloc.priv", "re-allocating a unique pointer cleared the old block with a wrong priv");
        if (size > 0) {
            void *mem = cstl_unique_ptr_get(&U[a]);
            VRT_CHECK(mem != NULL, "memory.unique_ptr.alloc.failed-without-fault", "unique alloc(%zu) left the pointer empty", size);
            x = new_alloc_record();
            A[x].mem = mem; A[x].size = size; A[x].owners = 1; A[x].unique_kind = 1; A[x].book_freed = 1; A[x].noclr = size & 1;
            A[x].book = (void *)(upriv[a] + a);
            *(uint32_t *)mem = MEMMAGIC;
            Ua[a] = x;
        } else {
            VRT_CHECK(cstl_unique_ptr_get(&U[a]) == NULL, "memory.unique_ptr.alloc.zero-size-not-empty", "unique alloc(0) non-empty");
        }
        VRT_COUNT("op.unique.alloc");
        break;
    case K_URELEASE: {
        /* b: bit 0 = the clear function is asked for, bit 1 = its priv is asked for (each out-parameter is optional
         * on its own); both are pre-set to a sentinel so that "not written" shows */
        static int sentinel;
        cstl_xtor_func_t *clr = unique_release_sentinel;
        void *priv = &sentinel, *p;
        if (a >= nu) return 0;
        vrt_state(Ua[a] < 0 ? "empty" : "owning");
        VRT_OP2("unique_ptr.release", "U%ld out-parameters=%ld (1 clr, 2 priv)", a, b);
        call_begin();
        p = cstl_unique_ptr_release(&U[a], (b & 1) ? &clr : NULL, (b & 2) ? &priv : NULL);
        call_end("unique_ptr.release");
        if (Ua[a] < 0) {
            VRT_CHECK(p == NULL, "memory.unique_ptr.release.empty-not-null", "release of an empty unique pointer returned %p", p);
        } else {
            VRT_CHECK(p == A[Ua[a]].mem, "memory.unique_ptr.release.wrong-pointer", "release returned %p, allocation is %p", p, A[Ua[a]].mem);
            if (b & 1) VRT_CHECK(clr == (A[Ua[a]].noclr ? NULL : unique_clr2), "memory.unique_ptr.release.clr-or-priv",
                                 "release reported a wrong clear function (out-parameters %d)", b);
            if (b & 2) VRT_CHECK(priv == A[Ua[a]].book, "memory.unique_ptr.release.clr-or-priv",
                                 "release reported a wrong priv, or none (out-parameters %d)", b);
            if (b == 1 || b == 2) VRT_COUNT("op.unique.release.one-out-parameter");
            VRT_CHECK(*(uint32_t *)p == MEMMAGIC, "memory.unique_ptr.release.cleared", "released memory was already cleared");
            /* the harness now owns the block and frees it */
            vrt_lib_free_block(p);
            A[Ua[a]].mem_freed = 1; Ua[a] = -1;
            VRT_COUNT("op.unique.release.owning");
        }
        VRT_CHECK(cstl_unique_ptr_get(&U[a]) == NULL, "memory.unique_ptr.release.not-empty", "unique pointer not empty after release");
        VRT_COUNT("op.unique.release");
        break;
    }
    case K_USWAP:
        if (nu < 2 || a != 0) return 0;
        VRT_OP0("unique_ptr.swap", "U0 <-> U1");
        call_begin();
        cstl_unique_ptr_swap(&U[0], &U[1]);
        call_end("unique_ptr.swap");
        x = Ua[0]; Ua[0] = Ua[1]; Ua[1] = x;
        VRT_COUNT("op.unique.swap");
        break;
    case K_URESET:
        if (a >= nu) return 0;
        vrt_state(Ua[a] < 0 ? "empty" : "owning");
        VRT_OP1("unique_ptr.reset", "U%ld", a);
        if (Ua[a] >= 0) { if (!A[Ua[a]].noclr) want_add('c', A[Ua[a]].mem); want_add('f', A[Ua[a]].mem); A[Ua[a]].cleared = A[Ua[a]].mem_freed = 1; }
        last_unique_priv = NULL;
        call_begin();
        cstl_unique_ptr_reset(&U[a]);
        call_end("unique_ptr.reset");
        if (Ua[a] >= 0) {
            if (!A[Ua[a]].noclr) VRT_CHECK(last_unique_priv == A[Ua[a]].book, "memory.unique_ptr.reset.priv", "clear callback of a unique pointer got a priv that belongs to another allocation");
            Ua[a] = -1;
        }
        VRT_COUNT("op.unique.reset");
        break;
    default:
        return 0;
    }
    if (do_audit) audit();
    return 1;
}

#define SCOPE(s, w, u) ((s) | (w) << 4 | (u) << 8)
static void st_create(int scope)
{
    int i;
    ns = scope & 15; nw = (scope >> 4) & 15; nu = (scope >> 8) & 15;
    nA = 0;
    memset(S, 0x77, sizeof(S)); memset(W, 0x77, sizeof(W)); memset(U, 0x77, sizeof(U));    /* recycled storage */
    /* both documented ways of making the objects: the init functions and the static initialiser macros */
    for (i = 0; i < ns; i++) {
        if (use_macro) S[i] = (cstl_shared_ptr_t)CSTL_SHARED_PTR_INITIALIZER(S[i]); else cstl_shared_ptr_init(&S[i]);
        Sa[i] = -1;
    }
    for (i = 0; i < nw; i++) {
        if (use_macro) W[i] = (cstl_weak_ptr_t)CSTL_WEAK_PTR_INITIALIZER(W[i]); else cstl_weak_ptr_init(&W[i]);
        Wa[i] = -1;
    }
    for (i = 0; i < nu; i++) {
        if (use_macro) U[i] = (cstl_unique_ptr_t)CSTL_UNIQUE_PTR_INITIALIZER(U[i]); else cstl_unique_ptr_init(&U[i]);
        Ua[i] = -1; upriv[i] = 0x1000 * (i + 1);
    }
    if (use_macro) VRT_COUNT("objects.made-with-initializer-macros");
}
static void st_destroy(void)
{
    /* "a history that resets every pointer leaks nothing" */
    int i;
    for (i = 0; i < ns; i++) st_apply(OP(K_SRESET, i, 0, 0), 0);
    for (i = 0; i < nw; i++) st_apply(OP(K_WRESET, i, 0, 0), 0);
    for (i = 0; i < nu; i++) st_apply(OP(K_URESET, i, 0, 0), 0);
    VRT_CHECK(vrt_lib_live() == 0, "memory.leak.after-resetting-everything", "%zu library blocks still live after every pointer was reset", vrt_lib_live());
    for (i = 0; i < nA; i++) {
        VRT_CHECK(A[i].mem_freed && A[i].book_freed, "memory.leak.allocation-record", "allocation %d not fully released in the model", i);
    }
}
static uint64_t st_sig(void)
{
    /* canonical relabelling of allocations by first appearance */
    int map[MAXA], next = 0, i;
    uint64_t h = 0x5eed + SCOPE(ns, nw, nu);
    for (i = 0; i < nA; i++) map[i] = -1;
    for (i = 0; i < ns; i++) {
        int a = Sa[i];
        if (a >= 0 && map[a] < 0) map[a] = next++;
        h = vrt_mix(h, a < 0 ? 0 : (1 + map[a]) * 4 + A[a].noclr + 2 * A[a].selfweak);
    }
    for (i = 0; i < nw; i++) {
        int a = Wa[i];
        if (a >= 0 && map[a] < 0) map[a] = next++;
        h = vrt_mix(h, a < 0 ? 0 : (1 + map[a]) * 4 + (A[a].owners > 0) + 2 * A[a].selfweak);
    }
    for (i = 0; i < nu; i++) h = vrt_mix(h, Ua[i] >= 0 ? 1 + A[Ua[i]].noclr : 0);
    return h;
}
static int st_nontrivial(void)
{
    int i, n = 0;
    for (i = 0; i < ns; i++) n += Sa[i] >= 0;
    for (i = 0; i < nw; i++) n += Wa[i] >= 0;
    return n >= 2;
}
static struct vex model = { st_create, st_destroy, st_apply, st_sig, st_nontrivial, 0, NULL };

static int build_alphabet(int s, int w, int u, uint32_t *al)
{
    int n = 0, i, j;
    for (i = 0; i < s; i++) {
        al[n++] = OP(K_SALLOC, i, 0, 24);
        al[n++] = OP(K_SALLOC, i, 0, 25);       /* odd size: no clear callback */
        al[n++] = OP(K_SALLOC, i, 0, 26);       /* size % 4 == 2: memory holds a weak pointer to itself */
        al[n++] = OP(K_SALLOC, i, 0, 0);
        al[n++] = OP(K_SRESET, i, 0, 0);
        for (j = 0; j < s; j++) if (i != j) al[n++] = OP(K_SHARE, i, j, 0);
        for (j = i + 1; j < s; j++) al[n++] = OP(K_SSWAP, i, j, 0);
    }
    for (i = 0; i < w; i++) {
        al[n++] = OP(K_WRESET, i, 0, 0);
        for (j = 0; j < s; j++) { al[n++] = OP(K_WFROM, i, j, 0); al[n++] = OP(K_WLOCK, i, j, 0); }
        for (j = i + 1; j < w; j++) al[n++] = OP(K_WSWAP, i, j, 0);
    }
    for (i = 0; i < u; i++) {
        al[n++] = OP(K_UALLOC, i, 0, 16);
        al[n++] = OP(K_UALLOC, i, 0, 17);       /* odd size: no clear callback */
        al[n++] = OP(K_UALLOC, i, 0, 0);
        al[n++] = OP(K_URELEASE, i, 3, 0);
        al[n++] = OP(K_URELEASE, i, 0, 0);
        al[n++] = OP(K_URELEASE, i, 1, 0);
        al[n++] = OP(K_URELEASE, i, 2, 0);
        al[n++] = OP(K_URESET, i, 0, 0);
    }
    if (u > 1) al[n++] = OP(K_USWAP, 0, 0, 0);
    return n;
}

struct cscope { int s, w, u, depth; };
static const struct cscope quick_scopes[] = {
    { 2, 1, 0, 7 }, { 2, 2, 0, 6 }, { 3, 1, 0, 6 }, { 3, 2, 0, 5 }, { 0, 0, 2, 8 }, { 2, 1, 1, 5 }, { 3, 3, 0, 5 },
};
static const struct cscope thorough_scopes[] = {
    { 2, 1, 0, 10 }, { 2, 2, 0, 9 }, { 3, 1, 0, 9 }, { 3, 2, 0, 8 }, { 0, 0, 2, 12 }, { 2, 1, 1, 8 }, { 3, 3, 0, 7 }, { 3, 3, 2, 6 },
};
static const struct cscope *scopes;
static int nscopes;

static void run_closure(int ci)
{
    const struct cscope *s = &scopes[ci];
    static uint32_t al[256];
    int n = build_alphabet(s->s, s->w, s->u, al);
    struct vex_result r;
    vrt_case_note("closure/bounded-exhaustive: %d shared, %d weak, %d unique pointer objects, alphabet %d, depth <= %d",
                  s->s, s->w, s->u, n, s->depth);
    /* every new allocation is a fresh record, so the signature abstracts allocation identity;
     * depth-capped: this is the bounded-exhaustive sequence generator over the owner-set closure */
    use_macro = ci & 1;
    vex_closure(&model, SCOPE(s->s, s->w, s->u), al, n, 3000000, s->depth, &r);
    VRT_COUNT_N("closure.states", r.states);
    VRT_COUNT_N("closure.transitions", r.transitions);
    VRT_MAX("max.closure.depth", r.maxdepth);
    if (r.closed) VRT_COUNT("closure.scopes-closed"); else VRT_COUNT("closure.scopes-depth-capped");
}

static void run_random(uint64_t idx)
{
    vrt_rng g;
    int i, nops = 40;
    uint32_t al[256];
    int n;
    vrt_rng_seed(&g, vrt_seed, 0xC05000 + idx);
    vrt_case_note("random history: 3 shared, 3 weak, 2 unique, %d ops", nops);
    use_macro = idx & 1;
    st_create(SCOPE(NS, NW, NU));
    n = build_alphabet(NS, NW, NU, al);
    for (i = 0; i < nops; i++) {
        uint32_t op = al[vrt_below(&g, n)];
        if (OP_K(op) == K_SALLOC && OP_C(op)) op = OP(K_SALLOC, OP_A(op), 0, 24 + vrt_below(&g, 200));      /* odd: no callback */
        st_apply(op, 1);
        if (nA >= MAXA - 2) break;
        vrt_sig(0, st_sig());
    }
    st_destroy();
    VRT_COUNT("random.histories");
}

/* one allocation with far more than 2^16 simultaneous owners: counters must not wrap */
#define NBIG 70000
static void run_big(uint64_t which)
{
    cstl_shared_ptr_t *X = vrt_alloc(sizeof(*X) * NBIG), first, probe;
    cstl_weak_ptr_t w;
    void *mem;
    int i, cleared = 0;
    vrt_case_note("big: one allocation shared by %d owners (%s)", NBIG, which ? "self-weak memory" : "plain");
    clear_hook_count = &cleared;
    cstl_shared_ptr_init(&first); cstl_shared_ptr_init(&probe); cstl_weak_ptr_init(&w);
    VRT_OP1("shared_ptr.alloc", "size 64 (big case %ld)", which);
    cstl_shared_ptr_alloc(&first, 64, big_clr);
    mem = cstl_shared_ptr_get(&first);
    VRT_CHECK(mem != NULL, "memory.big.alloc", "allocation failed");
    *(uint32_t *)mem = MEMMAGIC;
    cstl_weak_ptr_from(&w, &first);
    for (i = 0; i < NBIG; i++) {
        cstl_shared_ptr_init(&X[i]);
        if ((i & 1023) == 0) VRT_OP1("shared_ptr.share", "owner #%ld", i);
        cstl_shared_ptr_share(&first, &X[i]);
        if (i >= 65530 && i <= 65540) {
            /* around 2^16 references: still shared, still lockable, still alive */
            VRT_CHECK(!cstl_shared_ptr_unique(&first), "memory.big.unique-with-many-owners", "unique() true with %d owners", i + 2);
            VRT_OP1("weak_ptr.lock", "with %ld owners", i + 2);
            cstl_weak_ptr_lock(&w, &probe);
            VRT_CHECK(cstl_shared_ptr_get(&probe) == mem, "memory.big.lock-failed-with-many-owners", "lock reports no owner with %d owners", i + 2);
            cstl_shared_ptr_reset(&probe);
            VRT_CHECK(cleared == 0, "memory.big.cleared-with-owners", "memory cleared while %d owners exist", i + 2);
        }
    }
    VRT_OP0("shared_ptr.reset", "first owner");
    cstl_shared_ptr_reset(&first);
    for (i = 0; i < NBIG; i++) {
        if ((i & 1023) == 0) VRT_OP1("shared_ptr.reset", "owner #%ld", i);
        VRT_CHECK(cleared == 0 && *(uint32_t *)mem == MEMMAGIC, "memory.big.cleared-with-owners", "memory cleared while %d owners exist", NBIG - i);
        cstl_shared_ptr_reset(&X[i]);
    }
    VRT_CHECK(cleared == 1, "memory.big.clear-count", "clear callback ran %d times for %d owners", cleared, NBIG + 1);
    cstl_weak_ptr_lock(&w, &probe);
    VRT_CHECK(cstl_shared_ptr_get(&probe) == NULL, "memory.big.lock-after-death", "lock produced an owner of dead memory");
    cstl_weak_ptr_reset(&w);
    VRT_CHECK(vrt_lib_live() == 0, "memory.big.leak", "%zu blocks live at the end", vrt_lib_live());
    vrt_free(X);
    clear_hook_count = NULL;
    VRT_COUNT("big.cases");
    vrt_sig(0, 0xb16 + which);
}
#define NBIGCASES 2
static uint64_t nrandom(void) { return vrt_thorough ? 800000 : 150000; }
static uint64_t ncases(void)
{
    if (vrt_thorough) { scopes = thorough_scopes; nscopes = sizeof(thorough_scopes) / sizeof(scopes[0]); }
    else { scopes = quick_scopes; nscopes = sizeof(quick_scopes) / sizeof(scopes[0]); }
    return nscopes + NBIGCASES + nrandom();
}
static void run_case(uint64_t idx)
{
    if (idx < (uint64_t)nscopes) run_closure((int)idx);
    else if (idx < (uint64_t)nscopes + NBIGCASES) run_big(idx - nscopes);
    else run_random(idx - nscopes - NBIGCASES);
}
static void winit(void) { (void)ncases(); vrt_sig_name(0, "ownership-states"); }
static const char *const required[] = {
    "op.share", "op.lock.yields-owner", "op.lock.dead-yields-empty", "op.weak.reset.last-reference-after-owners",
    "op.swap.owners-of-different-allocations", "op.lock.into-last-owner-of-same", "op.share.into-owner-of-other",
    "model.last-owner-released", "model.bookkeeping-released", "event.clear.shared", "event.clear.unique",
    "op.unique.release.owning", "op.unique.release.one-out-parameter", "closure.states", "random.histories", "big.cases", "event.clear.reentrant-weak-reset", NULL
};
static const struct vrt_harness H = { "memory", ncases, run_case, winit, NULL, required, 16 };
int main(int argc, char **argv) { return vrt_main(argc, argv, &H); }
