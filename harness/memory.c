/*
 * C05 -- shared memory is destroyed exactly once, exactly when its last owner
 * lets go (single-threaded histories over shared/weak/unique pointer objects).
 *
 * Oracle: an ownership model predicts, for every call, the exact sequence of
 * clear-callback and allocator events ({clr(mem), free(mem)} iff the call
 * empties the owner set, free(book) iff it empties owners+weaks, nothing
 * else); observed != predicted is a violation at the call where it happens.
 *
 * Ownership graphs: managed blocks may embed 1-4 shared pointers and a weak
 * pointer to OTHER allocations (chains, fans, diamonds, back-pointing weak
 * references; never an ownership cycle), reset by the block's clear callback.
 * The prediction is transitive: a block whose last owner is an embedded
 * pointer is cleared and released nested inside the outer clear callback, in
 * slot order, before the outer memory goes; co-owned blocks are untouched.
 */
#include "vrt.h"
#include "explore.h"
#include "cstl/memory.h"
#include <string.h>
#include <stdio.h>
#include <sched.h>
#include <unistd.h>
#include <sys/syscall.h>

#define NS 3
#define NW 3
#define NU 2
#define MAXA 1024               /* allocation records per case (ids recycled never) */
#define RANDA 64                /* random histories stop allocating here */
#define MAXEV 4096              /* clear/free events of one call (a chain of several hundred blocks dies in one reset) */
#define NCH 4                   /* embedded owners per graph block */
#define MEMMAGIC 0x600dfeedu
#define CLRMAGIC 0xdeadc1eau

struct arec {
    void *mem, *book;
    size_t size;
    int owners, weaks;
    int cleared, mem_freed, book_freed;
    int unique_kind;            /* 1: owned by a unique pointer (no book) */
    int noclr;                  /* allocated without a clear callback: only the free is expected */
    int selfweak;               /* the managed memory embeds a weak pointer to itself, reset by its clear callback */
    /* ownership graphs: the managed memory embeds nchild shared pointers and one weak pointer to OTHER allocations,
     * all reset by its clear callback (children in slot order, then the weak pointer) */
    int graph, nchild, child[NCH], wother;
    int dying;                  /* model only: inside its own destruction (the pointer being reset is still a reference) */
    unsigned stamp, vis; int drops;
};
struct gnode { uint32_t magic, nchild; cstl_weak_ptr_t w; cstl_shared_ptr_t child[]; };
#define GN(mem) ((struct gnode *)(mem))
#define GSIZE_OK(sz) ((sz) % 8 == 4 && (sz) >= sizeof(struct gnode) + NCH * sizeof(cstl_shared_ptr_t))
#define GNCHILD(sz) (1 + (int)(((sz) >> 3) & 3))
static struct arec A[MAXA];
static int nA;

static cstl_shared_ptr_t S[NS];
static cstl_weak_ptr_t W[NW];
static cstl_unique_ptr_t U[NU];
static int Sa[NS], Wa[NW], Ua[NU];      /* model: allocation index or -1 */
static int ns, nw, nu;
static int use_macro;
static uintptr_t upriv[NU];             /* priv cookie stored with each unique allocation */

/* merged event log of one call: clear callbacks and allocator frees, in order */
struct mev { char kind; void *p; };     /* 'c' clear, 'f' free, 'm' malloc */
static struct mev obs[MAXEV];
static int nobs;
static int clr_bad, ev_lost;

static void on_clear_common(void *mem, void *priv, void *want_priv)
{
    uint32_t *w = mem;
    if (priv != want_priv) clr_bad = 1;
    if (mem == NULL) { clr_bad = 2; return; }
    if (w[0] != MEMMAGIC) clr_bad = 3;          /* second clear, or not a managed block */
    w[0] = CLRMAGIC;
    if (nobs < MAXEV) { obs[nobs].kind = 'c'; obs[nobs].p = mem; }
    nobs++;
}
static int ev_consumed;
static void sync_alloc_events(void)
{
    int n = vrt_ev_n();
    if (n > VRT_EV_MAX) ev_lost = 1;
    for (; ev_consumed < n && ev_consumed < VRT_EV_MAX; ev_consumed++) {
        const struct vrt_aev *e = vrt_ev(ev_consumed);
        if (nobs < MAXEV) {
            if (e->kind == 'f') { if (e->p == NULL) continue; obs[nobs].kind = 'f'; obs[nobs].p = e->p; }
            else { obs[nobs].kind = 'm'; obs[nobs].p = e->failed ? NULL : e->kind == 'r' ? e->q : e->p; }
        }
        nobs++;
    }
    /* the runtime keeps VRT_EV_MAX events per window; a graph dying in one call makes more: open a new window
     * (every clear callback and every return of a nested reset comes through here, so none is lost) */
    if (ev_consumed >= VRT_EV_MAX / 2) { vrt_ev_begin(); ev_consumed = 0; }
}
static void shared_clr(void *mem, void *priv) { sync_alloc_events(); on_clear_common(mem, priv, NULL); VRT_COUNT("event.clear.shared"); }
#define EW(mem) ((cstl_weak_ptr_t *)((char *)(mem) + 8))
/* re-entrant use the library supports: the dying object drops the weak reference it holds on itself */
static void shared_clr_selfweak(void *mem, void *priv)
{
    sync_alloc_events(); on_clear_common(mem, priv, NULL);
    if (mem != NULL) {
        /* the back-pointer pattern: while the block is being cleared no owner exists any more, so locking the weak
         * reference it holds on itself must come back empty (an owner obtained here would tear the block down again) */
        cstl_shared_ptr_t late;
        cstl_shared_ptr_init(&late);
        cstl_weak_ptr_lock(EW(mem), &late);
        if (cstl_shared_ptr_get(&late) != NULL) clr_bad = 5;    /* left alone on purpose: resetting it would recurse */
        VRT_COUNT("event.clear.reentrant-weak-lock-of-dying-block");
    }
    cstl_weak_ptr_reset(EW(mem));
    VRT_COUNT("event.clear.shared"); VRT_COUNT("event.clear.reentrant-weak-reset");
}
/* ownership graphs: the clear callback resets the pointers the dying block embeds, "what a clear callback is for";
 * blocks that thereby lose their last owner are destroyed right there, nested inside this callback */
static int gdepth;
static void shared_clr_graph(void *mem, void *priv)
{
    struct gnode *g = mem;
    uint32_t i, n;
    sync_alloc_events(); on_clear_common(mem, priv, NULL);
    VRT_COUNT("event.clear.shared"); VRT_COUNT("event.clear.graph");
    if (mem == NULL) return;
    n = g->nchild;
    if (n > NCH) { clr_bad = 3; return; }
    gdepth++;
    VRT_MAX("max.graph.clear-nesting", gdepth);
    for (i = 0; i < n; i++) {
        cstl_shared_ptr_reset(&g->child[i]);
        sync_alloc_events();            /* what the nested reset released belongs in front of our next event */
        if (cstl_shared_ptr_get(&g->child[i]) != NULL) clr_bad = 4;
    }
    cstl_weak_ptr_reset(&g->w);
    sync_alloc_events();
    gdepth--;
}
static int *clear_hook_count;
static void big_clr(void *mem, void *priv)
{
    (void)priv;
    if (clear_hook_count) ++*clear_hook_count;
    *(uint32_t *)mem = CLRMAGIC;
}
static void unique_clr(void *mem, void *priv)
{
    sync_alloc_events();
    on_clear_common(mem, priv, priv);   /* priv is checked against the model by the caller */
    VRT_COUNT("event.clear.unique");
}
static void *last_unique_priv;
static void unique_clr2(void *mem, void *priv) { last_unique_priv = priv; unique_clr(mem, priv); }
static void unique_release_sentinel(void *mem, void *priv) { (void)mem; (void)priv; }      /* never called: marks "out-parameter not written" */

static unsigned long yields;    /* sched_yield() calls the library made since the last call_begin (see sched_yield below) */
static int cur_k;               /* kind of the op st_apply is executing (0: a scripted raw call) */
static int yield_armed;         /* between call_begin and call_end (run_big: for the whole case) */
static void call_begin(void) { vrt_ev_begin(); ev_consumed = 0; nobs = 0; clr_bad = 0; ev_lost = 0; gdepth = 0; yields = 0; yield_armed = 1; }

/* predicted event list */
static struct mev want[MAXEV];
static int nwant;
static void want_add(char k, void *p)
{
    if (nwant >= MAXEV) vrt_fail("harness.memory.event-buffer", "more than %d predicted events in one call", MAXEV);
    want[nwant].kind = k; want[nwant].p = p; nwant++;
}

static void call_end(const char *entry)
{
    int i;
    char key[128];
    yield_armed = 0;
    sync_alloc_events();
    VRT_CHECK(clr_bad != 1, "memory.clear.wrong-priv", "%s: clear callback received an unexpected priv", entry);
    VRT_CHECK(clr_bad != 2, "memory.clear.null", "%s: clear callback invoked with NULL", entry);
    if (clr_bad == 3) {
        snprintf(key, sizeof(key), "memory.clear.twice-or-foreign.%s", entry);
        vrt_fail(key, "%s: clear callback ran for memory that was already cleared or is not a managed block", entry);
    }
    VRT_CHECK(clr_bad != 5, "memory.weak.lock-inside-clear-yields-owner-of-dying-block", "%s: a weak pointer locked from inside the clear callback of the block it refers to (no owner left) yielded an owner", entry);
    VRT_CHECK(clr_bad != 4, "memory.graph.embedded-owner-not-empty-after-reset", "%s: a shared pointer embedded in a dying block still owns something after its reset returned", entry);
    VRT_CHECK(!ev_lost && nobs <= MAXEV, "harness.memory.event-buffer", "%s: allocator/callback events lost (%d observed)", entry, nobs);
    /* mallocs are checked by the caller (alloc ops); compare the destruction events */
    {
        static struct mev got[MAXEV];
        int ng = 0, nm = 0;
        for (i = 0; i < nobs && i < MAXEV; i++) {
            if (obs[i].kind == 'm') { nm++; continue; }
            got[ng++] = obs[i];
        }
        (void)nm;
        if (ng != nwant) {
            snprintf(key, sizeof(key), "memory.events.%s.%s", ng > nwant ? "unexpected-destruction" : "missing-destruction", entry);
            vrt_fail(key, "%s: observed %d clear/free events, the ownership model predicts %d (first observed: %c %p)",
                     entry, ng, nwant, ng ? got[0].kind : '-', ng ? got[0].p : NULL);
        }
        for (i = 0; i < ng; i++) {
            if (got[i].kind != want[i].kind || got[i].p != want[i].p) {
                snprintf(key, sizeof(key), "memory.events.wrong-order-or-block.%s", entry);
                vrt_fail(key, "%s: event %d is %c(%p), predicted %c(%p)", entry, i, got[i].kind, got[i].p, want[i].kind, want[i].p);
            }
        }
    }
    for (i = 0; i < nwant; i++) if (want[i].kind == 'f') VRT_COUNT("event.free");
}

/* model: drop one owner / one weak reference of allocation a, predicting events */
static unsigned callid, visid;
static int mdepth;              /* > 0: predicting what happens inside a clear callback */
static void model_drop_weak(int a);
static void model_drop_owner(int a)
{
    if (a < 0) return;
    if (A[a].stamp != callid) { A[a].stamp = callid; A[a].drops = 0; }
    if (mdepth > 0) A[a].drops++;
    A[a].owners--;
    if (A[a].owners == 0) {
        if (!A[a].noclr) want_add('c', A[a].mem);
        if (mdepth > 0) {
            VRT_COUNT("graph.nested-destruction");
            VRT_MAX("max.graph.model-nesting", mdepth);
            if (A[a].drops >= 2) VRT_COUNT("graph.diamond.destroyed-by-its-second-dying-parent");
        }
        /* the pointer being reset keeps its reference to the bookkeeping block until the memory is gone */
        A[a].dying = 1;
        if (A[a].graph) {
            /* the clear callback resets the embedded pointers: slot order, then the weak pointer; a block whose last
             * owner that was is destroyed there and then */
            int i, c, died = 0, kept = 0;
            mdepth++;
            for (i = 0; i < A[a].nchild; i++) {
                c = A[a].child[i]; A[a].child[i] = -1;
                if (c >= 0) { if (A[c].owners == 1) died++; else { kept++; VRT_COUNT("graph.drop.child-with-another-owner-survives"); } }
                model_drop_owner(c);
            }
            c = A[a].wother; A[a].wother = -1;
            model_drop_weak(c);
            mdepth--;
            if (died && kept) VRT_COUNT("graph.fan.some-children-die-some-survive");
            if (died >= 2) VRT_COUNT("graph.fan.several-children-die");
        }
        if (A[a].selfweak) A[a].weaks--;        /* dropped inside the clear callback, before the memory goes */
        A[a].dying = 0;
        want_add('f', A[a].mem);
        A[a].cleared = 1; A[a].mem_freed = 1;
        VRT_COUNT("model.last-owner-released");
    }
    if (A[a].owners + A[a].weaks == 0) { want_add('f', A[a].book); A[a].book_freed = 1; VRT_COUNT("model.bookkeeping-released"); }
}
static void model_drop_weak(int a)
{
    if (a < 0) return;
    A[a].weaks--;
    if (A[a].dying) VRT_COUNT("graph.weak-to-dying-block-reset-inside-its-clear");
    if (A[a].owners + A[a].weaks + A[a].dying == 0) { want_add('f', A[a].book); A[a].book_freed = 1; VRT_COUNT("model.bookkeeping-released"); }
}
/* is allocation `to` reachable from `from` through embedded owners? (an ownership cycle is a leak by design,
 * the generator stays out of it) */
static int reaches_rec(int from, int to)
{
    int i;
    if (from == to) return 1;
    if (A[from].vis == visid) return 0;
    A[from].vis = visid;
    if (A[from].graph && !A[from].mem_freed)
        for (i = 0; i < A[from].nchild; i++)
            if (A[from].child[i] >= 0 && reaches_rec(A[from].child[i], to)) return 1;
    return 0;
}
static int reaches(int from, int to) { visid++; return reaches_rec(from, to); }

/* ---- audits ---- */
static void audit_ptrs(void)            /* the part of the audit that costs O(pointers): get()/unique() of every shared pointer object */
{
    int i;
    for (i = 0; i < ns; i++) {
        void *g = cstl_shared_ptr_get(&S[i]);
        bool u = cstl_shared_ptr_unique(&S[i]);
        if (Sa[i] < 0) {
            VRT_CHECK(g == NULL, "memory.get.empty-not-null", "shared %d is empty in the model but get() = %p", i, g);
            VRT_CHECK(u, "memory.unique.empty", "unique() false on an empty shared pointer");
        } else {
            const struct arec *a = &A[Sa[i]];
            VRT_CHECK(g == a->mem, "memory.get.co-owners-differ", "shared %d: get() = %p, allocation is %p", i, g, a->mem);
            VRT_CHECK(*(uint32_t *)g == MEMMAGIC, "memory.owner-sees-cleared-memory", "shared %d owns memory whose clear callback already ran", i);
            VRT_CHECK(u == (a->owners + a->weaks == 1), "memory.unique.wrong",
                      "shared %d: unique() = %d with %d owners and %d weak references", i, (int)u, a->owners, a->weaks);
        }
    }
}
static void audit(void)
{
    int i;
    audit_ptrs();
    for (i = 0; i < nu; i++) {
        void *g = cstl_unique_ptr_get(&U[i]);
        if (Ua[i] < 0) VRT_CHECK(g == NULL, "memory.unique_ptr.get.empty-not-null", "unique %d empty in the model, get() = %p", i, g);
        else {
            VRT_CHECK(g == A[Ua[i]].mem, "memory.unique_ptr.get", "unique %d: get() = %p, allocation is %p", i, g, A[Ua[i]].mem);
            VRT_CHECK(*(uint32_t *)g == MEMMAGIC, "memory.unique_ptr.owner-sees-cleared-memory", "unique %d owns cleared memory", i);
        }
    }
    /* live library blocks = mem + book of live allocations */
    {
        size_t expect = 0;
        int j;
        for (i = 0; i < nA; i++) {
            expect += (!A[i].mem_freed) + (!A[i].unique_kind && !A[i].book_freed);
            if (A[i].mem_freed || A[i].unique_kind) continue;
            /* a block may be owned by embedded pointers only: it is untouched as long as any owner exists */
            VRT_CHECK(*(uint32_t *)A[i].mem == MEMMAGIC, "memory.graph.owned-block-was-cleared",
                      "allocation %d still has %d owner(s) but its clear callback already ran", i, A[i].owners);
            if (!A[i].graph) continue;
            VRT_CHECK(GN(A[i].mem)->nchild == (uint32_t)A[i].nchild, "memory.graph.owned-block-was-cleared", "allocation %d: contents changed", i);
            for (j = 0; j < A[i].nchild; j++) {
                cstl_shared_ptr_t *e = &GN(A[i].mem)->child[j];
                const int c = A[i].child[j];
                void *g = cstl_shared_ptr_get(e);
                VRT_CHECK(g == (c < 0 ? NULL : A[c].mem), "memory.graph.get.embedded-owner-differs",
                          "embedded owner %d of allocation %d: get() = %p, the model says %p", j, i, g, c < 0 ? NULL : A[c].mem);
                if (c >= 0) VRT_CHECK(cstl_shared_ptr_unique(e) == (A[c].owners + A[c].weaks == 1), "memory.unique.wrong",
                                      "embedded owner: unique() wrong with %d owners and %d weak references", A[c].owners, A[c].weaks);
            }
        }
        VRT_CHECK(vrt_lib_live() == expect, "memory.live-blocks", "library holds %zu live blocks, the model %zu", vrt_lib_live(), expect);
    }
    VRT_COUNT("audit");
}

/* ---- ops ---- */
enum {
    K_SALLOC = 1, K_SHARE, K_SSWAP, K_SRESET, K_WFROM, K_WLOCK, K_WSWAP, K_WRESET,
    K_UALLOC, K_URELEASE, K_USWAP, K_URESET,
    /* ownership graphs; a = shared pointer that owns the graph block, b = the other shared pointer, c = slot */
    K_GEMBED,           /* share S[b] into embedded owner c of S[a]'s block */
    K_GSWAP,            /* swap S[b] with embedded owner c of S[a]'s block (moves the only owner into the block) */
    K_GWEAK,            /* embedded weak pointer of S[a]'s block <- from S[b] */
    K_GLOCK,            /* lock the embedded weak pointer of S[a]'s block into S[b] */
    K_NK
};
#define OP(k, a, b, c) ((uint32_t)(k) | (uint32_t)(a) << 8 | (uint32_t)(b) << 12 | (uint32_t)(c) << 16)
#define OP_K(o) ((o) & 0xff)
#define OP_A(o) (((o) >> 8) & 15)
#define OP_B(o) (((o) >> 12) & 15)
#define OP_C(o) ((o) >> 16)

/* The library's wait loop (weak_ptr_lock) spins on sched_yield().  Every history in this harness is single-threaded:
 * nobody else exists who could release what the call waits for, so a call that keeps yielding never returns.  This
 * definition takes precedence over libc's: a deterministic verdict after 2^20 yields inside one call instead of minutes
 * in the runtime's CPU-time hang detector (which still covers waits that do not yield).  The unmodified library never
 * gets here single-threaded. */
int sched_yield(void)
{
    static const char *const entry[K_NK] = {
        [K_SALLOC] = "shared_ptr.alloc", [K_SHARE] = "shared_ptr.share", [K_SSWAP] = "shared_ptr.swap", [K_SRESET] = "shared_ptr.reset",
        [K_WFROM] = "weak_ptr.from", [K_WLOCK] = "weak_ptr.lock", [K_WSWAP] = "weak_ptr.swap", [K_WRESET] = "weak_ptr.reset",
        [K_UALLOC] = "unique_ptr.alloc", [K_URELEASE] = "unique_ptr.release", [K_USWAP] = "unique_ptr.swap", [K_URESET] = "unique_ptr.reset",
        [K_GEMBED] = "shared_ptr.share", [K_GSWAP] = "shared_ptr.swap", [K_GWEAK] = "weak_ptr.from", [K_GLOCK] = "weak_ptr.lock",
    };
    if (!yield_armed) return (int)syscall(SYS_sched_yield);    /* not the library: the supervisor process, a sanitizer runtime */
    VRT_COUNT("wait.sched-yield-in-a-single-threaded-call");
    if (++yields == (1ul << 20)) {
        char key[96];
        snprintf(key, sizeof(key), "memory.hang.waits-forever-single-threaded.%s", cur_k > 0 && cur_k < K_NK ? entry[cur_k] : "scripted-call");
        vrt_fail(key, "the call yielded the CPU 2^20 times waiting for something nobody else can do in a single-threaded program");
    }
    return 0;
}

static const char *ownclass(int a)
{
    if (a < 0) return "empty";
    if (A[a].owners == 0) return "dead";
    return A[a].owners == 1 ? (A[a].weaks ? "last-owner+weak" : "last-owner") : "co-owned";
}

static int new_alloc_record(void)
{
    if (nA >= MAXA) vrt_fail("harness.memory.too-many-allocations", "case needs more than %d allocation records", MAXA);
    memset(&A[nA], 0, sizeof(A[nA]));
    return nA++;
}

static int st_apply(uint32_t op, int do_audit)
{
    const int k = OP_K(op), a = OP_A(op), b = OP_B(op);
    const size_t size = OP_C(op);
    int x, i;

    nwant = 0; callid++; mdepth = 0; cur_k = k;
    switch (k) {
    case K_SALLOC: {
        if (a >= ns) return 0;
        vrt_state(ownclass(Sa[a]));
        VRT_OP2("shared_ptr.alloc", "S%ld size=%ld", a, size);
        model_drop_owner(Sa[a]); Sa[a] = -1;
        call_begin();
        cstl_shared_ptr_alloc(&S[a], size, (size & 1) ? NULL : (size % 4 == 2) ? shared_clr_selfweak :
                              GSIZE_OK(size) ? shared_clr_graph : shared_clr);     /* odd sizes: no clear callback */
        call_end("shared_ptr.alloc");
        if (size > 0) {
            void *mem = cstl_shared_ptr_get(&S[a]), *book = NULL;
            int nm = 0;
            VRT_CHECK(mem != NULL, "memory.alloc.failed-without-fault", "shared alloc(%zu) left the pointer empty", size);
            for (i = 0; i < nobs && i < MAXEV; i++)
                if (obs[i].kind == 'm' && obs[i].p != NULL) { nm++; if (obs[i].p != mem) book = obs[i].p; }
            VRT_CHECK(nm == 2 && book != NULL, "memory.alloc.block-count", "shared alloc made %d allocations, expected managed block + bookkeeping block", nm);
            x = new_alloc_record();
            A[x].mem = mem; A[x].book = book; A[x].size = size; A[x].owners = 1; A[x].noclr = size & 1;
            *(uint32_t *)mem = MEMMAGIC;
            Sa[a] = x;
            VRT_COUNT("op.shared.alloc");
            if (size & 1) VRT_COUNT("op.shared.alloc.without-clear-callback");
            if (GSIZE_OK(size)) {
                /* the block embeds owners of (and a weak reference to) other allocations, all empty for now */
                struct gnode *g = mem;
                A[x].graph = 1; A[x].nchild = GNCHILD(size); A[x].wother = -1;
                g->nchild = (uint32_t)A[x].nchild;
                memset(&g->w, 0x77, sizeof(g->w) + A[x].nchild * sizeof(g->child[0]));
                cstl_weak_ptr_init(&g->w);
                for (i = 0; i < A[x].nchild; i++) { cstl_shared_ptr_init(&g->child[i]); A[x].child[i] = -1; }
                VRT_COUNT("op.graph.alloc");
            }
            if (size % 4 == 2) {
                /* the object takes a weak reference to itself (observer / weak-self pattern) */
                cstl_weak_ptr_init(EW(mem));
                call_begin();
                cstl_weak_ptr_from(EW(mem), &S[a]);
                nwant = 0;
                call_end("weak_ptr.from");
                A[x].selfweak = 1; A[x].weaks++;
                VRT_COUNT("op.shared.alloc.self-weak");
            }
        } else {
            VRT_CHECK(cstl_shared_ptr_get(&S[a]) == NULL, "memory.alloc.zero-size-not-empty", "alloc(0) left a non-empty pointer");
            VRT_COUNT("op.shared.alloc.zero-size");
        }
        break;
    }
    case K_SHARE:
        if (a >= ns || b >= ns || a == b) return 0;
        vrt_state(ownclass(Sa[b]));
        VRT_OP2("shared_ptr.share", "S%ld -> S%ld", a, b);
        if (Sa[b] >= 0 && Sa[b] == Sa[a]) VRT_COUNT("op.share.into-co-owner-of-same");
        if (Sa[b] >= 0 && Sa[b] != Sa[a]) VRT_COUNT("op.share.into-owner-of-other");
        model_drop_owner(Sa[b]);
        Sa[b] = Sa[a];
        if (Sa[b] >= 0) A[Sa[b]].owners++;
        /* sharing into the last owner of the same allocation would destroy it first:
         * the documented "destination is reset first" semantics; the model follows it */
        call_begin();
        cstl_shared_ptr_share(&S[a], &S[b]);
        call_end("shared_ptr.share");
        VRT_COUNT("op.share");
        break;
    case K_SSWAP:
        if (a >= ns || b >= ns || a >= b) return 0;
        VRT_OP2("shared_ptr.swap", "S%ld <-> S%ld", a, b);
        if (Sa[a] >= 0 && Sa[b] >= 0 && Sa[a] != Sa[b]) VRT_COUNT("op.swap.owners-of-different-allocations");
        call_begin();
        cstl_shared_ptr_swap(&S[a], &S[b]);
        call_end("shared_ptr.swap");
        x = Sa[a]; Sa[a] = Sa[b]; Sa[b] = x;
        VRT_COUNT("op.shared.swap");
        break;
    case K_SRESET:
        if (a >= ns) return 0;
        vrt_state(ownclass(Sa[a]));
        VRT_OP1("shared_ptr.reset", "S%ld", a);
        model_drop_owner(Sa[a]); Sa[a] = -1;
        call_begin();
        cstl_shared_ptr_reset(&S[a]);
        call_end("shared_ptr.reset");
        VRT_COUNT("op.shared.reset");
        break;
    case K_WFROM:
        if (a >= nw || b >= ns) return 0;
        vrt_state(ownclass(Wa[a]));
        VRT_OP2("weak_ptr.from", "W%ld <- S%ld", a, b);
        model_drop_weak(Wa[a]);
        Wa[a] = Sa[b];
        if (Wa[a] >= 0) A[Wa[a]].weaks++;
        call_begin();
        cstl_weak_ptr_from(&W[a], &S[b]);
        call_end("weak_ptr.from");
        VRT_COUNT("op.weak.from");
        break;
    case K_WLOCK: {
        int tgt;
        if (a >= nw || b >= ns) return 0;
        vrt_state(ownclass(Wa[a]));
        VRT_OP2("weak_ptr.lock", "W%ld -> S%ld", a, b);
        tgt = Wa[a];
        if (tgt >= 0 && Sa[b] == tgt && A[tgt].owners == 1) VRT_COUNT("op.lock.into-last-owner-of-same");
        model_drop_owner(Sa[b]); Sa[b] = -1;
        /* lock yields an owner iff an owner still exists (after the destination was reset) */
        if (tgt >= 0 && A[tgt].owners > 0) { Sa[b] = tgt; A[tgt].owners++; VRT_COUNT("op.lock.yields-owner"); }
        else if (tgt >= 0) VRT_COUNT("op.lock.dead-yields-empty");
        else VRT_COUNT("op.lock.empty-weak");
        call_begin();
        cstl_weak_ptr_lock(&W[a], &S[b]);
        call_end("weak_ptr.lock");
        if (Sa[b] < 0)
            VRT_CHECK(cstl_shared_ptr_get(&S[b]) == NULL, "memory.lock.owner-from-dead", "lock produced an owner although no owner exists");
        else
            VRT_CHECK(cstl_shared_ptr_get(&S[b]) == A[tgt].mem, "memory.lock.empty-from-live", "lock did not produce an owner although one exists");
        break;
    }
    case K_WSWAP:
        if (a >= nw || b >= nw || a >= b) return 0;
        VRT_OP2("weak_ptr.swap", "W%ld <-> W%ld", a, b);
        call_begin();
        cstl_weak_ptr_swap(&W[a], &W[b]);
        call_end("weak_ptr.swap");
        x = Wa[a]; Wa[a] = Wa[b]; Wa[b] = x;
        VRT_COUNT("op.weak.swap");
        break;
    case K_WRESET:
        if (a >= nw) return 0;
        vrt_state(ownclass(Wa[a]));
        VRT_OP1("weak_ptr.reset", "W%ld", a);
        if (Wa[a] >= 0 && A[Wa[a]].owners == 0 && A[Wa[a]].weaks == 1) VRT_COUNT("op.weak.reset.last-reference-after-owners");
        model_drop_weak(Wa[a]); Wa[a] = -1;
        call_begin();
        cstl_weak_ptr_reset(&W[a]);
        call_end("weak_ptr.reset");
        VRT_COUNT("op.weak.reset");
        break;
    case K_UALLOC:
        if (a >= nu) return 0;
        vrt_state(Ua[a] < 0 ? "empty" : "owning");
        VRT_OP2("unique_ptr.alloc", "U%ld size=%ld", a, size);
        x = Ua[a];
        if (Ua[a] >= 0) { if (!A[Ua[a]].noclr) want_add('c', A[Ua[a]].mem); want_add('f', A[Ua[a]].mem); A[Ua[a]].cleared = A[Ua[a]].mem_freed = 1; Ua[a] = -1; }
        call_begin();
        upriv[a] += 16;
        last_unique_priv = NULL;
        cstl_unique_ptr_alloc(&U[a], size, (size & 1) ? NULL : unique_clr2, (void *)(upriv[a] + a));
        call_end("unique_ptr.alloc");
        if (x >= 0 && !A[x].noclr) VRT_CHECK(last_unique_priv == A[x].book, "memory.unique_ptr.alloc.priv", "re-allocating a unique pointer cleared the old block with a wrong priv");
        if (size > 0) {
            void *mem = cstl_unique_ptr_get(&U[a]);
            VRT_CHECK(mem != NULL, "memory.unique_ptr.alloc.failed-without-fault", "unique alloc(%zu) left the pointer empty", size);
            x = new_alloc_record();
            A[x].mem = mem; A[x].size = size; A[x].owners = 1; A[x].unique_kind = 1; A[x].book_freed = 1; A[x].noclr = size & 1;
            A[x].book = (void *)(upriv[a] + a);
            *(uint32_t *)mem = MEMMAGIC;
            Ua[a] = x;
        } else {
            VRT_CHECK(cstl_unique_ptr_get(&U[a]) == NULL, "memory.unique_ptr.alloc.zero-size-not-empty", "unique alloc(0) non-empty");
        }
        VRT_COUNT("op.unique.alloc");
        break;
    case K_URELEASE: {
        /* b: bit 0 = the clear function is asked for, bit 1 = its priv is asked for (each out-parameter is optional
         * on its own); both are pre-set to a sentinel so that "not written" shows */
        static int sentinel;
        cstl_xtor_func_t *clr = unique_release_sentinel;
        void *priv = &sentinel, *p;
        if (a >= nu) return 0;
        vrt_state(Ua[a] < 0 ? "empty" : "owning");
        VRT_OP2("unique_ptr.release", "U%ld out-parameters=%ld (1 clr, 2 priv)", a, b);
        call_begin();
        p = cstl_unique_ptr_release(&U[a], (b & 1) ? &clr : NULL, (b & 2) ? &priv : NULL);
        call_end("unique_ptr.release");
        if (Ua[a] < 0) {
            VRT_CHECK(p == NULL, "memory.unique_ptr.release.empty-not-null", "release of an empty unique pointer returned %p", p);
        } else {
            VRT_CHECK(p == A[Ua[a]].mem, "memory.unique_ptr.release.wrong-pointer", "release returned %p, allocation is %p", p, A[Ua[a]].mem);
            if (b & 1) VRT_CHECK(clr == (A[Ua[a]].noclr ? NULL : unique_clr2), "memory.unique_ptr.release.clr-or-priv",
                                 "release reported a wrong clear function (out-parameters %d)", b);
            if (b & 2) VRT_CHECK(priv == A[Ua[a]].book, "memory.unique_ptr.release.clr-or-priv",
                                 "release reported a wrong priv, or none (out-parameters %d)", b);
            if (b == 1 || b == 2) VRT_COUNT("op.unique.release.one-out-parameter");
            VRT_CHECK(*(uint32_t *)p == MEMMAGIC, "memory.unique_ptr.release.cleared", "released memory was already cleared");
            /* the harness now owns the block and frees it */
            vrt_lib_free_block(p);
            A[Ua[a]].mem_freed = 1; Ua[a] = -1;
            VRT_COUNT("op.unique.release.owning");
        }
        VRT_CHECK(cstl_unique_ptr_get(&U[a]) == NULL, "memory.unique_ptr.release.not-empty", "unique pointer not empty after release");
        VRT_COUNT("op.unique.release");
        break;
    }
    case K_USWAP:
        if (nu < 2 || a != 0) return 0;
        VRT_OP0("unique_ptr.swap", "U0 <-> U1");
        call_begin();
        cstl_unique_ptr_swap(&U[0], &U[1]);
        call_end("unique_ptr.swap");
        x = Ua[0]; Ua[0] = Ua[1]; Ua[1] = x;
        VRT_COUNT("op.unique.swap");
        break;
    case K_URESET:
        if (a >= nu) return 0;
        vrt_state(Ua[a] < 0 ? "empty" : "owning");
        VRT_OP1("unique_ptr.reset", "U%ld", a);
        if (Ua[a] >= 0) { if (!A[Ua[a]].noclr) want_add('c', A[Ua[a]].mem); want_add('f', A[Ua[a]].mem); A[Ua[a]].cleared = A[Ua[a]].mem_freed = 1; }
        last_unique_priv = NULL;
        call_begin();
        cstl_unique_ptr_reset(&U[a]);
        call_end("unique_ptr.reset");
        if (Ua[a] >= 0) {
            if (!A[Ua[a]].noclr) VRT_CHECK(last_unique_priv == A[Ua[a]].book, "memory.unique_ptr.reset.priv", "clear callback of a unique pointer got a priv that belongs to another allocation");
            Ua[a] = -1;
        }
        VRT_COUNT("op.unique.reset");
        break;
    case K_GEMBED: {
        const int slot = (int)size;
        int n, t;
        if (a >= ns || b >= ns || a == b) return 0;
        n = Sa[a];
        if (n < 0 || !A[n].graph || slot >= A[n].nchild) return 0;
        t = Sa[b];
        if (t >= 0 && reaches(t, n)) return 0;          /* would close an ownership cycle */
        vrt_state(ownclass(A[n].child[slot]));
        VRT_OP3("shared_ptr.share", "S%ld -> embedded owner %ld of the block S%ld owns", b, slot, a);
        if (A[n].child[slot] >= 0 && A[A[n].child[slot]].owners == 1) VRT_COUNT("op.graph.embed.over-last-owner");
        model_drop_owner(A[n].child[slot]);
        A[n].child[slot] = t;
        if (t >= 0) A[t].owners++;
        call_begin();
        cstl_shared_ptr_share(&S[b], &GN(A[n].mem)->child[slot]);
        call_end("shared_ptr.share");
        VRT_COUNT("op.graph.embed");
        break;
    }
    case K_GSWAP: {
        const int slot = (int)size;
        int n, t;
        if (a >= ns || b >= ns || a == b) return 0;
        n = Sa[a];
        if (n < 0 || !A[n].graph || slot >= A[n].nchild) return 0;
        t = Sa[b];
        if (t >= 0 && reaches(t, n)) return 0;
        VRT_OP3("shared_ptr.swap", "S%ld <-> embedded owner %ld of the block S%ld owns", b, slot, a);
        if (t >= 0 && A[t].owners == 1) VRT_COUNT("op.graph.move-in.only-owner-now-embedded");
        call_begin();
        cstl_shared_ptr_swap(&S[b], &GN(A[n].mem)->child[slot]);
        call_end("shared_ptr.swap");
        Sa[b] = A[n].child[slot]; A[n].child[slot] = t;
        VRT_COUNT("op.graph.swap");
        break;
    }
    case K_GWEAK: {
        int n;
        if (a >= ns || b >= ns) return 0;
        n = Sa[a];
        if (n < 0 || !A[n].graph) return 0;
        vrt_state(ownclass(A[n].wother));
        VRT_OP2("weak_ptr.from", "embedded weak pointer of the block S%ld owns <- S%ld", a, b);
        model_drop_weak(A[n].wother);
        A[n].wother = Sa[b];
        if (Sa[b] >= 0) A[Sa[b]].weaks++;
        if (Sa[b] >= 0 && Sa[b] != n && reaches(n, Sa[b])) VRT_COUNT("op.graph.weak.to-descendant");
        if (Sa[b] >= 0 && Sa[b] != n && reaches(Sa[b], n)) VRT_COUNT("op.graph.weak.to-ancestor");
        call_begin();
        cstl_weak_ptr_from(&GN(A[n].mem)->w, &S[b]);
        call_end("weak_ptr.from");
        VRT_COUNT("op.graph.weak");
        break;
    }
    case K_GLOCK: {
        int n, tgt;
        if (a >= ns || b >= ns || a == b) return 0;
        n = Sa[a];
        if (n < 0 || !A[n].graph) return 0;
        tgt = A[n].wother;
        vrt_state(ownclass(tgt));
        VRT_OP2("weak_ptr.lock", "embedded weak pointer of the block S%ld owns -> S%ld", a, b);
        model_drop_owner(Sa[b]); Sa[b] = -1;
        if (tgt >= 0 && A[tgt].owners > 0) { Sa[b] = tgt; A[tgt].owners++; VRT_COUNT("op.lock.yields-owner"); }
        else if (tgt >= 0) VRT_COUNT("op.lock.dead-yields-empty");
        else VRT_COUNT("op.lock.empty-weak");
        call_begin();
        cstl_weak_ptr_lock(&GN(A[n].mem)->w, &S[b]);
        call_end("weak_ptr.lock");
        if (Sa[b] < 0)
            VRT_CHECK(cstl_shared_ptr_get(&S[b]) == NULL, "memory.lock.owner-from-dead", "lock produced an owner although no owner exists");
        else
            VRT_CHECK(cstl_shared_ptr_get(&S[b]) == A[tgt].mem, "memory.lock.empty-from-live", "lock did not produce an owner although one exists");
        VRT_COUNT("op.graph.lock");
        break;
    }
    default:
        return 0;
    }
    if (do_audit) audit();
    return 1;
}

#define SCOPE(s, w, u) ((s) | (w) << 4 | (u) << 8)
#define SCOPE_G 0x1000          /* the alphabet builds ownership graphs (only tells scopes apart in the signature) */
static void st_create(int scope)
{
    int i;
    ns = scope & 15; nw = (scope >> 4) & 15; nu = (scope >> 8) & 15;
    nA = 0; callid = 1; visid = 0;
    memset(S, 0x77, sizeof(S)); memset(W, 0x77, sizeof(W)); memset(U, 0x77, sizeof(U));    /* recycled storage */
    /* both documented ways of making the objects: the init functions and the static initialiser macros */
    for (i = 0; i < ns; i++) {
        if (use_macro) S[i] = (cstl_shared_ptr_t)CSTL_SHARED_PTR_INITIALIZER(S[i]); else cstl_shared_ptr_init(&S[i]);
        Sa[i] = -1;
    }
    for (i = 0; i < nw; i++) {
        if (use_macro) W[i] = (cstl_weak_ptr_t)CSTL_WEAK_PTR_INITIALIZER(W[i]); else cstl_weak_ptr_init(&W[i]);
        Wa[i] = -1;
    }
    for (i = 0; i < nu; i++) {
        if (use_macro) U[i] = (cstl_unique_ptr_t)CSTL_UNIQUE_PTR_INITIALIZER(U[i]); else cstl_unique_ptr_init(&U[i]);
        Ua[i] = -1; upriv[i] = 0x1000 * (i + 1);
    }
    if (use_macro) VRT_COUNT("objects.made-with-initializer-macros");
}
static void st_destroy(void)
{
    /* "a history that resets every pointer leaks nothing" */
    int i;
    for (i = 0; i < ns; i++) st_apply(OP(K_SRESET, i, 0, 0), 0);
    for (i = 0; i < nw; i++) st_apply(OP(K_WRESET, i, 0, 0), 0);
    for (i = 0; i < nu; i++) st_apply(OP(K_URESET, i, 0, 0), 0);
    VRT_CHECK(vrt_lib_live() == 0, "memory.leak.after-resetting-everything", "%zu library blocks still live after every pointer was reset", vrt_lib_live());
    for (i = 0; i < nA; i++) {
        VRT_CHECK(A[i].mem_freed && A[i].book_freed, "memory.leak.allocation-record", "allocation %d not fully released in the model", i);
    }
}
static uint64_t st_sig(void)
{
    /* canonical relabelling of allocations by first appearance */
    static int map[MAXA], order[MAXA];
    int next = 0, i, j, any = 0;
    uint64_t h = 0x5eed + SCOPE(ns, nw, nu);
#define LABEL(a) do { if ((a) >= 0 && map[a] < 0) { order[next] = (a); map[a] = next++; } } while (0)
    for (i = 0; i < nA; i++) { map[i] = -1; any |= A[i].graph; }
    for (i = 0; i < ns; i++) {
        int a = Sa[i];
        LABEL(a);
        h = vrt_mix(h, a < 0 ? 0 : (1 + map[a]) * 4 + A[a].noclr + 2 * A[a].selfweak);
    }
    for (i = 0; i < nw; i++) {
        int a = Wa[i];
        LABEL(a);
        h = vrt_mix(h, a < 0 ? 0 : (1 + map[a]) * 4 + (A[a].owners > 0) + 2 * A[a].selfweak);
    }
    for (i = 0; i < nu; i++) h = vrt_mix(h, Ua[i] >= 0 ? 1 + A[Ua[i]].noclr : 0);
    /* ownership graphs: the edges out of every labelled live graph block, in label order (blocks owned by embedded
     * pointers only get their label here); states without graph blocks keep the signature they always had */
    if (any) for (j = 0; j < next; j++) {
        const int a = order[j];
        h = vrt_mix(h, 0x6000 + A[a].noclr + 2 * A[a].selfweak + 4 * A[a].graph + 8 * (A[a].owners > 0));
        if (!A[a].graph || A[a].mem_freed) continue;
        h = vrt_mix(h, A[a].nchild);
        for (i = 0; i < A[a].nchild; i++) { const int c = A[a].child[i]; LABEL(c); h = vrt_mix(h, c < 0 ? 0 : 1 + map[c]); }
        { const int c = A[a].wother; LABEL(c); h = vrt_mix(h, c < 0 ? 0 : (1 + map[c]) * 2 + (A[c].owners > 0)); }
    }
#undef LABEL
    return h;
}
static int st_nontrivial(void)
{
    int i, n = 0;
    for (i = 0; i < ns; i++) n += Sa[i] >= 0;
    for (i = 0; i < nw; i++) n += Wa[i] >= 0;
    return n >= 2;
}
static struct vex model = { st_create, st_destroy, st_apply, st_sig, st_nontrivial, 0, NULL };

#define GCLOSURE_SIZE 108       /* graph block with 2 embedded owners */
static int build_alphabet(int s, int w, int u, int gr, uint32_t *al)
{
    int n = 0, i, j;
    for (i = 0; gr && i < s; i++) {
        al[n++] = OP(K_SALLOC, i, 0, GCLOSURE_SIZE);
        for (j = 0; j < s; j++) {
            al[n++] = OP(K_GWEAK, i, j, 0);
            if (i == j) continue;
            al[n++] = OP(K_GEMBED, i, j, 0); al[n++] = OP(K_GEMBED, i, j, 1);
            al[n++] = OP(K_GSWAP, i, j, 0); al[n++] = OP(K_GSWAP, i, j, 1);
            al[n++] = OP(K_GLOCK, i, j, 0);
        }
    }
    for (i = 0; i < s; i++) {
        al[n++] = OP(K_SALLOC, i, 0, 24);
        al[n++] = OP(K_SALLOC, i, 0, 25);       /* odd size: no clear callback */
        al[n++] = OP(K_SALLOC, i, 0, 26);       /* size % 4 == 2: memory holds a weak pointer to itself */
        al[n++] = OP(K_SALLOC, i, 0, 0);
        al[n++] = OP(K_SRESET, i, 0, 0);
        for (j = 0; j < s; j++) if (i != j) al[n++] = OP(K_SHARE, i, j, 0);
        for (j = i + 1; j < s; j++) al[n++] = OP(K_SSWAP, i, j, 0);
    }
    for (i = 0; i < w; i++) {
        al[n++] = OP(K_WRESET, i, 0, 0);
        for (j = 0; j < s; j++) { al[n++] = OP(K_WFROM, i, j, 0); al[n++] = OP(K_WLOCK, i, j, 0); }
        for (j = i + 1; j < w; j++) al[n++] = OP(K_WSWAP, i, j, 0);
    }
    for (i = 0; i < u; i++) {
        al[n++] = OP(K_UALLOC, i, 0, 16);
        al[n++] = OP(K_UALLOC, i, 0, 17);       /* odd size: no clear callback */
        al[n++] = OP(K_UALLOC, i, 0, 0);
        al[n++] = OP(K_URELEASE, i, 3, 0);
        al[n++] = OP(K_URELEASE, i, 0, 0);
        al[n++] = OP(K_URELEASE, i, 1, 0);
        al[n++] = OP(K_URELEASE, i, 2, 0);
        al[n++] = OP(K_URESET, i, 0, 0);
    }
    if (u > 1) al[n++] = OP(K_USWAP, 0, 0, 0);
    return n;
}

struct cscope { int s, w, u, depth, graph; };
static const struct cscope quick_scopes[] = {
    { 2, 1, 0, 7 }, { 2, 2, 0, 6 }, { 3, 1, 0, 6 }, { 3, 2, 0, 5 }, { 0, 0, 2, 8 }, { 2, 1, 1, 5 }, { 3, 3, 0, 5 },
    { 2, 0, 0, 7, 1 }, { 2, 1, 0, 6, 1 }, { 3, 0, 0, 5, 1 }, { 3, 1, 0, 4, 1 },
};
static const struct cscope thorough_scopes[] = {
    { 2, 1, 0, 10 }, { 2, 2, 0, 9 }, { 3, 1, 0, 9 }, { 3, 2, 0, 8 }, { 0, 0, 2, 12 }, { 2, 1, 1, 8 }, { 3, 3, 0, 7 }, { 3, 3, 2, 6 },
    { 2, 0, 0, 9, 1 }, { 2, 1, 0, 7, 1 }, { 3, 0, 0, 6, 1 }, { 3, 1, 0, 5, 1 },
};
static const struct cscope *scopes;
static int nscopes;

static void run_closure(int ci)
{
    const struct cscope *s = &scopes[ci];
    static uint32_t al[256];
    int n = build_alphabet(s->s, s->w, s->u, s->graph, al);
    struct vex_result r;
    vrt_case_note("closure/bounded-exhaustive: %d shared, %d weak, %d unique pointer objects%s, alphabet %d, depth <= %d",
                  s->s, s->w, s->u, s->graph ? " + ownership graphs (blocks embedding 2 owners and a weak pointer)" : "", n, s->depth);
    /* every new allocation is a fresh record, so the signature abstracts allocation identity;
     * depth-capped: this is the bounded-exhaustive sequence generator over the owner-set closure */
    use_macro = ci & 1;
    vex_closure(&model, SCOPE(s->s, s->w, s->u) | (s->graph ? SCOPE_G : 0), al, n, 3000000, s->depth, &r);
    if (s->graph) VRT_COUNT_N("closure.graph.states", r.states);
    VRT_COUNT_N("closure.states", r.states);
    VRT_COUNT_N("closure.transitions", r.transitions);
    VRT_MAX("max.closure.depth", r.maxdepth);
    if (r.closed) VRT_COUNT("closure.scopes-closed"); else VRT_COUNT("closure.scopes-depth-capped");
}

static void run_random(uint64_t idx)
{
    vrt_rng g;
    int i, nops = 40;
    uint32_t al[256];
    int n;
    vrt_rng_seed(&g, vrt_seed, 0xC05000 + idx);
    vrt_case_note("random history: 3 shared, 3 weak, 2 unique, blocks embedding 1-4 owners, %d ops", nops);
    use_macro = idx & 1;
    st_create(SCOPE(NS, NW, NU));
    n = build_alphabet(NS, NW, NU, 1, al);
    for (i = 0; i < nops; i++) {
        uint32_t op = al[vrt_below(&g, n)];
        if (OP_K(op) == K_SALLOC && OP_C(op) == GCLOSURE_SIZE) op = OP(K_SALLOC, OP_A(op), 0, 92 + 8 * vrt_below(&g, 16));     /* 1-4 embedded owners */
        else if (OP_K(op) == K_SALLOC && OP_C(op)) op = OP(K_SALLOC, OP_A(op), 0, 24 + vrt_below(&g, 200));      /* odd: no callback */
        else if (OP_K(op) == K_GEMBED || OP_K(op) == K_GSWAP) op = OP(OP_K(op), OP_A(op), OP_B(op), vrt_below(&g, NCH));
        st_apply(op, 1);
        if (nA >= RANDA - 2) break;
        vrt_sig(0, st_sig());
    }
    st_destroy();
    VRT_COUNT("random.histories");
}

/* one allocation with far more than 2^16 simultaneous owners: counters must not wrap */
#define NBIG 70000
static void run_big(uint64_t which)
{
    cstl_shared_ptr_t *X = vrt_alloc(sizeof(*X) * NBIG), first, probe;
    cstl_weak_ptr_t w;
    void *mem;
    int i, cleared = 0;
    vrt_case_note("big: one allocation shared by %d owners (%s)", NBIG, which ? "self-weak memory" : "plain");
    clear_hook_count = &cleared; cur_k = 0; yields = 0; yield_armed = 1;
    cstl_shared_ptr_init(&first); cstl_shared_ptr_init(&probe); cstl_weak_ptr_init(&w);
    VRT_OP1("shared_ptr.alloc", "size 64 (big case %ld)", which);
    cstl_shared_ptr_alloc(&first, 64, big_clr);
    mem = cstl_shared_ptr_get(&first);
    VRT_CHECK(mem != NULL, "memory.big.alloc", "allocation failed");
    *(uint32_t *)mem = MEMMAGIC;
    cstl_weak_ptr_from(&w, &first);
    for (i = 0; i < NBIG; i++) {
        cstl_shared_ptr_init(&X[i]);
        if ((i & 1023) == 0) VRT_OP1("shared_ptr.share", "owner #%ld", i);
        cstl_shared_ptr_share(&first, &X[i]);
        if (i >= 65530 && i <= 65540) {
            /* around 2^16 references: still shared, still lockable, still alive */
            VRT_CHECK(!cstl_shared_ptr_unique(&first), "memory.big.unique-with-many-owners", "unique() true with %d owners", i + 2);
            VRT_OP1("weak_ptr.lock", "with %ld owners", i + 2);
            cstl_weak_ptr_lock(&w, &probe);
            VRT_CHECK(cstl_shared_ptr_get(&probe) == mem, "memory.big.lock-failed-with-many-owners", "lock reports no owner with %d owners", i + 2);
            cstl_shared_ptr_reset(&probe);
            VRT_CHECK(cleared == 0, "memory.big.cleared-with-owners", "memory cleared while %d owners exist", i + 2);
        }
    }
    VRT_OP0("shared_ptr.reset", "first owner");
    cstl_shared_ptr_reset(&first);
    for (i = 0; i < NBIG; i++) {
        if ((i & 1023) == 0) VRT_OP1("shared_ptr.reset", "owner #%ld", i);
        VRT_CHECK(cleared == 0 && *(uint32_t *)mem == MEMMAGIC, "memory.big.cleared-with-owners", "memory cleared while %d owners exist", NBIG - i);
        cstl_shared_ptr_reset(&X[i]);
    }
    VRT_CHECK(cleared == 1, "memory.big.clear-count", "clear callback ran %d times for %d owners", cleared, NBIG + 1);
    cstl_weak_ptr_lock(&w, &probe);
    VRT_CHECK(cstl_shared_ptr_get(&probe) == NULL, "memory.big.lock-after-death", "lock produced an owner of dead memory");
    cstl_weak_ptr_reset(&w);
    VRT_CHECK(vrt_lib_live() == 0, "memory.big.leak", "%zu blocks live at the end", vrt_lib_live());
    vrt_free(X);
    clear_hook_count = NULL; yield_armed = 0;
    VRT_COUNT("big.cases");
    vrt_sig(0, 0xb16 + which);
}
/* ---- scripted ownership shapes, run through the same ops and the same exact-event oracle ---- */
static void must(uint32_t op)
{
    if (!st_apply(op, 1)) vrt_fail("harness.memory.shape-op-not-applicable", "scripted op %#x was not applicable", (unsigned)op);
}
/* chain: block k owns block k-1 ... owns block 0; S0 owns the head.  `which` 1: every block also holds a weak pointer
 * to the block that owns it, S2 co-owns a block in the middle, W0 watches a block that dies, W1 one that survives */
static void shape_chain(int which)
{
    static const int sizes[4] = { 100, 108, 116, 92 };          /* 1, 2, 3, 4 embedded owners */
    const int n = vrt_thorough ? (which ? 800 : 1000) : (which ? 300 : 400)      /* < MAXA, 3 events per block < MAXEV */;
    int k;
    vrt_case_note("chain of %d blocks each owning the next%s; the whole chain dies inside one reset", n,
                  which ? ", back-pointing weak references, a co-owner in the middle" : "");
    st_create(SCOPE(3, 2, 0) | SCOPE_G);
    for (k = 0; k < n; k++) {
        const int sz = sizes[k & 3];
        must(OP(K_SALLOC, 1, 0, sz));
        if (k > 0) {
            if (which) must(OP(K_GWEAK, 0, 1, 0));              /* old head -> weak reference to its owner-to-be */
            must(OP(K_GSWAP, 1, 0, k % GNCHILD(sz)));           /* new block takes over the only owner of the old head */
        }
        must(OP(K_SSWAP, 0, 1, 0));
        if (which && k == n / 2) must(OP(K_SHARE, 0, 2, 0));
        if (which && k == n / 4) must(OP(K_WFROM, 1, 0, 0));
        if (which && k == 3 * n / 4) must(OP(K_WFROM, 0, 0, 0));
    }
    vrt_sig(0, st_sig());
    must(OP(K_SRESET, 0, 0, 0));                                /* n (or n/2) nested destructions, innermost released first */
    if (which) {
        must(OP(K_WLOCK, 0, 1, 0));                             /* dead: empty */
        must(OP(K_WLOCK, 1, 1, 0));                             /* alive below the co-owner */
        must(OP(K_SRESET, 2, 0, 0));
    }
    st_destroy();
    VRT_COUNT("shape.chain"); VRT_MAX("max.shape.chain-length", n);
}
/* fan: a root with four embedded owners; two leaves are owned by the root alone (one of them holds a weak pointer to
 * the root), two have a co-owner outside */
static void shape_fan(void)
{
    vrt_case_note("fan: root owning 4 leaves, 2 of them exclusively");
    st_create(SCOPE(3, 2, 0) | SCOPE_G);
    must(OP(K_SALLOC, 0, 0, 92));
    must(OP(K_SALLOC, 1, 0, 24)); must(OP(K_GSWAP, 0, 1, 0));
    must(OP(K_SALLOC, 1, 0, 100)); must(OP(K_GWEAK, 1, 0, 0)); must(OP(K_WFROM, 0, 1, 0)); must(OP(K_GSWAP, 0, 1, 2));
    must(OP(K_SALLOC, 1, 0, 25)); must(OP(K_GEMBED, 0, 1, 1));
    must(OP(K_SALLOC, 2, 0, 26)); must(OP(K_GEMBED, 0, 2, 3));
    must(OP(K_WFROM, 1, 0, 0));
    vrt_sig(0, st_sig());
    must(OP(K_SRESET, 0, 0, 0));
    must(OP(K_WLOCK, 0, 0, 0)); must(OP(K_WLOCK, 1, 0, 0));
    st_destroy();
    VRT_COUNT("shape.fan");
}
/* diamond: root -> {left, right} -> bottom; `which` 1: S2 keeps co-owning the bottom */
static void shape_diamond(int which)
{
    vrt_case_note("diamond: root owns left and right, both own bottom%s", which ? ", bottom co-owned outside" : "");
    st_create(SCOPE(3, 1, 0) | SCOPE_G);
    must(OP(K_SALLOC, 2, 0, 100));                              /* bottom */
    must(OP(K_SALLOC, 0, 0, 108));                              /* root */
    must(OP(K_SALLOC, 1, 0, 116)); must(OP(K_GEMBED, 1, 2, 2)); must(OP(K_GSWAP, 0, 1, 0));        /* left */
    must(OP(K_SALLOC, 1, 0, 92)); must(OP(K_GEMBED, 1, 2, 0)); must(OP(K_GWEAK, 1, 0, 0)); must(OP(K_GSWAP, 0, 1, 1));   /* right */
    must(OP(K_WFROM, 0, 2, 0));
    if (!which) must(OP(K_SRESET, 2, 0, 0));
    vrt_sig(0, st_sig());
    must(OP(K_SRESET, 0, 0, 0));
    must(OP(K_WLOCK, 0, 1, 0));
    st_destroy();
    VRT_COUNT("shape.diamond");
}
#define NSHAPES 5
static void run_shape(uint64_t i)
{
    use_macro = (int)(i & 1);
    if (i < 2) shape_chain((int)i);
    else if (i == 2) shape_fan();
    else shape_diamond((int)(i - 3));
}
/* ---- long repetition over ONE allocation's lifetime ----
 * The big case holds 70 000 owners at once; here one allocation (kept alive by the single owner S0, or expired with only
 * weak references left) sees 70 000 (thorough 300 000) cycles of each kind of call that takes and gives back a reference:
 * hidden per-allocation state that advances per CALL (tickets, sequence/generation numbers, narrow or saturating
 * counters) passes 2^8 and 2^16 although the number of references never exceeds a handful.  Every call goes through
 * st_apply (exact clear/free event prediction, lock result), followed by get()/unique() of every shared pointer object;
 * the full audit (live block count, every record) runs at the start, around every power of two and at the end.
 * v & 1: expired; (v >> 1) % 3: 0 plain, 1 re-target (alloc onto the same pointer) every ~1000 cycles, 2 a crowd of 70 000
 * additional weak references to the same allocation exists meanwhile; v / 6: kind of managed memory. */
#define NREP 24                 /* {live, expired} x {plain, re-target, crowd} x 4 kinds of managed memory */
#define NREPPHASE 7
static int rep_full;
static int rep_checkpoint(uint64_t i, uint64_t n)       /* first cycles, 2^k - 1, 2^k, 2^k + 1, last cycles */
{
    return i < 4 || i + 2 >= n || (i & (i - 1)) == 0 || ((i + 1) & i) == 0 || ((i - 1) & (i - 2)) == 0;
}
static void rep_op(uint32_t op)
{
    if (!st_apply(op, 0)) vrt_fail("harness.memory.shape-op-not-applicable", "repetition op %#x was not applicable", (unsigned)op);
    if (rep_full) audit(); else audit_ptrs();
}
static void run_rep(uint64_t v)
{
    static const int sizes[4] = { 24, 25, 26, GCLOSURE_SIZE };     /* plain, no clear callback, self-weak, graph block */
    const int expired = (int)(v & 1), retarget = (int)(v >> 1) % 3 == 1, crowd = (int)(v >> 1) % 3 == 2;
    const uint64_t n = vrt_thorough ? 300000 : 70000;
    const uint64_t period = vrt_thorough ? 4000 : 1000;
    uint64_t i, tot = 0, next;
    cstl_weak_ptr_t *C = NULL;
    vrt_rng g;
    int p, m, sz;

    vrt_rng_seed(&g, vrt_seed, 0xC054E9 + v);
    sz = sizes[(v / 6) & 3];            /* every variant with every kind of managed memory */
    next = period / 2 + vrt_below(&g, (uint32_t)period);
    vrt_case_note("repetition: %llu cycles of each of %d kinds of call on one %s allocation of size %d%s%s",
                  (unsigned long long)n, NREPPHASE, expired ? "expired (weak references only)" : "live (one owner)", sz,
                  retarget ? ", re-targeted every ~1000 cycles" : "", crowd ? ", among a crowd of as many weak references" : "");
    use_macro = (int)(v >> 1) & 1;
    st_create(SCOPE(3, 3, 0) | SCOPE_G);
    rep_full = 1;
    /* W2 remembers an allocation that is gone: the weak reference whose lock must fail, every time */
    rep_op(OP(K_SALLOC, 2, 0, 24)); rep_op(OP(K_WFROM, 2, 2, 0)); rep_op(OP(K_SRESET, 2, 0, 0));
    rep_op(OP(K_SALLOC, 0, 0, sz)); rep_op(OP(K_WFROM, 0, 0, 0));
    m = Sa[0];
    if (crowd) {
        C = vrt_alloc(sizeof(*C) * n);
        memset(C, 0x77, sizeof(*C) * n);
        for (i = 0; i < n; i++) {
            cstl_weak_ptr_init(&C[i]);
            VRT_OP1("weak_ptr.from", "crowd member #%ld <- S0", i);
            nwant = 0; A[m].weaks++; cur_k = 0;
            call_begin();
            cstl_weak_ptr_from(&C[i], &S[0]);
            call_end("weak_ptr.from");
            if (rep_checkpoint(i, n)) audit(); else audit_ptrs();
            VRT_COUNT("rep.crowd.weak-references");
        }
    }
    if (expired) { rep_op(OP(K_WFROM, 1, 0, 0)); rep_op(OP(K_SRESET, 0, 0, 0)); }
    vrt_sig(0, vrt_mix(st_sig(), 0x4e9 + v));

    for (p = 0; p < NREPPHASE; p++) {
        for (i = 0; i < n; i++) {
            rep_full = rep_checkpoint(i, n);
            if (rep_full) VRT_COUNT("rep.checkpoints");
            switch (p) {
            case 0:     /* lock + reset of the lock result (expired: the lock fails and the reset finds nothing) */
                rep_op(OP(K_WLOCK, 0, 1, 0)); rep_op(OP(K_SRESET, 1, 0, 0));
                VRT_COUNT("rep.cycles.lock-reset");
                break;
            case 1:     /* failed lock of a weak reference whose allocation is gone */
                rep_op(OP(K_WLOCK, 2, 1, 0));
                VRT_COUNT("rep.cycles.failed-lock-of-expired");
                break;
            case 2:
                rep_op(OP(K_SHARE, 0, 1, 0)); rep_op(OP(K_SRESET, 1, 0, 0));
                VRT_COUNT("rep.cycles.share-reset");
                break;
            case 3:
                rep_op(OP(K_WFROM, 1, 0, 0)); rep_op(OP(K_WRESET, 1, 0, 0));
                VRT_COUNT("rep.cycles.weak-from-reset");
                break;
            case 4:     /* swap back and forth: owners, then weak references */
                rep_op(OP(K_SSWAP, 0, 1, 0)); rep_op(OP(K_SSWAP, 0, 1, 0));
                rep_op(OP(K_WSWAP, 0, 1, 0)); rep_op(OP(K_WSWAP, 0, 1, 0));
                VRT_COUNT("rep.cycles.swap-back-and-forth");
                break;
            case 5:     /* unique() polls: the first half with the owner as the only reference (true every time), then not */
                if (!expired && !crowd && (i == 0 || i == n / 2)) rep_op(i == 0 ? OP(K_WRESET, 0, 0, 0) : OP(K_WFROM, 0, 0, 0));
                VRT_OP1("shared_ptr.unique", "poll #%ld", i);
                audit_ptrs();
                if (Sa[0] >= 0 && A[Sa[0]].owners + A[Sa[0]].weaks == 1) VRT_COUNT("rep.polls.unique.true-on-the-only-reference");
                VRT_COUNT("rep.polls.unique");
                break;
            default:    /* interleaved mixture; S0 (live) / W0 (expired) keep the allocation and are only ever sources */
                switch (vrt_below(&g, 16)) {
                case 0: rep_op(OP(K_WLOCK, 0, 1, 0)); break;
                case 1: rep_op(OP(K_WLOCK, 0, 2, 0)); break;
                case 2: rep_op(OP(K_SHARE, 0, 1, 0)); break;
                case 3: rep_op(OP(K_SHARE, 1, 2, 0)); break;
                case 4: rep_op(OP(K_SHARE, 2, 1, 0)); break;
                case 5: rep_op(OP(K_SRESET, 1, 0, 0)); break;
                case 6: rep_op(OP(K_SRESET, 2, 0, 0)); break;
                case 7: rep_op(OP(K_WFROM, 1, 0, 0)); break;
                case 8: rep_op(OP(K_WFROM, 1, 1, 0)); break;
                case 9: rep_op(OP(K_WRESET, 1, 0, 0)); break;
                case 10: rep_op(OP(K_SSWAP, 1, 2, 0)); break;
                case 11: rep_op(OP(K_WSWAP, 0, 1, 0)); rep_op(OP(K_WSWAP, 0, 1, 0)); break;
                case 12: rep_op(OP(K_WLOCK, 2, 2, 0)); break;
                case 13: rep_op(OP(K_WLOCK, 1, 1, 0)); break;
                case 14: rep_op(OP(K_SSWAP, 0, 1, 0)); rep_op(OP(K_SSWAP, 0, 1, 0)); break;
                default: rep_op(OP(K_WLOCK, 1, 2, 0)); break;
                }
                VRT_COUNT("rep.cycles.mixture");
                break;
            }
            if (retarget && ++tot >= next) {
                /* alloc onto the pointer that (live variant) owns the allocation; the weak references follow */
                rep_full = 1;
                sz = sizes[vrt_below(&g, 4)];
                if (Sa[0] >= 0 && A[Sa[0]].owners == 1) VRT_COUNT("rep.retargets.over-the-last-owner");
                rep_op(OP(K_SALLOC, 0, 0, sz)); rep_op(OP(K_WFROM, 0, 0, 0));
                if (expired) { rep_op(OP(K_WFROM, 1, 0, 0)); rep_op(OP(K_SRESET, 0, 0, 0)); }
                next = tot + period / 2 + vrt_below(&g, (uint32_t)period);
                VRT_COUNT("rep.retargets");
            }
        }
        vrt_sig(0, vrt_mix(st_sig(), 0x4e90 + p));
    }
    rep_full = 1;
    if (crowd) {
        /* live variant: the crowd leaves first (nothing may happen), then the owner; expired variant: everything else
         * leaves first, the bookkeeping block goes with the last member of the crowd, not before */
        if (expired) {
            for (p = 0; p < 3; p++) { rep_op(OP(K_SRESET, p, 0, 0)); rep_op(OP(K_WRESET, p, 0, 0)); }
            VRT_CHECK(!A[m].book_freed && vrt_lib_block(A[m].book, NULL) != NULL, "memory.rep.bookkeeping-gone-with-weak-references-left",
                      "the bookkeeping block is gone although the crowd still refers to it");
        }
        for (i = 0; i < n; i++) {
            VRT_OP1("weak_ptr.reset", "crowd member #%ld", i);
            nwant = 0; callid++; mdepth = 0; cur_k = 0;
            model_drop_weak(m);
            call_begin();
            cstl_weak_ptr_reset(&C[i]);
            call_end("weak_ptr.reset");
            if (rep_checkpoint(i, n)) audit(); else audit_ptrs();
        }
        if (expired) VRT_CHECK(A[m].book_freed, "harness.memory.rep-model", "model: bookkeeping block should be gone with the last crowd member");
        vrt_free(C);
    }
    st_destroy();
    if (expired) VRT_COUNT("rep.cases.expired"); else VRT_COUNT("rep.cases.live");
    if (!retarget) VRT_MAX("max.rep.cycles-of-one-kind-on-one-allocation", n);
}
#define NBIGCASES 2
static uint64_t nrandom(void) { return vrt_thorough ? 800000 : 150000; }
static uint64_t ncases(void)
{
    if (vrt_thorough) { scopes = thorough_scopes; nscopes = sizeof(thorough_scopes) / sizeof(scopes[0]); }
    else { scopes = quick_scopes; nscopes = sizeof(quick_scopes) / sizeof(scopes[0]); }
    return nscopes + NBIGCASES + NSHAPES + NREP + nrandom();
}
static void run_case(uint64_t idx)
{
    if (idx < (uint64_t)nscopes) run_closure((int)idx);
    else if (idx < (uint64_t)nscopes + NBIGCASES) run_big(idx - nscopes);
    else if (idx < (uint64_t)nscopes + NBIGCASES + NSHAPES) run_shape(idx - nscopes - NBIGCASES);
    else if (idx < (uint64_t)nscopes + NBIGCASES + NSHAPES + NREP) run_rep(idx - nscopes - NBIGCASES - NSHAPES);
    else run_random(idx - nscopes - NBIGCASES - NSHAPES - NREP);
}
static void winit(void) { (void)ncases(); vrt_sig_name(0, "ownership-states"); }
static const char *const required[] = {
    "op.share", "op.lock.yields-owner", "op.lock.dead-yields-empty", "op.weak.reset.last-reference-after-owners",
    "op.swap.owners-of-different-allocations", "op.lock.into-last-owner-of-same", "op.share.into-owner-of-other",
    "model.last-owner-released", "model.bookkeeping-released", "event.clear.shared", "event.clear.unique",
    "op.unique.release.owning", "op.unique.release.one-out-parameter", "closure.states", "random.histories", "big.cases", "event.clear.reentrant-weak-reset",
    /* ownership graphs */
    "event.clear.graph", "graph.nested-destruction", "graph.drop.child-with-another-owner-survives", "graph.fan.some-children-die-some-survive",
    "graph.fan.several-children-die", "graph.diamond.destroyed-by-its-second-dying-parent", "graph.weak-to-dying-block-reset-inside-its-clear",
    "op.graph.move-in.only-owner-now-embedded", "op.graph.embed.over-last-owner", "op.graph.lock", "closure.graph.states",
    "shape.chain", "shape.fan", "shape.diamond",
    /* long repetition on one allocation */
    "rep.cases.live", "rep.cases.expired", "rep.cycles.lock-reset", "rep.cycles.failed-lock-of-expired", "rep.cycles.share-reset",
    "rep.cycles.weak-from-reset", "rep.cycles.swap-back-and-forth", "rep.polls.unique", "rep.polls.unique.true-on-the-only-reference",
    "rep.cycles.mixture", "rep.retargets", "rep.retargets.over-the-last-owner", "rep.checkpoints", "rep.crowd.weak-references",
    "max.rep.cycles-of-one-kind-on-one-allocation", NULL
};
static const struct vrt_harness H = { "memory", ncases, run_case, winit, NULL, required, 16 };
int main(int argc, char **argv) { return vrt_main(argc, argv, &H); }
