/*
 * C11 -- every sort algorithm returns a sorted permutation and the searches
 * agree with it (DESIGN.md section 3, C11).
 *
 * Entry points driven: cstl_raw_array_sort/search/find/reverse,
 * __cstl_vector_sort, cstl_vector_sort, __cstl_vector_reverse,
 * cstl_vector_reverse, cstl_vector_search, cstl_vector_find, cstl_swap.
 *
 * cases (see build_cases):
 *   LARGE   adversarial large inputs, one case per (pattern, selector, size, path)
 *   EXH     every array of length nlo..nhi over an A-value key alphabet,
 *           one case per (selector, size, path, n-range)
 *   TAPE    QUICK_R: every array (A = 3) x every tape of the first 3 rand() draws
 *   RANDOM  seeded random arrays / selectors / sizes / tapes
 *   SREF    self-referential small-buffer elements (comparison reads through a pointer stored inside the
 *           element, the caller's swap keeps it consistent): exhaustive small arrays + patterns
 * Search/find probes live in a separate object, in the searched array itself (every index in the small scopes),
 * in a different array with equal contents, in the caller's scratch element and one past the end of the searched
 * range (raw-array API only); see "where the probe lives".
 *
 * rand() is DEFINED here (overrides libc's): the first draws come from a tape
 * the generator controls, later ones from a fair private PRNG, so a tape can
 * never force non-termination that a real rand() could not.
 *
 * Records: key bytes (little endian, stored value 2k+2 so that odd values are
 * always absent) + tag bytes (original index) + filler derived from the tag.
 * Every movement of element bytes must go through the caller's swap function
 * and tmp belongs to that function: a shadow permutation follows the observed
 * swap calls (key *.moved-without-swap), and a third of the raw-array runs use
 * a swap function with its own scratch and tmp == NULL.
 * The library never dereferences elements itself: everything goes through the
 * comparison and swap callbacks, which validate every argument against
 * [arr, arr + count*size) U {scratch} U {probe} before touching it.
 */
#include "vrt.h"
static int nomem_case;
#define NM(stmt) do { if (nomem_case) vrt_fp_arm(NULL, 0, 1); stmt; if (nomem_case) { if (vrt_fp_ordinal() > 0) VRT_COUNT("nomem.requests-refused"); vrt_fp_disarm(); VRT_COUNT("nomem.calls"); } } while (0)
#include "cstl/array.h"
#include "cstl/vector.h"
#include <string.h>
#include <stdio.h>
#include <limits.h>

/* ------------------------------------------------------------------ */
/* selectors, sizes, paths                                              */
/* ------------------------------------------------------------------ */
enum { S_QUICK, S_QUICK_R, S_QUICK_M, S_HEAP, S_DEFAULT, S_OOR99, S_OORNEG3, S_OORBIG,
       S_SWEPT /* value set per sort from sweep_value(): "any out-of-range value" */,
       S_INLINE /* cstl_vector_sort(): inline, plain cstl_swap, vector path only */, NSEL };
static long selval[NSEL] = {
    CSTL_SORT_ALGORITHM_QUICK, CSTL_SORT_ALGORITHM_QUICK_R, CSTL_SORT_ALGORITHM_QUICK_M,
    CSTL_SORT_ALGORITHM_HEAP, CSTL_SORT_ALGORITHM_DEFAULT, 99, -3, 2897234, 4,
    CSTL_SORT_ALGORITHM_DEFAULT
};
static const char *const selname[NSEL] = {
    "quick", "quick_r", "quick_m", "heap", "default", "oor99", "oor-3", "oor2897234", "swept", "inline-default"
};
/* the selector sweep: every value in [-300, 700) (the named ones, the first values past the last named one,
 * everything around 2^7 and 2^8) and +-2^k, +-2^k+-1 for k = 9..31 (the selector is a 32-bit enum) */
#define NSWEEP_LIN 1000
#define NSWEEP (NSWEEP_LIN + 23 * 6)
static long sweep_value(uint32_t i)
{
    long k, v;
    if (i < NSWEEP_LIN) return (long)i - 300;
    i -= NSWEEP_LIN;
    k = 9 + i / 6; v = 1L << k;
    switch (i % 6) { case 0: return v; case 1: return v - 1; case 2: return v + 1; case 3: return -v; case 4: return -v + 1; default: return -v - 1; }
}
#define NSIZES 8
/* ... and elements past 256 and past 4096 bytes (memcpy path of cstl_swap, the vector's scratch slot as large as an element):
 * their own cases (C_BIG) with few elements; the key is not at offset 0 in most of these layouts (set_layout) */
#define NBIGSIZES 7
#define NALLSIZES (NSIZES + NBIGSIZES)
static const int SIZES[NALLSIZES] = { 1, 2, 4, 8, 3, 5, 16, 24, 257, 300, 511, 513, 1000, 4097, 5000 };
enum { P_ARRAY, P_VECTOR };
static const char *const pathname[2] = { "array", "vector" };
/* the same entry points driven with self-referential small-buffer elements (see the section further down) */
static const char *const sref_pathname[2] = { "array-selfref", "vector-selfref" };
static int sref_mode;

static int sel_ctr[NSEL], size_ctr[NALLSIZES], pat_ctr[16];

static int keybytes(int size) { return size >= 8 ? 4 : size >= 4 ? 2 : 1; }
static int tagbytes(int size) { int t = size - keybytes(size); return t > 4 ? 4 : t; }
/* number of distinct logical keys a record of this size can carry */
static uint32_t maxkeys(int size) { int kb = keybytes(size); return kb == 1 ? 127 : kb == 2 ? 32767 : 1000000000u; }
static uint32_t maxstored(int size) { int kb = keybytes(size); return kb == 1 ? 255 : kb == 2 ? 65535 : 0x7fffffffu; }
/* where key and tag live in a record of the current bench (bench_open): offset 0 / behind the key for the small sizes,
 * odd offsets, the last bytes of the element, on and behind the 256- and 4096-byte marks for the big ones */
static int g_koff, g_toff;
static void set_layout(int size)
{
    switch (size) {
    case 300:  g_koff = 7; break;
    case 511:  g_koff = 507; break;     /* the last four bytes */
    case 513:  g_koff = 254; break;     /* across the 256-byte mark */
    case 1000: g_koff = 501; break;
    case 4097: g_koff = 4093; break;    /* the last byte of the key is the only byte past 4096 */
    case 5000: g_koff = 4096; break;
    default:   g_koff = 0; break;       /* includes 257 */
    }
    g_toff = g_koff == 0 ? keybytes(size) : g_koff + 8 <= size ? g_koff + 4 : g_koff - 4;
}
static int unique_tags(int size, size_t n)
{
    int tb = tagbytes(size);
    return tb > 0 && (tb >= 4 || n <= ((size_t)1 << (8 * tb)));
}

/* ------------------------------------------------------------------ */
/* rand() interposition                                                 */
/* ------------------------------------------------------------------ */
static int tape[8], tape_n, tape_pos;
static vrt_rng rand_rng;
static uint64_t draws_tape, draws_prng;

int rand(void)
{
    if (tape_pos < tape_n) { draws_tape++; return tape[tape_pos++]; }
    draws_prng++;
    return (int)(vrt_next(&rand_rng) >> 33);    /* 0 .. 2^31-1, fair */
}

/* ------------------------------------------------------------------ */
/* monitor context for the callbacks                                    */
/* ------------------------------------------------------------------ */
static struct {
    const unsigned char *arr;
    size_t n, size, bytes;
    const unsigned char *scratch, *probe;
    uint64_t ncmp, nswap, budget;
    int kb, style;
    uint32_t *perm;     /* shadow: perm[i] = input index of the record the observed swaps put at slot i; slot n = scratch */
    const char *op;     /* sort / search / find / reverse */
    const char *path;   /* array / vector */
    const char *state;  /* selector name or n-class */
} X;

static char keybuf[192];
static const char *K(const char *oracle)
{
    snprintf(keybuf, sizeof(keybuf), "%s.%s.%s", oracle, X.path, X.state);
    return keybuf;
}
static const char *Kop(const char *what)
{
    snprintf(keybuf, sizeof(keybuf), "%s.%s.%s.%s", X.op, what, X.path, X.state);
    return keybuf;
}

static inline uint32_t get_key(const unsigned char *p, int kb)
{
    p += g_koff;
    if (kb == 1) return p[0];
    if (kb == 2) return (uint32_t)p[0] | (uint32_t)p[1] << 8;
    return (uint32_t)p[0] | (uint32_t)p[1] << 8 | (uint32_t)p[2] << 16 | (uint32_t)p[3] << 24;
}
static inline uint32_t get_tag(const unsigned char *p, int size)
{
    int tb = tagbytes(size), i;
    uint32_t t = 0;
    for (i = 0; i < tb; i++) t |= (uint32_t)p[g_toff + i] << (8 * i);
    return t;
}
static void put_rec(unsigned char *p, int size, uint32_t stored, uint32_t tag)
{
    int kb = keybytes(size), tb = tagbytes(size), i;
    /* every byte of the element depends on the tag (no period of 256 in the offset: blocks must not be interchangeable) */
    for (i = g_koff ? 0 : kb + tb; i < size; i++) p[i] = (unsigned char)(tag * 37u + (uint32_t)i * 101u + (uint32_t)(i >> 8) * 59u + 0x5bu);
    for (i = 0; i < kb; i++) p[g_koff + i] = (unsigned char)(stored >> (8 * i));
    for (i = 0; i < tb; i++) p[g_toff + i] = (unsigned char)(tag >> (8 * i));
}

/* 0 element of the array, 1 scratch, 2 probe, -1 outside, -2 inside but not on an element boundary */
static inline int where(const void *p)
{
    const unsigned char *q = p;
    if (q == NULL) return -1;
    if (q >= X.arr && q < X.arr + X.bytes) return ((size_t)(q - X.arr) % X.size == 0) ? 0 : -2;
    if (q == X.scratch) return 1;
    if (X.probe != NULL && q == X.probe) return 2;
    return -1;
}

/* every comparison, whatever the element type: budget, priv, both arguments confined */
static inline void cmp_args(const void *a, const void *b, void *priv)
{
    int wa, wb;
    if (++X.ncmp > X.budget)
        vrt_fail(Kop("budget-exceeded"), "%s of n=%zu did not finish within %llu comparisons (64*n*n+1024)",
                 X.op, X.n, (unsigned long long)X.budget);
    if (priv != (void *)&X) vrt_fail(Kop("cmp.priv"), "comparison called with priv %p", priv);
    wa = where(a); wb = where(b);
    if (wa < 0 || wb < 0)
        vrt_fail(Kop(wa == -2 || wb == -2 ? "cmp.arg-misaligned" : "cmp.arg-outside"),
                 "comparison #%llu called with (%+ld, %+ld) bytes relative to the array of %zu x %zu bytes "
                 "(neither scratch nor probe)", (unsigned long long)X.ncmp,
                 (long)((const unsigned char *)a - X.arr), (long)((const unsigned char *)b - X.arr), X.n, X.size);
}
static int cmp_rec(const void *a, const void *b, void *priv)
{
    uint32_t ka, kb;
    cmp_args(a, b, priv);
    ka = get_key(a, X.kb); kb = get_key(b, X.kb);
    if (X.style) return ka < kb ? INT_MIN : ka > kb ? INT_MAX : 0;
    return (ka > kb) - (ka < kb);
}

/* slot index of a swap argument: 0..n-1 element, n scratch, -1 outside, -2 misaligned */
#define SH_GARBAGE 0xffffffffu
static inline long slot(const void *p)
{
    const unsigned char *q = p;
    if (q == NULL) return -1;
    if (q >= X.arr && q < X.arr + X.bytes) {
        size_t off = (size_t)(q - X.arr), i = off / X.size;
        return i * X.size == off ? (long)i : -2;
    }
    if (q == X.scratch) return (long)X.n;
    return -1;
}
static void swap_args_fail(void *a, void *b, long ia, long ib)
{
    vrt_fail(Kop(ia == -2 || ib == -2 ? "swap.arg-misaligned" : "swap.arg-outside"),
             "swap #%llu called with (%+ld, %+ld) bytes relative to the array of %zu x %zu bytes",
             (unsigned long long)X.nswap, (long)((unsigned char *)a - X.arr),
             (long)((unsigned char *)b - X.arr), X.n, X.size);
}

/* validates, mirrors the exchange in the shadow permutation, then calls cstl_swap */
static void swap_rec(void *a, void *b, void *t, size_t len)
{
    long ia, ib, it;
    if (++X.nswap > X.budget)
        vrt_fail(Kop("swap-budget-exceeded"), "%s of n=%zu made more than %llu swaps", X.op, X.n,
                 (unsigned long long)X.budget);
    if (len != X.size) vrt_fail(Kop("swap.len"), "swap called with len %zu, element size %zu", len, X.size);
    ia = slot(a); ib = slot(b); it = slot(t);
    if (ia < 0 || ib < 0) swap_args_fail(a, b, ia, ib);
    if (it < 0)
        vrt_fail(Kop("swap.scratch-outside"), "swap scratch argument %+ld bytes relative to the array is neither "
                 "the scratch element nor an element", (long)((unsigned char *)t - X.arr));
    /* cstl_swap: *t = *a; *a = *b; *b = *t */
    X.perm[it] = X.perm[ia]; X.perm[ia] = X.perm[ib]; X.perm[ib] = X.perm[it];
    cstl_swap(a, b, t, len);
}

/* a caller swap with its own scratch: never looks at t (the raw-array entry points are then given
 * tmp == NULL: "scratch space to be used by the swap function", so the library must not touch it) */
static unsigned char privbuf[5008];
static void swap_priv(void *a, void *b, void *t, size_t len)
{
    long ia, ib;
    uint32_t pt;
    (void)t;
    if (++X.nswap > X.budget)
        vrt_fail(Kop("swap-budget-exceeded"), "%s of n=%zu made more than %llu swaps", X.op, X.n,
                 (unsigned long long)X.budget);
    if (len != X.size) vrt_fail(Kop("swap.len"), "swap called with len %zu, element size %zu", len, X.size);
    ia = slot(a); ib = slot(b);
    if (ia < 0 || ib < 0) swap_args_fail(a, b, ia, ib);
    pt = X.perm[ia]; X.perm[ia] = X.perm[ib]; X.perm[ib] = pt;
    memcpy(privbuf, a, len); memmove(a, b, len); memcpy(b, privbuf, len);
}

/* after a sort/reverse driven through one of the wrappers: every byte of every element must be where the
 * observed swap calls put it (start = content before the call) */
static void check_shadow(const unsigned char *before, const char *oracle)
{
    size_t i;
    for (i = 0; i < X.n; i++) {
        uint32_t from = X.perm[i];
        if (from == SH_GARBAGE || memcmp(X.arr + i * X.size, before + (size_t)from * X.size, X.size) != 0)
            vrt_fail(K(oracle), "n=%zu size=%zu: element %zu does not hold what the %llu observed swap calls put there "
                     "(record formerly at index %ld): the library moved element bytes without the caller's swap function",
                     X.n, X.size, i, (unsigned long long)X.nswap, from == SH_GARBAGE ? -1L : (long)from);
    }
}

/* ------------------------------------------------------------------ */
/* bench: exact-size blocks for one (n, size, path, cap)                */
/* ------------------------------------------------------------------ */
struct bench {
    size_t n, cap;
    int size, path;
    unsigned char *in;          /* harness copy of the input records */
    unsigned char *save;        /* snapshot (for reverse / unchanged checks) */
    unsigned char *seen;        /* n bytes */
    uint32_t *perm;             /* n + 1 entries */
    unsigned char *block;       /* raw path: the block arr points into */
    unsigned char *arr, *scratch, *probe;
    unsigned char *twin;        /* a different exact-size array that is given equal contents (probes living there); n <= TWIN_MAX */
    const unsigned char *ref;   /* the harness's own copy of the current array content (oracle of the located probes) ... */
    int refmirror;              /* ... read back to front (after a verified reverse) */
    const uint32_t *refkeys;    /* self-referential elements: the copy is a plain key table instead */
    struct cstl_vector v;
};
#define TWIN_MAX 4096
static int32_t hist[65536];

static void bench_open(struct bench *b, size_t n, int size, int path, size_t capextra)
{
    memset(b, 0, sizeof(*b));
    b->n = n; b->size = size; b->path = path; b->cap = n + capextra;
    set_layout(size);
    b->in = vrt_alloc(n * size);
    b->save = vrt_alloc(n * size);
    b->seen = vrt_alloc(n);
    b->perm = vrt_alloc((n + 1) * sizeof(*b->perm));
    b->probe = vrt_alloc(size);
    if (n >= 1 && n <= TWIN_MAX) b->twin = vrt_alloc(n * size);
    if (path == P_ARRAY) {
        if (n > 0) { b->block = vrt_alloc(n * size); b->arr = b->block; }
        else { b->block = vrt_alloc(size); b->arr = b->block + size; }  /* element 0 would be the red zone */
        b->scratch = vrt_alloc(size);
    } else {
        size_t bsz = 0;
        void *base;
        X.path = pathname[path]; X.state = "setup";
        cstl_vector_init(&b->v, size);
        VRT_OP1("vector.reserve", "%ld", b->cap);
        cstl_vector_reserve(&b->v, b->cap);
        VRT_CHECK(cstl_vector_capacity(&b->v) == b->cap, "vector.setup.reserve", "reserve(%zu) gave capacity %zu",
                  b->cap, cstl_vector_capacity(&b->v));
        VRT_OP1("vector.resize", "%ld", n);
        cstl_vector_resize(&b->v, n);
        VRT_CHECK(cstl_vector_size(&b->v) == n, "vector.setup.resize", "resize(%zu) gave size %zu", n,
                  cstl_vector_size(&b->v));
        b->arr = cstl_vector_data(&b->v);
        if (b->cap > 0) {
            base = vrt_lib_block(b->arr, &bsz);
            VRT_CHECK(base == (void *)b->arr && bsz == (b->cap + 1) * size, "vector.scratch-slot.not-in-block",
                      "vector block is %zu bytes for cap %zu x %d: no room for exactly one scratch slot", bsz, b->cap, size);
        }
        b->scratch = b->arr ? b->arr + b->cap * size : NULL;
    }
}
static void bench_close(struct bench *b)
{
    vrt_free(b->in); vrt_free(b->save); vrt_free(b->seen); vrt_free(b->perm); vrt_free(b->probe);
    if (b->twin) vrt_free(b->twin);
    if (b->path == P_ARRAY) { vrt_free(b->block); vrt_free(b->scratch); }
    else {
        VRT_OP0("vector.clear", "");
        cstl_vector_clear(&b->v);
    }
}

/* ------------------------------------------------------------------ */
/* one array through sort + searches + reverse                          */
/* ------------------------------------------------------------------ */
#define F_PREFIND 1     /* find probes on the unsorted input */
#define F_SEARCH  2     /* search + find probes on the sorted output */
#define F_REVERSE 4     /* reverse the output and check the mirror (+ find on it) */
#define F_SIG     8

struct probe { uint32_t stored; };
#define MAXPROBES 40

static void set_ctx(const struct bench *b, const char *op, const char *state, const unsigned char *probe)
{
    X.arr = b->arr; X.n = b->n; X.size = b->size; X.bytes = b->n * (size_t)b->size;
    X.scratch = b->scratch; X.probe = probe;
    X.ncmp = X.nswap = 0;
    X.budget = 64ull * b->n * b->n + 1024;
    X.kb = keybytes(b->size);
    X.op = op; X.path = sref_mode ? sref_pathname[b->path] : pathname[b->path]; X.state = state;
    X.perm = b->perm;
    vrt_state(state);
}
static void shadow_reset(const struct bench *b)
{
    size_t i;
    for (i = 0; i < b->n; i++) b->perm[i] = (uint32_t)i;
    b->perm[b->n] = SH_GARBAGE;
}
static const char *nclass(size_t n) { return n == 0 ? "empty" : n == 1 ? "single" : "many"; }

static void check_slack(const struct bench *b, const char *op)
{
    size_t i, lo = b->n * (size_t)b->size, hi = b->cap * (size_t)b->size;
    if (b->path != P_VECTOR || b->arr == NULL) return;
    for (i = lo; i < hi; i++)
        if (b->arr[i] != 0xc7) {
            X.op = op;
            vrt_fail(Kop("touched-outside"), "byte %zu of the vector block (slot %zu, between count %zu and cap %zu) "
                     "was modified", i, i / b->size, b->n, b->cap);
        }
}

/* the comparison function of the current element type (records or self-referential elements) */
static cstl_compare_func_t *cur_cmp = cmp_rec;

/* cnt != b->n (a prefix of the caller's array) only with the raw-array API */
static ssize_t do_find_at(struct bench *b, size_t cnt, const unsigned char *probe, uint32_t stored, int loc, size_t at)
{
    ssize_t r;
    if (b->path == P_ARRAY) {
        VRT_OP4("array.find", "n=%ld probe-key=%ld probe-location=%ld (0 separate, 1 element of the array, 2 element of an equal array, 3 scratch, 4 one past the end) at index %ld", cnt, stored, loc, at);
        NM(r = cstl_raw_array_find(b->arr, cnt, b->size, probe, cur_cmp, &X));
    } else {
        VRT_OP4("vector.find", "n=%ld probe-key=%ld probe-location=%ld (0 separate, 1 element of the array, 2 element of an equal array, 3 scratch, 4 one past the end) at index %ld", cnt, stored, loc, at);
        NM(r = cstl_vector_find(&b->v, probe, cur_cmp, &X));
    }
    return r;
}
static ssize_t do_search_at(struct bench *b, size_t cnt, const unsigned char *probe, uint32_t stored, int loc, size_t at)
{
    ssize_t r;
    if (b->path == P_ARRAY) {
        VRT_OP4("array.search", "n=%ld probe-key=%ld probe-location=%ld (0 separate, 1 element of the array, 2 element of an equal array, 3 scratch, 4 one past the end) at index %ld", cnt, stored, loc, at);
        NM(r = cstl_raw_array_search(b->arr, cnt, b->size, probe, cur_cmp, &X));
    } else {
        VRT_OP4("vector.search", "n=%ld probe-key=%ld probe-location=%ld (0 separate, 1 element of the array, 2 element of an equal array, 3 scratch, 4 one past the end) at index %ld", cnt, stored, loc, at);
        NM(r = cstl_vector_search(&b->v, probe, cur_cmp, &X));
    }
    return r;
}
static ssize_t do_find(struct bench *b, uint32_t stored) { return do_find_at(b, b->n, b->probe, stored, 0, 0); }
static ssize_t do_search(struct bench *b, uint32_t stored) { return do_search_at(b, b->n, b->probe, stored, 0, 0); }

/* find probe against the current array content; expected = first index by linear scan */
static void probe_find(struct bench *b, uint32_t stored, const char *what)
{
    size_t i;
    ssize_t exp = -1, r;
    int kb = keybytes(b->size), dup = 0;
    for (i = 0; i < b->n; i++)
        if (get_key(b->arr + i * b->size, kb) == stored) { if (exp < 0) exp = (ssize_t)i; else { dup = 1; break; } }
    put_rec(b->probe, b->size, stored, 0xffffffffu);
    set_ctx(b, "find", nclass(b->n), b->probe);
    r = do_find(b, stored);
    if (exp < 0) {
        VRT_CHECK(r == -1, K("find.false-positive"), "find(%s) of absent key %u in n=%zu returned %zd, expected -1",
                  what, stored, b->n, r);
        VRT_COUNT("find.absent");
    } else {
        VRT_CHECK(r != -1, K("find.false-negative"), "find(%s) of key %u present at index %zd returned -1 (n=%zu)",
                  what, stored, exp, b->n);
        VRT_CHECK(r >= 0 && (size_t)r < b->n, K("find.index-out-of-range"), "find(%s) returned %zd for n=%zu", what, r, b->n);
        VRT_CHECK(get_key(b->arr + r * b->size, kb) == stored, K("find.wrong-element"),
                  "find(%s) of key %u returned index %zd whose key is %u", what, stored, r, get_key(b->arr + r * b->size, kb));
        VRT_CHECK(r == exp, K("find.not-first"), "find(%s) of key %u returned index %zd, the first match is %zd (n=%zu)",
                  what, stored, r, exp, b->n);
        VRT_COUNT("find.present");
        if (dup) VRT_COUNT("find.present.first-of-several");
    }
}

/* search probe on the (verified) sorted array */
static void probe_search(struct bench *b, uint32_t stored)
{
    size_t lo = 0, hi = b->n;
    int kb = keybytes(b->size), exists;
    ssize_t r;
    while (lo < hi) {               /* own lower bound over the verified sorted output */
        size_t mid = lo + (hi - lo) / 2;
        if (get_key(b->arr + mid * b->size, kb) < stored) lo = mid + 1; else hi = mid;
    }
    exists = lo < b->n && get_key(b->arr + lo * b->size, kb) == stored;
    put_rec(b->probe, b->size, stored, 0xffffffffu);
    set_ctx(b, "search", nclass(b->n), b->probe);
    r = do_search(b, stored);
    if (!exists) {
        VRT_CHECK(r == -1, K("search.false-positive"), "search of absent key %u in sorted n=%zu returned %zd, expected -1",
                  stored, b->n, r);
        VRT_COUNT("search.absent");
        if (b->n == 0) VRT_COUNT("search.absent.empty-array");
        else if (lo == 0) VRT_COUNT("search.absent.below");
        else if (lo == b->n) VRT_COUNT("search.absent.above");
        else VRT_COUNT("search.absent.between");
    } else {
        VRT_CHECK(r != -1, K("search.false-negative"), "search of key %u present at index %zu of sorted n=%zu returned -1",
                  stored, lo, b->n);
        VRT_CHECK(r >= 0 && (size_t)r < b->n, K("search.index-out-of-range"), "search returned %zd for n=%zu", r, b->n);
        VRT_CHECK(get_key(b->arr + r * b->size, kb) == stored, K("search.wrong-element"),
                  "search of key %u returned index %zd whose key is %u", stored, r, get_key(b->arr + r * b->size, kb));
        VRT_COUNT("search.present");
        if (lo == 0) VRT_COUNT("search.present.first-element");
        if ((size_t)r == b->n - 1) VRT_COUNT("search.present.last-element");
    }
}

/* ------------------------------------------------------------------ */
/* where the probe lives                                                */
/* ------------------------------------------------------------------ */
/*
 * The "element to be found" is any object of the caller's: a separate one (the probes above), an element of the
 * searched array itself (index i: with equal elements below i, find must still answer the FIRST index and search may
 * answer any equal one), an element of a different array with equal contents, the caller's scratch element (raw-array
 * API; the vector's scratch slot and capacity slack are not the caller's), or the element one past the end of the
 * searched range inside a longer array the caller owns (raw-array API: the first n-1 elements are searched for
 * element n-1).  The expectation is the same linear scan as always, over the harness's own copy of the keys (b->ref /
 * b->refkeys), never over the memory the library was handed.
 */
enum { PL_SEPARATE, PL_ELEM, PL_TWIN, PL_SCRATCH, PL_PAST, NPL };
static const char *const plname[NPL] = { "separate-probe", "probe-in-array", "probe-in-equal-array", "probe-in-scratch", "probe-one-past-end" };
static int pl_ctr[NPL][2], pl_absent_ctr[NPL][2], pl_lower_ctr, pl_other_ctr, pl_sref_ctr;
static void (*cur_put)(unsigned char *e, int size, uint32_t stored, uint32_t tag) = put_rec;
static void (*cur_fix)(unsigned char *e);       /* makes a byte copy of an element a valid element at its new address */

static inline uint32_t refkey(const struct bench *b, size_t i)
{
    if (b->refmirror) i = b->n - 1 - i;
    return b->refkeys ? b->refkeys[i] : get_key(b->ref + i * b->size, keybytes(b->size));
}
static const char *Kpl(const char *op, const char *oracle, int pl)
{
    static char o[96];
    snprintf(o, sizeof(o), "%s.%s.%s", op, oracle, plname[pl]);
    return K(o);
}
static void twin_sync(struct bench *b)
{
    size_t i;
    memcpy(b->twin, b->arr, b->n * (size_t)b->size);
    if (cur_fix) for (i = 0; i < b->n; i++) cur_fix(b->twin + i * b->size);
}

/* one find (searching = 0) or binary search (1) for the key of element i (absent: the odd value above it) with the
 * probe living at pl */
static void probe_at(struct bench *b, int pl, size_t i, int absent, int searching)
{
    const size_t size = b->size;
    size_t cnt = b->n, j;
    const unsigned char *probe;
    const char *op = searching ? "search" : "find";
    uint32_t key;
    ssize_t exp = -1, r;

    if (pl == PL_PAST) { cnt = b->n - 1; i = cnt; }
    key = refkey(b, i) + (absent ? 1u : 0u);            /* stored keys are even: the odd ones are absent */
    switch (pl) {
    case PL_ELEM: case PL_PAST: probe = b->arr + i * size; break;
    case PL_TWIN: probe = b->twin + i * size; break;
    case PL_SCRATCH: cur_put(b->scratch, b->size, key, 0xfffffffeu); probe = b->scratch; break;
    default: cur_put(b->probe, b->size, key, 0xffffffffu); probe = b->probe; break;
    }
    for (j = 0; j < cnt; j++) if (refkey(b, j) == key) { exp = (ssize_t)j; break; }
    set_ctx(b, op, nclass(cnt), probe);
    X.n = cnt; X.bytes = cnt * size;
    r = searching ? do_search_at(b, cnt, probe, key, pl, i) : do_find_at(b, cnt, probe, key, pl, i);
    if (exp < 0) {
        VRT_CHECK(r == -1, Kpl(op, "false-positive", pl), "%s of absent key %u (%s, index %zu) in n=%zu returned %zd, expected -1",
                  op, key, plname[pl], i, cnt, r);
        vrt_ctr[pl_absent_ctr[pl][searching]]++;
    } else {
        VRT_CHECK(r != -1, Kpl(op, "false-negative", pl), "%s of key %u (%s, index %zu) present at index %zd returned -1 (n=%zu)",
                  op, key, plname[pl], i, exp, cnt);
        VRT_CHECK(r >= 0 && (size_t)r < cnt, Kpl(op, "index-out-of-range", pl), "%s (%s, index %zu) returned %zd for n=%zu",
                  op, plname[pl], i, r, cnt);
        VRT_CHECK(refkey(b, (size_t)r) == key, Kpl(op, "wrong-element", pl), "%s of key %u (%s, index %zu) returned index %zd whose key is %u",
                  op, key, plname[pl], i, r, refkey(b, (size_t)r));
        if (!searching)
            VRT_CHECK(r == exp, Kpl(op, "not-first", pl), "find of key %u (%s, index %zu) returned index %zd, the first match is %zd (n=%zu)",
                      key, plname[pl], i, r, exp, cnt);
        vrt_ctr[pl_ctr[pl][searching]]++;
        if (pl == PL_ELEM && !searching && (size_t)exp != i) vrt_ctr[pl_lower_ctr]++;
        if (pl == PL_ELEM && searching && (size_t)r != i) vrt_ctr[pl_other_ctr]++;
    }
    if (sref_mode) vrt_ctr[pl_sref_ctr]++;
}

/* level of effort */
#define F_LOC_ONE    16     /* one element of the array (sorted output only, every other array) */
#define F_LOC_FEW    32     /* one element of the array + sometimes one of the other homes, rotating */
#define F_LOC_EVERY  64     /* every element of the array + every other home */
#define F_LOC_LARGE  128    /* ends, middle, two arbitrary elements + every other home */
static void located_probes(struct bench *b, int sorted, int flags, uint64_t code)
{
    const size_t n = b->n;
    const uint64_t h0 = vrt_mix(0x10CA7ED, code), h = vrt_mix(h0, 2 * n + (size_t)sorted);
    size_t idx[5], i;
    int nidx = 0, k, s, homes = 0;
    if (n == 0 || !(flags & (F_LOC_ONE | F_LOC_FEW | F_LOC_EVERY | F_LOC_LARGE))) return;
    if (flags & F_LOC_EVERY) {
        for (i = 0; i < n; i++) for (s = 0; s <= sorted; s++) probe_at(b, PL_ELEM, i, 0, s);
        homes = 7;
    } else if (flags & F_LOC_LARGE) {
        idx[nidx++] = (h >> 8) % n; idx[nidx++] = n - 1;
        if (n <= 100000) { idx[nidx++] = 0; idx[nidx++] = n / 2; idx[nidx++] = (h >> 28) % n; }
        homes = 7;
    } else if (flags & F_LOC_FEW) {
        /* one element of the array in each phase, one other home in one of the two phases */
        idx[nidx++] = (h >> 8) % n;
        homes = (int)((h0 >> 40) & 1) == sorted ? 1 << (h0 >> 48) % 3 : 0;
    } else {
        if (!sorted || (h0 & 1)) return;
        idx[nidx++] = (h >> 8) % n;
    }
    for (k = 0; k < nidx; k++) for (s = 0; s <= sorted; s++) probe_at(b, PL_ELEM, idx[k], 0, s);
    i = (h >> 18) % n;
    if ((homes & 1) && b->twin) {
        twin_sync(b);
        for (s = 0; s <= sorted; s++) { probe_at(b, PL_TWIN, i, 0, s); if (homes == 7 && n > 1) probe_at(b, PL_TWIN, n - 1 - i, 0, s); }
    }
    if (b->path != P_ARRAY) return;         /* the vector API documents no storage of the caller's next to the elements */
    if (homes & 2)
        for (s = 0; s <= sorted; s++) { probe_at(b, PL_SCRATCH, i, 0, s); if (homes == 7) probe_at(b, PL_SCRATCH, n - 1 - i, 1, s); }
    if (homes & 4)
        for (s = 0; s <= sorted; s++) probe_at(b, PL_PAST, 0, 0, s);
}

static void cmp_evidence(size_t n, uint64_t ncmp)
{
    static int idc[16], idb[16], init;
    if (n <= 14) {
        if (!init) {
            int i;
            for (i = 0; i <= 14; i++) {
                char nm[48];
                snprintf(nm, sizeof(nm), "max.sort.cmp.n%02d", i); idc[i] = vrt_counter_id(nm);
                snprintf(nm, sizeof(nm), "max.sort.cmp-budget.n%02d", i); idb[i] = vrt_counter_id(nm);
            }
            init = 1;
        }
        if (ncmp > vrt_ctr[idc[n]]) vrt_ctr[idc[n]] = ncmp;
        vrt_ctr[idb[n]] = 64ull * n * n + 1024;
    } else {
        /* classes by power of two */
        char nm[64];
        int lg = 0;
        while (((size_t)2 << lg) <= n) lg++;
        snprintf(nm, sizeof(nm), "max.sort.cmp.n-lt-2pow%02d", lg + 1);
        vrt_max_dyn(nm, ncmp);
        snprintf(nm, sizeof(nm), "max.sort.cmp-permille-of-budget.n-lt-2pow%02d", lg + 1);
        vrt_max_dyn(nm, ncmp * 1000 / (64ull * n * n + 1024));
    }
}

/*
 * b->in holds the input records.  probes[] are stored key values to look for.
 */
static void run_array(struct bench *b, int selidx, const uint32_t *probes, int nprobes, int flags,
                      uint64_t keycode, uint64_t tapecode)
{
    const size_t n = b->n, size = b->size, bytes = n * size;
    const int kb = keybytes(b->size);
    /* one raw-array sort/reverse in three runs with a swap function that has its own scratch and tmp == NULL */
    const int nulltmp = b->path == P_ARRAY && (keycode ^ (keycode >> 5) ^ (keycode >> 11) ^ tapecode ^ (uint64_t)selidx ^ n) % 3 == 0;
    size_t i;
    int p;

    if (bytes) memcpy(b->arr, b->in, bytes);       /* n == 0: nothing is written */
    if (b->scratch) memset(b->scratch, 0xee, size);
    if (b->path == P_VECTOR && b->arr) memset(b->arr + bytes, 0xc7, (b->cap - n) * size);

    if ((flags & F_SIG) && n >= 2 && (b->path == P_ARRAY || selidx == S_INLINE)) {   /* the vector path repeats the same triples */
        uint64_t h = vrt_mix(vrt_mix(0xC11, selidx == S_SWEPT ? 0x1000 + (uint64_t)(uint32_t)selval[S_SWEPT] : (uint64_t)selidx), size);
        for (i = 0; i + 8 <= bytes; i += 8) { uint64_t w; memcpy(&w, b->in + i, 8); h = vrt_mix(h, w); }
        if (i < bytes) { uint64_t w = 0; memcpy(&w, b->in + i, bytes - i); h = vrt_mix(h, w); }
        vrt_sig(0, vrt_mix(h, n));
    }

    if (flags & F_PREFIND) {
        for (p = 0; p < nprobes; p++) probe_find(b, probes[p], "unsorted");
        b->ref = b->in; b->refmirror = 0;
        located_probes(b, 0, flags, keycode);
        VRT_CHECK(bytes == 0 || memcmp(b->arr, b->in, bytes) == 0, K("find.array-modified"), "find modified the array (n=%zu)", n);
    }

    /* ---- sort ---- */
    if (b->path == P_VECTOR && n >= 2 && (keycode ^ (keycode >> 7) ^ tapecode ^ n ^ (uint64_t)selidx) % 4 == 1) {
        /* The same vector object is sorted twice with the same function and priv.  Between the two sorts the caller
         * writes new contents through the data pointer it obtained BEFORE the first sort (still valid: nothing was
         * reallocated) and calls no accessor.  Whatever the object remembers about the first sort must not matter. */
        set_ctx(b, "sort", selname[selidx], NULL);
        shadow_reset(b);
        tape_pos = 0;
        VRT_OP2("vector.sort", "first of two sorts of one vector object, algo=%ld n=%ld", selval[selidx], n);
        if (selidx == S_INLINE) NM(cstl_vector_sort(&b->v, cmp_rec, &X));
        else NM(__cstl_vector_sort(&b->v, cmp_rec, &X, swap_rec, (cstl_sort_algorithm_t)selval[selidx]));
        memcpy(b->arr, b->in, bytes);
        VRT_COUNT("sort.second-sort-after-writing-through-retained-pointer");
    }
    set_ctx(b, "sort", selname[selidx], NULL);
    shadow_reset(b);
    tape_pos = 0;
    if (b->path == P_ARRAY && nulltmp) {
        X.scratch = NULL;
        VRT_OP4("array.sort", "(private swap, tmp=NULL) algo=%ld n=%ld keys=0x%lx tape=0x%lx", selval[selidx], n, keycode, tapecode);
        NM(cstl_raw_array_sort(b->arr, n, size, cmp_rec, &X, swap_priv, NULL, (cstl_sort_algorithm_t)selval[selidx]));
        VRT_COUNT("sort.null-scratch-with-private-swap");
    } else if (b->path == P_ARRAY) {
        VRT_OP4("array.sort", "algo=%ld n=%ld keys=0x%lx tape=0x%lx", selval[selidx], n, keycode, tapecode);
        NM(cstl_raw_array_sort(b->arr, n, size, cmp_rec, &X, swap_rec, b->scratch, (cstl_sort_algorithm_t)selval[selidx]));
    } else if (selidx == S_INLINE) {
        VRT_OP4("vector.sort-inline", "algo=%ld n=%ld keys=0x%lx tape=0x%lx", selval[selidx], n, keycode, tapecode);
        NM(cstl_vector_sort(&b->v, cmp_rec, &X));
    } else {
        VRT_OP4("vector.sort", "algo=%ld n=%ld keys=0x%lx tape=0x%lx", selval[selidx], n, keycode, tapecode);
        NM(__cstl_vector_sort(&b->v, cmp_rec, &X, swap_rec, (cstl_sort_algorithm_t)selval[selidx]));
    }
    vrt_ctr[sel_ctr[selidx]]++;
    VRT_COUNT_N("cmp.calls.sort", X.ncmp);
    VRT_COUNT_N("swap.calls.sort", X.nswap);
    cmp_evidence(n, X.ncmp);
    if (n == 0) VRT_COUNT("sort.count-0"); else if (n == 1) VRT_COUNT("sort.count-1");

    if (b->path == P_VECTOR) {
        VRT_CHECK(cstl_vector_size(&b->v) == n && cstl_vector_data(&b->v) == (void *)b->arr && cstl_vector_capacity(&b->v) == b->cap,
                  K("sort.vector-geometry-changed"), "sort changed the vector's base/size/capacity");
    }
    /* every element byte moved by the caller's swap function only (not observable with the inline API,
     * which hands cstl_swap itself to the library) */
    if (selidx != S_INLINE) {
        check_shadow(b->in, "sort.moved-without-swap");
        VRT_COUNT("sort.shadow-verified");
    }
    /* sorted under the comparator */
    for (i = 1; i < n; i++)
        if (get_key(b->arr + (i - 1) * size, kb) > get_key(b->arr + i * size, kb))
            vrt_fail(K("sort.unsorted"), "n=%zu size=%zu: key %u at index %zu precedes key %u", n, size,
                     get_key(b->arr + (i - 1) * size, kb), i - 1, get_key(b->arr + i * size, kb));
    /* byte-wise permutation of the input records */
    if (unique_tags(b->size, n)) {
        memset(b->seen, 0, n);
        for (i = 0; i < n; i++) {
            uint32_t t = get_tag(b->arr + i * size, b->size);
            if (t >= n || memcmp(b->arr + i * size, b->in + (size_t)t * size, size) != 0)
                vrt_fail(K("sort.not-permutation.foreign-record"), "n=%zu size=%zu: output record %zu is not byte-identical "
                         "to any input record (tag %u)", n, size, i, t);
            if (b->seen[t])
                vrt_fail(K("sort.not-permutation.duplicated"), "n=%zu size=%zu: input record %u appears twice in the output "
                         "(second time at %zu), another one is lost", n, size, t, i);
            b->seen[t] = 1;
        }
    } else {
        /* 1- or 2-byte records without unique tags: multiset equality */
        for (i = 0; i < n; i++) hist[size == 1 ? b->in[i] : (b->in[2 * i] | b->in[2 * i + 1] << 8)]++;
        for (i = 0; i < n; i++) {
            uint32_t w = size == 1 ? b->arr[i] : (uint32_t)(b->arr[2 * i] | b->arr[2 * i + 1] << 8);
            if (hist[w]-- == 0) {
                memset(hist, 0, sizeof(hist));
                vrt_fail(K("sort.not-permutation.multiset"), "n=%zu size=%zu: record value 0x%x occurs more often in the output "
                         "than in the input", n, size, w);
            }
        }
    }
    check_slack(b, "sort");
    VRT_COUNT("sort.verified");

    /* ---- searches on the sorted output ---- */
    if (flags & F_SEARCH) {
        if (bytes) memcpy(b->save, b->arr, bytes);
        for (p = 0; p < nprobes; p++) {
            probe_search(b, probes[p]);
            probe_find(b, probes[p], "sorted");
        }
        b->ref = b->save; b->refmirror = 0;
        located_probes(b, 1, flags, keycode ^ tapecode << 32);
        VRT_CHECK(bytes == 0 || memcmp(b->arr, b->save, bytes) == 0, K("search.array-modified"), "search/find modified the array (n=%zu)", n);
    }

    /* ---- reverse ---- */
    if (flags & F_REVERSE) {
        if (bytes) memcpy(b->save, b->arr, bytes);
        set_ctx(b, "reverse", nclass(n), NULL);
        shadow_reset(b);
        if (b->path == P_ARRAY && nulltmp) {
            X.scratch = NULL;
            VRT_OP1("array.reverse", "(private swap, tmp=NULL) n=%ld", n);
            NM(cstl_raw_array_reverse(b->arr, n, size, swap_priv, NULL));
            VRT_COUNT("reverse.null-scratch-with-private-swap");
        } else if (b->path == P_ARRAY) {
            VRT_OP1("array.reverse", "n=%ld", n);
            NM(cstl_raw_array_reverse(b->arr, n, size, swap_rec, b->scratch));
        } else if (selidx == S_INLINE) {
            VRT_OP1("vector.reverse-inline", "n=%ld", n);
            NM(cstl_vector_reverse(&b->v));
        } else {
            VRT_OP1("vector.reverse", "n=%ld", n);
            NM(__cstl_vector_reverse(&b->v, swap_rec));
        }
        if (selidx != S_INLINE) {
            check_shadow(b->save, "reverse.moved-without-swap");
            VRT_COUNT("reverse.shadow-verified");
        }
        for (i = 0; i < n; i++)
            if (memcmp(b->arr + i * size, b->save + (n - 1 - i) * size, size) != 0)
                vrt_fail(K("reverse.not-mirror"), "n=%zu size=%zu: element %zu after reverse is not the former element %zu",
                         n, size, i, n - 1 - i);
        check_slack(b, "reverse");
        VRT_COUNT("reverse.verified");
        if (n == 0) VRT_COUNT("reverse.count-0"); else if (n == 1) VRT_COUNT("reverse.count-1");
        else if (n & 1) VRT_COUNT("reverse.count-odd"); else VRT_COUNT("reverse.count-even");
        /* descending array: find must still give the first match */
        if (nprobes > 0) {
            probe_find(b, probes[(keycode + n) % nprobes], "reversed");
            VRT_COUNT("find.on-descending");
            const uint64_t hh = vrt_mix(keycode, n);
            if (n > 0 && ((flags & (F_LOC_EVERY | F_LOC_LARGE)) || ((flags & F_LOC_FEW) && (hh >> 40) % 4 == 0))) {
                b->ref = b->save; b->refmirror = 1;     /* the mirror was verified above */
                probe_at(b, PL_ELEM, (size_t)(hh % n), 0, 0);
                b->refmirror = 0;
                VRT_COUNT("find.on-descending.probe-in-array");
            }
        }
    }
}

/* ------------------------------------------------------------------ */
/* self-referential small-buffer elements                               */
/* ------------------------------------------------------------------ */
/*
 * An element carries a pointer to its key.  Short keys live in a buffer INSIDE the element and the pointer addresses
 * that buffer (small-buffer optimisation); the others live in a table of the caller's.  Such an element is valid only
 * at its own address: the caller's swap function moves the bytes and re-points the pointer of both elements (and of
 * the scratch element).  The comparison function reads the key through the pointer only, so whoever compares a
 * private byte copy of an element (a pivot saved in a local buffer, in the scratch element, anywhere) reads the
 * buffer of the slot the copy was taken FROM, whatever lives there by now; the monitor sees it directly because the
 * copy's pointer does not address the copy's own buffer (cmp.arg-not-an-element-in-place).
 * Two layouts: pointer first (16 bytes) and pointer in the middle (24 bytes).
 */
static const struct slay { int size, kp, tag, ext, buf, fill; } SLAY[2] = { { 16, 0, 8, 12, 13, -1 }, { 24, 8, 0, 4, 5, 16 } };
static const struct slay *SL = &SLAY[0];
static unsigned char *extkeys;      /* 2 bytes per slot: n element slots + 2 probe slots */
static size_t extkeys_n;

static void sref_fix(unsigned char *e)
{
    if (!e[SL->ext]) { unsigned char *p = e + SL->buf; memcpy(e + SL->kp, &p, sizeof(p)); }
}
static void sref_put(unsigned char *e, uint32_t key, uint32_t tag, int ext, size_t slot_)
{
    unsigned char *p;
    memset(e, 0, SL->size);
    memcpy(e + SL->tag, &tag, 4);
    e[SL->ext] = (unsigned char)ext;
    e[SL->buf + 2] = (unsigned char)(tag * 13u + 7u);
    if (ext) {
        p = extkeys + 2 * slot_;
        p[0] = (unsigned char)key; p[1] = (unsigned char)(key >> 8);
        e[SL->buf] = e[SL->buf + 1] = 0xdd;
    } else {
        p = e + SL->buf;
        p[0] = (unsigned char)key; p[1] = (unsigned char)(key >> 8);
    }
    memcpy(e + SL->kp, &p, sizeof(p));
    if (SL->fill >= 0) { uint64_t f = vrt_mix(0x5EF, tag); memcpy(e + SL->fill, &f, 8); }
}
/* probes (cur_put): the separate probe alternates between inline and external key */
static void sref_put_probe(unsigned char *e, int size, uint32_t key, uint32_t tag)
{
    (void)size;
    sref_put(e, key, tag, tag == 0xffffffffu && (key & 4) != 0, extkeys_n - 1 - (tag & 1));
}
/* is the object at e a valid element where it is?  (where() has confined e already) */
static inline int sref_valid(const unsigned char *e)
{
    const unsigned char *p;
    memcpy(&p, e + SL->kp, sizeof(p));
    if (e[SL->ext] == 0) return p == e + SL->buf;
    return e[SL->ext] == 1 && p >= extkeys && p < extkeys + 2 * extkeys_n && ((size_t)(p - extkeys) & 1) == 0;
}
static inline uint32_t sref_key(const void *v, int argno)
{
    const unsigned char *e = v, *p;
    if (!sref_valid(e))
        vrt_fail(Kop("cmp.arg-not-an-element-in-place"), "comparison #%llu: argument %d (%+ld bytes relative to the array) is not a valid "
                 "element at that address: its key pointer does not address its own buffer, i.e. it is a byte copy of an "
                 "element made without the caller's swap function", (unsigned long long)X.ncmp, argno,
                 (long)(e - X.arr));
    memcpy(&p, e + SL->kp, sizeof(p));
    return (uint32_t)p[0] | (uint32_t)p[1] << 8;
}
static int cmp_sref(const void *a, const void *b, void *priv)
{
    uint32_t ka, kb;
    cmp_args(a, b, priv);
    ka = sref_key(a, 1); kb = sref_key(b, 2);
    if (X.style) return ka < kb ? INT_MIN : ka > kb ? INT_MAX : 0;
    return (ka > kb) - (ka < kb);
}
static void swap_sref(void *a, void *b, void *t, size_t len)
{
    swap_rec(a, b, t, len);         /* validates, follows the exchange in the shadow, moves the bytes */
    sref_fix(a); sref_fix(b); sref_fix(t);
}
static void swap_sref_priv(void *a, void *b, void *t, size_t len)
{
    swap_priv(a, b, t, len);
    sref_fix(a); sref_fix(b);
}

static void sref_check_elem(const struct bench *b, size_t i, uint32_t tag, const uint32_t *keys, const unsigned char *ext,
                            const char *op)
{
    const unsigned char *e = b->arr + i * (size_t)SL->size, *p;
    uint64_t f = 0;
    uint32_t k = keys[tag];
    X.op = op;
    memcpy(&p, e + SL->kp, sizeof(p));
    if (SL->fill >= 0) memcpy(&f, e + SL->fill, 8);
    if (e[SL->ext] != ext[tag] || e[SL->buf + 2] != (unsigned char)(tag * 13u + 7u)
        || (SL->fill >= 0 && f != vrt_mix(0x5EF, tag))
        || (ext[tag] ? (e[SL->buf] != 0xdd || e[SL->buf + 1] != 0xdd) : (e[SL->buf] != (unsigned char)k || e[SL->buf + 1] != (unsigned char)(k >> 8))))
        vrt_fail(Kop("not-permutation.foreign-record"), "n=%zu: the payload of element %zu (tag %u) is not that of input element %u",
                 b->n, i, tag, tag);
    if (p != (ext[tag] ? extkeys + 2 * (size_t)tag : e + SL->buf))
        vrt_fail(Kop("element-not-valid-in-place"), "n=%zu: the key pointer of element %zu (tag %u) does not address its own %s: "
                 "the element was moved without the caller's swap function", b->n, i, tag, ext[tag] ? "table slot" : "buffer");
}

/* one array of self-referential elements through find, sort, search + find, reverse */
static void sref_run(struct bench *b, int selidx, const uint32_t *keys, const unsigned char *ext, uint32_t *skeys,
                     uint64_t code, int locflags)
{
    const size_t n = b->n, size = (size_t)SL->size, bytes = n * size;
    const uint64_t h = vrt_mix(vrt_mix(0x5EF0, code), (uint64_t)selidx * 64 + n);
    const int nulltmp = b->path == P_ARRAY && h % 3 == 0;
    size_t i;
    int s;

    for (i = 0; i < n; i++) {
        sref_put(b->arr + i * size, keys[i], (uint32_t)i, ext[i], i);
        if (ext[i]) VRT_COUNT("selfref.elements.external-key"); else VRT_COUNT("selfref.elements.inline-key");
    }
    if (b->scratch) memset(b->scratch, 0xee, size);
    if (b->path == P_VECTOR && b->arr) memset(b->arr + bytes, 0xc7, (b->cap - n) * size);
    if (n >= 2) {
        uint64_t g = vrt_mix(vrt_mix(0x5EF1, (uint64_t)selidx * 4 + (uint64_t)(SL - SLAY)), n);
        for (i = 0; i < n; i++) g = vrt_mix(g, (uint64_t)keys[i] * 2 + ext[i]);
        vrt_sig(0, g);
    }

    /* ---- find on the unsorted input ---- */
    b->refkeys = keys; b->refmirror = 0;
    if (n > 0) {
        probe_at(b, PL_SEPARATE, (size_t)((h >> 8) % n), 0, 0);
        probe_at(b, PL_SEPARATE, (size_t)((h >> 20) % n), 1, 0);
    }
    located_probes(b, 0, locflags, code);

    /* ---- sort ---- */
    set_ctx(b, "sort", selname[selidx], NULL);
    shadow_reset(b);
    tape_pos = 0;
    if (b->path == P_ARRAY && nulltmp) {
        X.scratch = NULL;
        VRT_OP3("array.sort", "(self-referential elements, private swap, tmp=NULL) algo=%ld n=%ld keys=0x%lx", selval[selidx], n, code);
        NM(cstl_raw_array_sort(b->arr, n, size, cmp_sref, &X, swap_sref_priv, NULL, (cstl_sort_algorithm_t)selval[selidx]));
        VRT_COUNT("selfref.sort.null-scratch-with-private-swap");
    } else if (b->path == P_ARRAY) {
        VRT_OP3("array.sort", "(self-referential elements) algo=%ld n=%ld keys=0x%lx", selval[selidx], n, code);
        NM(cstl_raw_array_sort(b->arr, n, size, cmp_sref, &X, swap_sref, b->scratch, (cstl_sort_algorithm_t)selval[selidx]));
        VRT_COUNT("selfref.sort.array-path");
    } else {
        VRT_OP3("vector.sort", "(self-referential elements) algo=%ld n=%ld keys=0x%lx", selval[selidx], n, code);
        NM(__cstl_vector_sort(&b->v, cmp_sref, &X, swap_sref, (cstl_sort_algorithm_t)selval[selidx]));
        VRT_COUNT("selfref.sort.vector-path");
        VRT_CHECK(cstl_vector_size(&b->v) == n && cstl_vector_data(&b->v) == (void *)b->arr && cstl_vector_capacity(&b->v) == b->cap,
                  K("sort.vector-geometry-changed"), "sort changed the vector's base/size/capacity");
    }
    VRT_COUNT_N("selfref.cmp.calls", X.ncmp);
    VRT_COUNT_N("selfref.swap.calls", X.nswap);
    memset(b->seen, 0, n);
    for (i = 0; i < n; i++) {
        uint32_t t;
        memcpy(&t, b->arr + i * size + SL->tag, 4);
        if (t >= n) vrt_fail(K("sort.not-permutation.foreign-record"), "n=%zu: output element %zu carries tag %u", n, i, t);
        if (b->seen[t]) vrt_fail(K("sort.not-permutation.duplicated"), "n=%zu: input element %u appears twice in the output", n, t);
        b->seen[t] = 1;
        if (X.perm[i] != t)
            vrt_fail(K("sort.moved-without-swap"), "n=%zu: element %zu holds input element %u, the %llu observed swap calls put %ld there",
                     n, i, t, (unsigned long long)X.nswap, X.perm[i] == SH_GARBAGE ? -1L : (long)X.perm[i]);
        sref_check_elem(b, i, t, keys, ext, "sort");
        skeys[i] = keys[t];
        if (i > 0 && skeys[i - 1] > skeys[i])
            vrt_fail(K("sort.unsorted"), "n=%zu: key %u at index %zu precedes key %u", n, skeys[i - 1], i - 1, skeys[i]);
    }
    check_slack(b, "sort");
    VRT_COUNT("selfref.sort.verified");

    /* ---- search + find on the sorted output ---- */
    if (bytes) memcpy(b->save, b->arr, bytes);
    b->refkeys = skeys;
    for (s = 0; s < 2 && n > 0; s++) {
        probe_at(b, PL_SEPARATE, (size_t)((h >> 30) % n), 0, s);
        probe_at(b, PL_SEPARATE, (size_t)((h >> 40) % n), 1, s);
    }
    if (n == 0) {
        /* nothing to take a key from: the probe is a fresh element */
        sref_put(b->probe, 6, 0xffffffffu, 0, 0);
        set_ctx(b, "search", "empty", b->probe);
        VRT_CHECK(do_search_at(b, 0, b->probe, 6, 0, 0) == -1, K("search.false-positive"), "search in an empty array found something");
        set_ctx(b, "find", "empty", b->probe);
        VRT_CHECK(do_find_at(b, 0, b->probe, 6, 0, 0) == -1, K("find.false-positive"), "find in an empty array found something");
    }
    located_probes(b, 1, locflags, code);
    VRT_CHECK(bytes == 0 || memcmp(b->arr, b->save, bytes) == 0, K("search.array-modified"), "search/find modified the array (n=%zu)", n);
    VRT_COUNT("selfref.search.verified");

    /* ---- reverse ---- */
    set_ctx(b, "reverse", nclass(n), NULL);
    shadow_reset(b);
    if (b->path == P_ARRAY && nulltmp) {
        X.scratch = NULL;
        VRT_OP1("array.reverse", "(self-referential elements, private swap, tmp=NULL) n=%ld", n);
        NM(cstl_raw_array_reverse(b->arr, n, size, swap_sref_priv, NULL));
    } else if (b->path == P_ARRAY) {
        VRT_OP1("array.reverse", "(self-referential elements) n=%ld", n);
        NM(cstl_raw_array_reverse(b->arr, n, size, swap_sref, b->scratch));
    } else {
        VRT_OP1("vector.reverse", "(self-referential elements) n=%ld", n);
        NM(__cstl_vector_reverse(&b->v, swap_sref));
    }
    for (i = 0; i < n; i++) {
        uint32_t t, was;
        memcpy(&t, b->arr + i * size + SL->tag, 4);
        memcpy(&was, b->save + (n - 1 - i) * size + SL->tag, 4);
        if (t != was) vrt_fail(K("reverse.not-mirror"), "n=%zu: element %zu after reverse is not the former element %zu", n, i, n - 1 - i);
        if (X.perm[i] != n - 1 - i) vrt_fail(K("reverse.moved-without-swap"), "n=%zu: element %zu was not put there by the observed swap calls", n, i);
        sref_check_elem(b, i, t, keys, ext, "reverse");
    }
    check_slack(b, "reverse");
    if (n > 0) {
        b->refmirror = 1;
        probe_at(b, PL_ELEM, (size_t)((h >> 50) % n), 0, 0);
        b->refmirror = 0;
    }
    VRT_COUNT("selfref.reverse.verified");
}

/* ------------------------------------------------------------------ */
/* case table                                                           */
/* ------------------------------------------------------------------ */
enum { C_LARGE, C_EXH, C_TAPE, C_RANDOM, C_SWEEP, C_DEEP, C_SREF, C_NEAR, C_BIG };
enum { PAT_SORTED, PAT_REVERSED, PAT_CONSTANT, PAT_TWO_RANDOM, PAT_TWO_ALT, PAT_ORGAN, PAT_VALLEY,
       PAT_SAWTOOTH, PAT_ROT1, PAT_RANDOM_TIES,
       /* nearly sorted with local disorder: every partitioning splits evenly (deepest balanced recursion) and the
        * work left at the bottom is NOT already sorted */
       PAT_PAIRS_SWAPPED, PAT_BLOCKS_REVERSED, PAT_LOCAL_SHUFFLE, NPAT };
static const char *const patname[NPAT] = {
    "sorted", "reversed", "constant", "two-valued-random", "two-valued-alternating", "organ-pipe", "valley",
    "sawtooth", "sorted-rotated-by-one", "random-many-ties", "neighbours-swapped", "blocks-of-8-reversed", "shuffled-within-blocks-of-16"
};
struct cdef {
    unsigned char kind, sel, sizeidx, path, A, nlo, nhi, pat;
    int d0;             /* TAPE: first draw, -1 = all */
    uint32_t ridx;      /* RANDOM: index */
};
static struct cdef *cases;
static uint64_t ncase;

static void add_case(struct cdef c)
{
    static uint64_t cap;
    if (ncase == cap) {
        uint64_t ncap = cap ? cap * 2 : 4096;
        struct cdef *nc = vrt_alloc(ncap * sizeof(*nc));
        if (cases) { memcpy(nc, cases, ncase * sizeof(*nc)); vrt_free(cases); }
        cases = nc; cap = ncap;
    }
    cases[ncase++] = c;
}

static int nrandom;
static size_t large_big, large_quad;

/* two of the eight element sizes (one typed-swap size, one memcpy size), rotating with the seed:
 * the algorithms never look at the size, only cstl_swap does, so the most expensive scopes are run
 * on two sizes per seed and on all sizes over the seeds */
static int size_in_rotation(int z) { return (z & 3) == (int)(vrt_seed & 3); }

static void add_exh(struct cdef c, int A, int nlo, int nhi)
{
    if (nlo > nhi) return;
    c.A = A; c.nlo = nlo; c.nhi = nhi;
    add_case(c);
}

static void build_cases(void)
{
    int s, z, p, pat, n, d;
    struct cdef c;
    if (cases) return;
    nrandom = vrt_thorough ? 12000 : 600;
    large_big = 50000; large_quad = 4096;
    /* large first: the longest cases */
    for (pat = 0; pat < NPAT; pat++) for (s = 0; s < NSEL; s++) for (z = 0; z < NSIZES; z++) for (p = 0; p < 2; p++) {
        if ((s == S_INLINE && p == P_ARRAY) || s == S_SWEPT) continue;
        memset(&c, 0, sizeof(c));
        c.kind = C_LARGE; c.pat = pat; c.sel = s; c.sizeidx = z; c.path = p;
        add_case(c);
    }
    /* almost sorted inputs: selector x path x group of shapes (0/1: ordered run + short/longer tail, 2: the others) */
    for (s = 0; s < NSEL; s++) for (p = 0; p < 2; p++) for (n = 0; n < 3; n++) {
        if ((s == S_INLINE && p == P_ARRAY) || s == S_SWEPT) continue;
        memset(&c, 0, sizeof(c));
        c.kind = C_NEAR; c.sel = s; c.path = p; c.A = n;
        add_case(c);
    }
    /* elements past 256 and 4096 bytes: size x selector x path */
    for (z = NSIZES; z < NALLSIZES; z++) for (s = 0; s < NSEL; s++) for (p = 0; p < 2; p++) {
        if ((s == S_INLINE && p == P_ARRAY) || s == S_SWEPT) continue;
        memset(&c, 0, sizeof(c));
        c.kind = C_BIG; c.sel = s; c.sizeidx = z; c.path = p;
        add_case(c);
    }
    /* exhaustive: the longest lengths alone, the rest lumped */
    for (s = 0; s < NSEL; s++) for (z = 0; z < NSIZES; z++) for (p = 0; p < 2; p++) {
        int rot = size_in_rotation(z);
        if ((s == S_INLINE && p == P_ARRAY) || s == S_SWEPT) continue;
        memset(&c, 0, sizeof(c));
        c.kind = C_EXH; c.sel = s; c.sizeidx = z; c.path = p;
        if (vrt_thorough) {
            if (rot) add_exh(c, 4, 9, 9);
            add_exh(c, 4, 8, 8);
            add_exh(c, 4, 0, 7);
            if (rot) add_exh(c, 3, 11, 11);
            add_exh(c, 3, 10, 10);
            add_exh(c, 3, 9, 9);
            add_exh(c, 2, 11, 14);
        } else {
            if (rot) add_exh(c, 4, 8, 8);
            add_exh(c, 4, 0, 7);
            if (rot) add_exh(c, 3, 9, 9);
            add_exh(c, 3, 8, 8);
            add_exh(c, 2, 9, 11);
        }
        add_exh(c, 1, 0, 14);
    }
    /* QUICK_R pivot tapes: every array x every tape of the first three draws */
    for (z = 0; z < NSIZES; z++) for (p = 0; p < 2; p++) {
        int rot = size_in_rotation(z);
        int n3 = vrt_thorough ? 8 : (rot ? 7 : 6);
        int n4 = vrt_thorough ? (rot ? 7 : 6) : (rot ? 6 : 5);
        memset(&c, 0, sizeof(c));
        c.kind = C_TAPE; c.sel = S_QUICK_R; c.sizeidx = z; c.path = p;
        for (n = n3; n >= 2; n--) {
            c.A = 3; c.nlo = c.nhi = n;
            if (n >= 6) for (d = 0; d < n; d++) { c.d0 = d; add_case(c); }
            else { c.d0 = -1; add_case(c); }
        }
        for (n = n4; n >= 2; n--) {
            c.A = 4; c.nlo = c.nhi = n;
            if (n >= 6) for (d = 0; d < n; d++) { c.d0 = d; add_case(c); }
            else { c.d0 = -1; add_case(c); }
        }
    }
    for (n = 0; n < nrandom; n++) {
        memset(&c, 0, sizeof(c));
        c.kind = C_RANDOM; c.ridx = n;
        add_case(c);
    }
    /* deep: the biggest arrays first in the queue would be better, but they are few */
    {
        static const int dsel[] = { S_QUICK_R, S_QUICK_M, S_HEAP, S_DEFAULT, S_OORBIG, S_INLINE };
        static const int dpat[] = { PAT_PAIRS_SWAPPED, PAT_BLOCKS_REVERSED, PAT_LOCAL_SHUFFLE, PAT_RANDOM_TIES, PAT_SORTED };
        int a, b2;
        for (a = 0; a < 6; a++) for (b2 = 0; b2 < 5; b2++) for (p = 0; p < 2; p++) {
            if (dsel[a] == S_INLINE && p == P_ARRAY) continue;
            if (!vrt_thorough && b2 >= 3 && (((unsigned)(a + b2 + p) + (unsigned)vrt_seed) & 3u) != 0) continue;
            memset(&c, 0, sizeof(c));
            c.kind = C_DEEP; c.sel = dsel[a]; c.pat = dpat[b2]; c.path = p;
            c.sizeidx = ((a + b2 + p) & 1) ? 3 : 6;       /* 8- and 16-byte records: 32-bit keys, unique tags */
            add_case(c);
        }
    }
    /* self-referential elements: selector x layout (A) x path */
    {
        static const int ssel[] = { S_QUICK, S_QUICK_R, S_QUICK_M, S_HEAP, S_DEFAULT, S_OOR99 };
        int a, l;
        for (a = 0; a < 6; a++) for (l = 0; l < 2; l++) for (p = 0; p < 2; p++) {
            memset(&c, 0, sizeof(c));
            c.kind = C_SREF; c.sel = ssel[a]; c.A = l; c.path = p;
            add_case(c);
        }
    }
    /* selector sweep: 16 selector values per case */
    for (n = 0; n < (NSWEEP + 15) / 16; n++) {
        memset(&c, 0, sizeof(c));
        c.kind = C_SWEEP; c.ridx = n;
        add_case(c);
    }
}

/* ------------------------------------------------------------------ */
/* exhaustive / tapes                                                   */
/* ------------------------------------------------------------------ */
static size_t capextra_for(size_t n, int s) { size_t r = (n + s) % 3; return r == 0 ? 0 : r == 1 ? 1 : 4; }

static int small_probes(int A, uint32_t *pr)
{
    int k, np = 0;
    pr[np++] = 1;                                       /* below everything */
    for (k = 0; k < A; k++) { pr[np++] = 2 * k + 2; pr[np++] = 2 * k + 3; }    /* alphabet value, odd value above it */
    return np;
}

static void run_exh(const struct cdef *c, uint64_t idx)
{
    struct bench b;
    const int size = SIZES[c->sizeidx];
    uint32_t pr[MAXPROBES];
    int np = small_probes(c->A, pr), n, i;
    uint64_t total, x;
    /* the probes before the sort and the reverse afterwards do not depend on the selector: the full set
     * (find on the unsorted input, every search/find probe, reverse, find on the reversed output) runs with
     * three selectors (different tie arrangements in the output), two rotating search+find probes with the others */
    const int full = c->sel == S_QUICK || c->sel == S_HEAP || c->sel == S_INLINE;

    vrt_case_note("exhaustive sel=%s(%ld) size=%d path=%s n=%d..%d alphabet=%d", selname[c->sel], selval[c->sel],
                  size, pathname[c->path], c->nlo, c->nhi, c->A);
    for (n = c->nlo; n <= c->nhi; n++) {
        bench_open(&b, n, size, c->path, capextra_for(n, c->sel));
        for (total = 1, i = 0; i < n; i++) total *= c->A;
        for (x = 0; x < total; x++) {
            uint64_t y = x, code = 0;
            for (i = 0; i < n; i++) {
                uint32_t k = y % c->A; y /= c->A;
                put_rec(b.in + (size_t)i * size, size, 2 * k + 2, i);
                code |= (uint64_t)k << (4 * i);
            }
            tape_n = 0;
            if (c->sel == S_QUICK_R) vrt_rng_seed(&rand_rng, vrt_seed, vrt_mix(idx, x));
            X.style = (int)((x ^ (x >> 3)) & 1);
            if (full) run_array(&b, c->sel, pr, np, F_PREFIND | F_SEARCH | F_REVERSE | F_SIG | (n <= 6 ? F_LOC_EVERY : F_LOC_FEW), code, 0);
            else run_array(&b, c->sel, pr + (x % (np - 1)), 2, F_SEARCH | F_SIG | F_LOC_ONE, code, 0);
            vrt_ctr[size_ctr[c->sizeidx]]++;
        }
        if (c->path == P_ARRAY) VRT_COUNT_N("arrays.exhaustive.array-path", total);
        else VRT_COUNT_N("arrays.exhaustive.vector-path", total);
        bench_close(&b);
    }
}

static void run_tape(const struct cdef *c, uint64_t idx)
{
    struct bench b;
    const int size = SIZES[c->sizeidx], n = c->nlo;
    uint64_t total, x;
    int i, d0, d1, d2;

    vrt_case_note("pivot tapes sel=quick_r size=%d path=%s n=%d alphabet=%d first-draw=%d (-1: all)", size,
                  pathname[c->path], n, c->A, c->d0);
    bench_open(&b, n, size, c->path, capextra_for(n, 1));
    for (total = 1, i = 0; i < n; i++) total *= c->A;
    for (x = 0; x < total; x++) {
        uint64_t y = x, code = 0;
        for (i = 0; i < n; i++) {
            uint32_t k = y % c->A; y /= c->A;
            put_rec(b.in + (size_t)i * size, size, 2 * k + 2, i);
            code |= (uint64_t)k << (4 * i);
        }
        for (d0 = (c->d0 < 0 ? 0 : c->d0); d0 < (c->d0 < 0 ? n : c->d0 + 1); d0++)
            for (d1 = 0; d1 < n; d1++) for (d2 = 0; d2 < n; d2++) {
                /* draws are reduced modulo the sub-array length by the library; every pivot
                 * index of the first three partitions is reachable from 0..n-1 */
                tape[0] = d0; tape[1] = d1; tape[2] = d2; tape_n = 3;
                vrt_rng_seed(&rand_rng, vrt_seed, vrt_mix(idx, x * 4096 + d0 * 256 + d1 * 16 + d2));
                X.style = (d1 ^ d2) & 1;
                run_array(&b, S_QUICK_R, NULL, 0, (d1 == 0 && d2 == 0 && d0 == (c->d0 < 0 ? 0 : c->d0)) ? F_SIG : 0, code,
                          (uint64_t)(3 | d0 << 4 | d1 << 8 | d2 << 12));
                VRT_COUNT("tape.pivot-tapes-enumerated");
                if (tape_pos == 3) VRT_COUNT("tape.fully-consumed");
            }
        /* the values above are what the CURRENT mapping (rand() % count) needs; the property speaks of
         * every pivot the variant can draw, so the extremes of rand()'s range are presented too: an
         * implementation that maps the draw differently (scaling, bias correction) must still stay in range */
        if (c->d0 <= 0) {
            static const int ext[] = { 2147483647, 2147483646, 1073741823, 1073741824, 2147483647 - 7 };
            int pos, e, fill;
            for (pos = 0; pos < 3; pos++) for (e = 0; e < (int)(sizeof(ext) / sizeof(ext[0])); e++) for (fill = 0; fill < 2; fill++) {
                tape[0] = tape[1] = tape[2] = fill ? (n > 0 ? n - 1 : 0) : 0;
                tape[pos] = ext[e]; tape_n = 3;
                vrt_rng_seed(&rand_rng, vrt_seed, vrt_mix(idx, x * 4096 + 4000 + pos * 16 + e * 2 + fill));
                X.style = e & 1;
                run_array(&b, S_QUICK_R, NULL, 0, 0, code, (uint64_t)(0xE | pos << 4 | e << 8 | fill << 12));
                VRT_COUNT("tape.extreme-rand-values");
            }
        }
    }
    vrt_ctr[size_ctr[c->sizeidx]] += total;
    bench_close(&b);
}

/* ------------------------------------------------------------------ */
/* large adversarial                                                    */
/* ------------------------------------------------------------------ */
static void fill_pattern(struct bench *b, int pat, vrt_rng *g, uint32_t *keys)
{
    const size_t n = b->n;
    const uint32_t maxk = maxkeys(b->size);
    uint32_t K1 = n < maxk ? (uint32_t)n : maxk;        /* distinct logical keys available */
    uint32_t period = 7 + vrt_below(g, 25), nties, c0, c1;
    size_t i;
    if (K1 == 0) K1 = 1;
    nties = 2 + vrt_below(g, K1 > 40 ? 39 : K1);
    if (nties > K1) nties = K1;
    if (period > K1) period = K1;
    c0 = vrt_below(g, K1); c1 = vrt_below(g, K1);
    if (c1 == c0) c1 = (c0 + 1) % K1;
    for (i = 0; i < n; i++) {
        uint64_t k;
        switch (pat) {
        case PAT_SORTED:     k = (uint64_t)i * K1 / n; break;
        case PAT_REVERSED:   k = (uint64_t)(n - 1 - i) * K1 / n; break;
        case PAT_CONSTANT:   k = c0; break;
        case PAT_TWO_RANDOM: k = vrt_below(g, 2) ? c0 : c1; break;
        case PAT_TWO_ALT:    k = (i & 1) ? c0 : c1; break;
        case PAT_ORGAN:      k = (uint64_t)(i < n / 2 ? i : n - 1 - i) * 2 * K1 / (n + 1); break;
        case PAT_VALLEY:     k = (uint64_t)(i < n / 2 ? n / 2 - i : i - n / 2) * 2 * K1 / (n + 2); break;
        case PAT_SAWTOOTH:   k = i % period; break;
        case PAT_ROT1:       k = (uint64_t)((i + 1) % n) * K1 / n; break;
        case PAT_PAIRS_SWAPPED:   k = (uint64_t)((i ^ 1) < n ? (i ^ 1) : i) * K1 / n; break;
        case PAT_BLOCKS_REVERSED: k = (uint64_t)(((i | 7) < n) ? ((i & ~(size_t)7) | (7 - (i & 7))) : i) * K1 / n; break;
        case PAT_LOCAL_SHUFFLE:   k = (uint64_t)(((i | 15) < n) ? ((i & ~(size_t)15) | ((i * 7 + 3) & 15)) : i) * K1 / n; break;
        default:             k = vrt_below(g, nties); break;
        }
        if (k >= K1) k = K1 - 1;
        keys[i] = 2 * (uint32_t)k + 2;
        put_rec(b->in + i * b->size, b->size, keys[i], (uint32_t)i);
    }
}

static int large_probes(const struct bench *b, const uint32_t *keys, vrt_rng *g, uint32_t *pr)
{
    int np = 0, i;
    const size_t n = b->n;
    uint32_t mn = UINT32_MAX, mx = 0;
    size_t j;
    pr[np++] = 1;
    pr[np++] = maxstored(b->size);
    if (n == 0) { pr[np++] = 2; return np; }
    for (j = 0; j < n; j++) { if (keys[j] < mn) mn = keys[j]; if (keys[j] > mx) mx = keys[j]; }
    pr[np++] = mn; pr[np++] = mn - 1; pr[np++] = mx; pr[np++] = mx + 1;
    pr[np++] = keys[0]; pr[np++] = keys[n - 1]; pr[np++] = keys[n / 2]; pr[np++] = keys[n / 2] + 1;
    for (i = 0; i < 4; i++) {
        uint32_t k = keys[vrt_below(g, (uint32_t)n)];
        pr[np++] = k; pr[np++] = k - 1;
    }
    if (mx - mn >= 4) { pr[np++] = mn + 2 * vrt_below(g, (mx - mn) / 2 + 1); }     /* even value, maybe absent */
    return np;
}

static void run_large_n(const struct cdef *c, uint64_t idx, size_t n, vrt_rng *g, int flags)
{
    struct bench b;
    uint32_t *keys, pr[MAXPROBES];
    int np, i;
    bench_open(&b, n, SIZES[c->sizeidx], c->path, capextra_for(n, c->sel));
    keys = vrt_alloc((n + 1) * sizeof(*keys));
    fill_pattern(&b, c->pat, g, keys);
    np = large_probes(&b, keys, g, pr);
    tape_n = (int)vrt_below(g, 4);
    for (i = 0; i < tape_n; i++) tape[i] = vrt_chance(g, 1, 2) ? (int)vrt_below(g, (uint32_t)n + 1) : vrt_chance(g, 1, 4) ? 2147483647 - (int)vrt_below(g, 2) : (int)(vrt_next(g) >> 33);
    if (vrt_chance(g, 1, 4) && tape_n > 0) tape[0] = (int)n - 1;       /* pivot = last element first */
    vrt_rng_seed(&rand_rng, vrt_seed, vrt_mix(idx, n));
    X.style = (int)vrt_below(g, 2);
    run_array(&b, c->sel, pr, np, flags, 0xF000 + c->pat, tape_n);
    vrt_free(keys);
    bench_close(&b);
    vrt_ctr[size_ctr[c->sizeidx]]++;
    vrt_ctr[pat_ctr[c->pat]]++;
    VRT_COUNT("arrays.large");
}

static void run_large(const struct cdef *c, uint64_t idx)
{
    static const size_t small_n[] = { 0, 1, 2, 3, 4, 5, 9, 16, 17, 31, 32, 33, 64, 100, 127, 128, 255, 256, 257, 511, 1000 };
    vrt_rng g;
    size_t i, nbig;
    const int ALLF = F_PREFIND | F_SEARCH | F_REVERSE | F_SIG | F_LOC_LARGE;
    int big, quadratic = c->sel != S_QUICK_R && c->sel != S_HEAP
                    && c->pat != PAT_CONSTANT && c->pat != PAT_RANDOM_TIES && c->pat != PAT_TWO_RANDOM && c->pat != PAT_TWO_ALT;
    vrt_rng_seed(&g, vrt_seed, 0xC11A000 + idx);
    if (c->kind == C_DEEP) {
        /* arrays of 2^19 .. 2^21 records: recursion/iteration depth, pending-work tables, counters past 2^16 .. 2^20 */
        const size_t n = (vrt_thorough ? ((size_t)1 << 21) : ((size_t)3 << 18)) + 37 + vrt_below(&g, 5);
        vrt_case_note("deep pattern=%s sel=%s(%ld) size=%d path=%s n=%zu", patname[c->pat], selname[c->sel], selval[c->sel], SIZES[c->sizeidx], pathname[c->path], n);
        run_large_n(c, idx, n, &g, F_SEARCH | F_SIG | F_LOC_LARGE);
        VRT_COUNT("arrays.deep");
        return;
    }
    nbig = quadratic ? large_quad : large_big;
    /* quick tier: the biggest lengths run in one case out of eight, rotating with the seed */
    vrt_case_note("large pattern=%s sel=%s(%ld) size=%d path=%s nmax=%zu%s", patname[c->pat], selname[c->sel],
                  selval[c->sel], SIZES[c->sizeidx], pathname[c->path], nbig, quadratic ? " (possibly quadratic: capped)" : "");
    for (i = 0; i < sizeof(small_n) / sizeof(small_n[0]); i++)
        run_large_n(c, idx, small_n[i], &g, ALLF);
    big = vrt_thorough || (int)((c->sizeidx + c->pat + c->sel + c->path + vrt_seed) % 8) == 0;
    if (quadratic) {
        run_large_n(c, idx, (vrt_thorough ? 2048 : 1024) + vrt_below(&g, 5) - 2, &g, ALLF);
        if (big) run_large_n(c, idx, nbig, &g, ALLF);
    } else {
        run_large_n(c, idx, 4096 + vrt_below(&g, 5) - 2, &g, ALLF);
        if (big) {
            run_large_n(c, idx, 20000 + vrt_below(&g, 1000), &g, ALLF);
            run_large_n(c, idx, nbig, &g, ALLF);
        }
    }
}

/* ------------------------------------------------------------------ */
/* seeded random arrays                                                 */
/* ------------------------------------------------------------------ */
static void run_random(const struct cdef *c, uint64_t idx)
{
    vrt_rng g;
    int rounds = 48, r;
    vrt_rng_seed(&g, vrt_seed, 0xC11B000 + c->ridx);
    vrt_case_note("random arrays #%u: %d arrays, random selector/size/path/alphabet/tape", c->ridx, rounds);
    for (r = 0; r < rounds; r++) {
        struct bench b;
        int sel = (int)vrt_below(&g, NSEL), z = (int)vrt_below(&g, NSIZES), path = (int)vrt_below(&g, 2);
        size_t n = vrt_chance(&g, 1, 8) ? vrt_below(&g, 3) : vrt_chance(&g, 1, 2) ? 2 + vrt_below(&g, 30) : 9 + vrt_below(&g, 400);
        uint32_t A, pr[MAXPROBES], *keys;
        int np, i;
        size_t j;
        if (sel == S_INLINE) path = P_VECTOR;
        if (sel == S_SWEPT) selval[S_SWEPT] = vrt_chance(&g, 1, 2) ? sweep_value(vrt_below(&g, NSWEEP)) : (long)(int32_t)vrt_next(&g);
        bench_open(&b, n, SIZES[z], path, vrt_below(&g, 4));
        keys = vrt_alloc((n + 1) * sizeof(*keys));
        switch (vrt_below(&g, 5)) {
        case 0: A = 1 + vrt_below(&g, 2); break;
        case 1: A = 2 + vrt_below(&g, 5); break;
        case 2: A = (uint32_t)n / 2 + 1; break;
        case 3: A = (uint32_t)n + 1; break;
        default: A = maxkeys(SIZES[z]); break;
        }
        if (A > maxkeys(SIZES[z])) A = maxkeys(SIZES[z]);
        for (j = 0; j < n; j++) {
            keys[j] = 2 * vrt_below(&g, A) + 2;
            put_rec(b.in + j * SIZES[z], SIZES[z], keys[j], (uint32_t)j);
        }
        np = large_probes(&b, keys, &g, pr);
        tape_n = (int)vrt_below(&g, 4);
        for (i = 0; i < tape_n; i++)
            tape[i] = vrt_chance(&g, 1, 3) ? (int)n - 1 : vrt_chance(&g, 1, 2) ? (int)vrt_below(&g, (uint32_t)n + 1) : vrt_chance(&g, 1, 4) ? 2147483647 - (int)vrt_below(&g, 2) : (int)(vrt_next(&g) >> 33);
        vrt_rng_seed(&rand_rng, vrt_seed, vrt_mix(idx, r));
        X.style = (int)vrt_below(&g, 2);
        run_array(&b, sel, pr, np, F_PREFIND | F_SEARCH | F_REVERSE | F_SIG | F_LOC_LARGE, 0xA000 + A, tape_n);
        vrt_free(keys);
        bench_close(&b);
        vrt_ctr[size_ctr[z]]++;
        VRT_COUNT("arrays.random");
    }
}

/* ------------------------------------------------------------------ */
/* selector sweep: "any out-of-range value"                              */
/* ------------------------------------------------------------------ */
static void run_sweep(const struct cdef *c, uint64_t idx)
{
    static const size_t NS[] = { 0, 1, 2, 3, 7, 20, 64 };
    vrt_rng g;
    uint32_t v;
    vrt_rng_seed(&g, vrt_seed, 0xC11C000 + c->ridx);
    vrt_case_note("selector sweep #%u: selector values %ld .. %ld, both paths", c->ridx, sweep_value(c->ridx * 16),
                  sweep_value(c->ridx * 16 + 15 < NSWEEP ? c->ridx * 16 + 15 : NSWEEP - 1));
    for (v = c->ridx * 16; v < c->ridx * 16 + 16 && v < NSWEEP; v++) {
        int path, k;
        selval[S_SWEPT] = sweep_value(v);
        for (path = 0; path < 2; path++) for (k = 0; k < (int)(sizeof(NS) / sizeof(NS[0])); k++) {
            struct bench b;
            size_t n = NS[k], j;
            int z = (int)((v + (uint32_t)k) % NSIZES);
            uint32_t A = k & 1 ? 3 : (uint32_t)n + 1, pr[MAXPROBES], *keys;
            int np;
            bench_open(&b, n, SIZES[z], path, (size_t)(k % 3));
            keys = vrt_alloc((n + 1) * sizeof(*keys));
            for (j = 0; j < n; j++) {
                keys[j] = 2 * vrt_below(&g, A) + 2;
                put_rec(b.in + j * SIZES[z], SIZES[z], keys[j], (uint32_t)j);
            }
            np = large_probes(&b, keys, &g, pr);
            tape_n = 0;
            vrt_rng_seed(&rand_rng, vrt_seed, vrt_mix(idx, v * 16 + (uint32_t)k));
            X.style = (int)(v & 1);
            run_array(&b, S_SWEPT, pr, np, F_SEARCH | F_SIG | F_LOC_LARGE, 0xB000 + A, (uint64_t)(selval[S_SWEPT] & 0xffff));
            vrt_free(keys);
            bench_close(&b);
            vrt_ctr[size_ctr[z]]++;
            VRT_COUNT("arrays.selector-sweep");
        }
        VRT_COUNT("sort.selector-values-swept");
        if (selval[S_SWEPT] < 0) VRT_COUNT("sort.selector-values-swept.negative");
        if (selval[S_SWEPT] > CSTL_SORT_ALGORITHM_HEAP) VRT_COUNT("sort.selector-values-swept.above-last-named");
    }
}

/* ------------------------------------------------------------------ */
/* self-referential elements                                            */
/* ------------------------------------------------------------------ */
static void run_sref(const struct cdef *c, uint64_t idx)
{
    static const size_t PN[] = { 16, 33, 100, 257, 1000 };
    const int nexh3 = vrt_thorough ? 8 : 6, nexh2 = vrt_thorough ? 12 : 9;
    uint32_t *keys, *skeys;
    unsigned char *ext;
    struct bench b;
    vrt_rng g;
    int n, i, pat, k;

    vrt_rng_seed(&g, vrt_seed, 0xC11D000 + idx);
    vrt_case_note("self-referential small-buffer elements: layout %d (%d bytes, key pointer at offset %d) sel=%s(%ld) path=%s",
                  c->A, SLAY[c->A].size, SLAY[c->A].kp, selname[c->sel], selval[c->sel], pathname[c->path]);
    sref_mode = 1; SL = &SLAY[c->A]; cur_cmp = cmp_sref; cur_put = sref_put_probe; cur_fix = sref_fix;
    keys = vrt_alloc(1004 * sizeof(*keys)); skeys = vrt_alloc(1004 * sizeof(*skeys)); ext = vrt_alloc(1004);
    /* every array over 3 keys up to length 6 (thorough 8), over 2 keys up to 9 (12): every index as the probe */
    for (n = 0; n <= nexh2; n++) {
        const int A = n <= nexh3 ? 3 : 2;
        uint64_t total = 1, x;
        for (i = 0; i < n; i++) total *= A;
        bench_open(&b, n, SL->size, c->path, capextra_for(n, c->sel));
        extkeys_n = (size_t)n + 2; extkeys = vrt_alloc(2 * extkeys_n);
        for (x = 0; x < total; x++) {
            uint64_t y = x;
            for (i = 0; i < n; i++) { keys[i] = 2 * (uint32_t)(y % A) + 2; y /= A; ext[i] = vrt_mix(x * 16 + i, n) % 4 == 0; }
            tape_n = n > 0 ? 1 : 0; tape[0] = (int)(vrt_mix(x, 0x7A9E) % (n > 0 ? n : 1));
            vrt_rng_seed(&rand_rng, vrt_seed, vrt_mix(idx, x * 16 + n));
            X.style = (int)((x ^ (x >> 2)) & 1);
            sref_run(&b, c->sel, keys, ext, skeys, x, n <= 7 ? F_LOC_EVERY : F_LOC_FEW);
            VRT_COUNT("selfref.arrays.exhaustive");
        }
        vrt_free(extkeys); extkeys = NULL;
        bench_close(&b);
    }
    /* patterns */
    for (k = 0; k < (int)(sizeof(PN) / sizeof(PN[0])); k++) for (pat = 0; pat < 7; pat++) {
        const size_t m = PN[k] + vrt_below(&g, 3);
        size_t j;
        bench_open(&b, m, SL->size, c->path, (size_t)(pat % 3));
        extkeys_n = m + 2; extkeys = vrt_alloc(2 * extkeys_n);
        for (j = 0; j < m; j++) {
            uint32_t v;
            switch (pat) {
            case 0: v = (uint32_t)j / 2; break;                                     /* sorted, pairs */
            case 1: v = (uint32_t)(m - 1 - j) / 2; break;                           /* reversed */
            case 2: v = 7; break;                                                   /* constant */
            case 3: v = (uint32_t)(j & 1); break;                                   /* two-valued alternating */
            case 4: v = (uint32_t)(j < m / 2 ? j : m - 1 - j); break;               /* organ pipe */
            case 5: v = vrt_below(&g, 5); break;                                    /* many ties */
            default: v = vrt_below(&g, 4 * (uint32_t)m); break;                     /* mostly distinct */
            }
            keys[j] = 2 * v + 2;
            ext[j] = vrt_below(&g, 4) == 0;
        }
        tape_n = (int)vrt_below(&g, 3);
        for (i = 0; i < tape_n; i++) tape[i] = vrt_chance(&g, 1, 2) ? (int)m - 1 : (int)vrt_below(&g, (uint32_t)m);
        vrt_rng_seed(&rand_rng, vrt_seed, vrt_mix(idx, 0x9000 + k * 8 + pat));
        X.style = (int)vrt_below(&g, 2);
        sref_run(&b, c->sel, keys, ext, skeys, 0x5000 + (uint64_t)pat, F_LOC_LARGE);
        VRT_COUNT("selfref.arrays.patterns");
        vrt_free(extkeys); extkeys = NULL;
        bench_close(&b);
    }
    vrt_free(keys); vrt_free(skeys); vrt_free(ext);
    sref_mode = 0; cur_cmp = cmp_rec; cur_put = put_rec; cur_fix = NULL;
}

/* ------------------------------------------------------------------ */
/* almost sorted inputs: the shapes a fast path would key on             */
/* ------------------------------------------------------------------ */
/*
 * An ordered run with a few arbitrary elements behind it (1..16; among them a new strict maximum / minimum of everything
 * before it in 2nd, 3rd or last trailing position, duplicates of the run's maximum, a tail of nothing but new maxima or
 * minima), a few arbitrary elements in front of it, an ordered run with k positions overwritten, two and three ordered
 * runs behind each other, an ordered run with one element moved far away; n = 64 .. 5000, every selector, both APIs.
 * Nothing here is specific to an implementation: these are the inputs "append a few and sort again" produces.
 */
enum { NS_TAIL, NS_FRONT, NS_OVERWRITE, NS_RUNS2, NS_RUNS3, NS_MOVED, NNS };
static const char *const nsname[NNS] = { "ordered-then-few-arbitrary", "few-arbitrary-then-ordered", "ordered-with-k-overwritten",
                                         "two-ordered-runs", "three-ordered-runs", "ordered-one-moved-far" };
enum { TV_RANDOM, TV_MAX_2ND, TV_MAX_3RD, TV_MAX_LAST, TV_MIN_2ND, TV_MIN_3RD, TV_MIN_LAST, TV_DUP_MAX, TV_ALL_MAX, TV_ALL_MIN, NTV };
static const char *const tvname[NTV] = { "arbitrary", "new-maximum-2nd", "new-maximum-3rd", "new-maximum-last", "new-minimum-2nd",
                                         "new-minimum-3rd", "new-minimum-last", "duplicates-of-maximum", "all-new-maxima", "all-new-minima" };
static int ns_ctr[NNS], tv_ctr[NTV];
#define NEAR_MARGIN 20u

/* non-decreasing logical keys over [lo, hi]: 0 evenly spread (strictly increasing where the range allows), 1 with stretches
 * of equal keys, 2 random steps */
static void ordered_run(uint32_t *k, size_t m, uint32_t lo, uint32_t hi, int mode, vrt_rng *g)
{
    uint32_t span = hi - lo + 1;
    size_t i;
    if (mode == 1 && span > m / 3 + 1) span = (uint32_t)(m / 3 + 1);
    if (mode == 2 && m > 0) {
        const uint32_t step = (uint32_t)(2 * (uint64_t)span / m) + 1;
        uint32_t v = lo + vrt_below(g, step);
        for (i = 0; i < m; i++) { if (v > hi) v = hi; k[i] = v; v += vrt_below(g, step); }
        return;
    }
    for (i = 0; i < m; i++) k[i] = lo + (uint32_t)((uint64_t)i * span / m);
}
/* an arbitrary key: equal to an element of the run, inside the run's range, or (wide) just outside it */
static uint32_t near_arb(vrt_rng *g, const uint32_t *run, size_t m, uint32_t lo, uint32_t hi, int wide)
{
    const uint32_t r = vrt_below(g, 8);
    if (r < 3 && m > 0) return run[vrt_below(g, (uint32_t)m)];
    if (wide && r == 3) return lo - 1 - vrt_below(g, 8);
    if (wide && r == 4) return hi + 1 + vrt_below(g, 8);
    return lo + vrt_below(g, hi - lo + 1);
}
static size_t near_boundary(vrt_rng *g, size_t from, size_t to)     /* in [from, to), often close to one of the ends */
{
    const size_t w = to - from;
    const uint32_t r = vrt_below(g, 3);
    if (w <= 1) return from;
    if (r == 0) return from + vrt_below(g, w < 16 ? (uint32_t)w : 16);
    if (r == 1) return to - 1 - vrt_below(g, w < 16 ? (uint32_t)w : 16);
    return from + vrt_below(g, (uint32_t)w);
}
static void near_fill(struct bench *b, int shape, int t, int tv, vrt_rng *g, uint32_t *k)
{
    const size_t n = b->n;
    uint32_t K1 = maxkeys(b->size), lo, hi, mx, mn;
    const int mode = (int)vrt_below(g, 3);
    size_t m, i, j, c1, c2;
    if (K1 > 8 * n + 64) K1 = (uint32_t)(8 * n + 64);
    lo = NEAR_MARGIN; hi = K1 - 1 - NEAR_MARGIN;
    switch (shape) {
    case NS_TAIL:
        m = n - (size_t)t;
        ordered_run(k, m, lo, hi, mode, g);
        mx = k[m - 1]; mn = k[0];
        for (j = 0; j < (size_t)t; j++) {
            uint32_t v = near_arb(g, k, m, lo, hi, 0);
            const size_t want = tv == TV_MAX_2ND || tv == TV_MIN_2ND ? 1 : tv == TV_MAX_3RD || tv == TV_MIN_3RD ? 2 : (size_t)t - 1;
            const int here = j == (want < (size_t)t ? want : (size_t)t - 1);
            switch (tv) {
            case TV_MAX_2ND: case TV_MAX_3RD: case TV_MAX_LAST: if (here) { v = mx + 1 + vrt_below(g, 3); VRT_COUNT("arrays.near-sorted.tail.new-strict-maximum"); } break;
            case TV_MIN_2ND: case TV_MIN_3RD: case TV_MIN_LAST: if (here) { v = mn - 1 - vrt_below(g, 3); VRT_COUNT("arrays.near-sorted.tail.new-strict-minimum"); } break;
            case TV_DUP_MAX: if (j + 1 == (size_t)t || vrt_chance(g, 1, 3)) { v = k[m - 1]; VRT_COUNT("arrays.near-sorted.tail.duplicate-of-maximum"); } break;
            case TV_ALL_MAX: v = mx + 1; break;
            case TV_ALL_MIN: v = mn - 1; break;
            default: break;
            }
            k[m + j] = v;
            if (v > mx) mx = v;
            if (v < mn) mn = v;
        }
        vrt_ctr[tv_ctr[tv]]++;
        if (t <= 8) VRT_COUNT("arrays.near-sorted.tail.len-1-8"); else VRT_COUNT("arrays.near-sorted.tail.len-9-16");
        break;
    case NS_FRONT:
        ordered_run(k + t, n - (size_t)t, lo, hi, mode, g);
        for (j = 0; j < (size_t)t; j++) k[j] = near_arb(g, k + t, n - (size_t)t, lo, hi, 1);
        break;
    case NS_OVERWRITE:
        ordered_run(k, n, lo, hi, mode, g);
        for (j = 0; j < (size_t)t; j++) {
            i = near_boundary(g, 0, n);
            k[i] = near_arb(g, k, n, lo, hi, 1);
        }
        break;
    case NS_RUNS2: case NS_RUNS3:
        c1 = near_boundary(g, 1, n);
        c2 = shape == NS_RUNS3 ? near_boundary(g, c1, n) : n;
        if (shape == NS_RUNS3 && c2 == c1) c2 = c1 + (n - c1) / 2;
        for (i = 0; i < 3; i++) {
            const size_t from = i == 0 ? 0 : i == 1 ? c1 : c2, to = i == 0 ? c1 : i == 1 ? c2 : n;
            uint32_t l2 = lo, h2 = hi;
            if (from >= to) continue;
            if (vrt_chance(g, 1, 2)) { l2 = lo + vrt_below(g, (hi - lo) / 2); h2 = l2 + vrt_below(g, hi - l2 + 1); }
            ordered_run(k + from, to - from, l2, h2, (int)vrt_below(g, 3), g);
        }
        break;
    default:    /* NS_MOVED: element i of an ordered run goes to position j, at least n/4 away */
        ordered_run(k, n, lo, hi, mode == 1 ? 0 : mode, g);
        i = vrt_below(g, (uint32_t)n);
        j = (i + n / 4 + vrt_below(g, (uint32_t)(n / 2))) % n;
        if (vrt_chance(g, 1, 4)) { i = vrt_chance(g, 1, 2) ? 0 : n - 1; j = n - 1 - i; }
        mx = k[i];
        if (i < j) memmove(k + i, k + i + 1, (j - i) * sizeof(*k)); else memmove(k + j + 1, k + j, (i - j) * sizeof(*k));
        k[j] = mx;
        break;
    }
    for (i = 0; i < n; i++) { k[i] = 2 * k[i] + 2; put_rec(b->in + i * b->size, b->size, k[i], (uint32_t)i); }
    vrt_ctr[ns_ctr[shape]]++;
}

static size_t near_n(vrt_rng *g, int quadratic, int biggest)
{
    static const size_t edge[] = { 64, 65, 100, 128, 255, 256, 257, 512, 1000, 1024, 2048, 4095, 4096, 4097, 5000 };
    uint32_t r = vrt_below(g, 16);
    size_t n;
    if (biggest) n = 4096 + vrt_below(g, 905);
    else if (quadratic) n = r < 12 ? 64 + vrt_below(g, 192) : r < 15 ? 256 + vrt_below(g, 768) : 1024 + vrt_below(g, 1024);
    else n = r < 8 ? 64 + vrt_below(g, 192) : r < 12 ? 256 + vrt_below(g, 768) : r < 15 ? 1024 + vrt_below(g, 3072) : 4096 + vrt_below(g, 905);
    if (vrt_chance(g, 1, 4)) {      /* the nearest round length */
        size_t e, best = edge[0];
        for (e = 0; e < sizeof(edge) / sizeof(edge[0]); e++) if (edge[e] <= n) best = edge[e];
        n = best;
    }
    return n;
}

static void run_near_one(const struct cdef *c, uint64_t idx, uint32_t serial, int shape, int t, int tv, vrt_rng *g, int biggest)
{
    /* the plain quicksort (first element as the pivot) is quadratic on every one of these shapes */
    const int quadratic = c->sel == S_QUICK;
    static const int zs[] = { 2, 3, 5, 6, 7, 3, 6, 0, 1, 4, 8, 9 };       /* mostly 16/32-bit keys; the 1-byte keys give runs full of ties */
    const int z = zs[vrt_below(g, 12)];
    size_t n = near_n(g, quadratic, biggest);
    struct bench b;
    uint32_t *keys, pr[MAXPROBES];
    int np, i;
    if (SIZES[z] > 256 && n > 600) n = 64 + n % 512;      /* the big elements with fewer of them */
    bench_open(&b, n, SIZES[z], c->path, capextra_for(n + serial, c->sel));
    keys = vrt_alloc((n + 1) * sizeof(*keys));
    near_fill(&b, shape, t, tv, g, keys);
    np = large_probes(&b, keys, g, pr);
    tape_n = (int)vrt_below(g, 3);
    for (i = 0; i < tape_n; i++) tape[i] = vrt_chance(g, 1, 2) ? (int)n - 1 - (int)vrt_below(g, 17) : (int)vrt_below(g, (uint32_t)n);
    vrt_rng_seed(&rand_rng, vrt_seed, vrt_mix(idx, serial));
    X.style = (int)vrt_below(g, 2);
    /* probes: smallest and largest key and their absent neighbours, first and last input key */
    run_array(&b, c->sel, pr + 2, np >= 8 ? 6 : np - 2, F_SEARCH | F_SIG | F_LOC_ONE | ((serial & 7) == 0 ? F_REVERSE : 0),
              0xE000000u | (uint64_t)shape << 16 | (uint64_t)tv << 8 | (uint64_t)t, (uint64_t)tape_n);
    vrt_free(keys);
    bench_close(&b);
    vrt_ctr[size_ctr[z]]++;
    VRT_COUNT("arrays.near-sorted");
    if (n < 256) VRT_COUNT("arrays.near-sorted.n-0064-0255"); else if (n < 1024) VRT_COUNT("arrays.near-sorted.n-0256-1023");
    else if (n < 4096) VRT_COUNT("arrays.near-sorted.n-1024-4095"); else VRT_COUNT("arrays.near-sorted.n-4096-5000");
}

/* c->A: 0 tails of 1..8, 1 tails of 9..16, 2 the other shapes */
static void run_near(const struct cdef *c, uint64_t idx)
{
    const int rounds = vrt_thorough ? 4 : 1;
    uint32_t serial = 0;
    vrt_rng g;
    int r, t, tv, k;
    vrt_rng_seed(&g, vrt_seed, 0xC11E000 + idx);
    vrt_case_note("almost sorted inputs (%s) sel=%s(%ld) path=%s, n = 64 .. 5000, element size varies",
                  c->A == 0 ? "ordered run + 1..8 arbitrary elements" : c->A == 1 ? "ordered run + 9..16 arbitrary elements"
                  : "arbitrary elements in front, k overwritten, 2/3 runs, one moved far", selname[c->sel], selval[c->sel], pathname[c->path]);
    for (r = 0; r < rounds; r++) {
        if (c->A < 2) {
            for (t = 1 + 8 * c->A; t <= 8 + 8 * c->A; t++) for (tv = 0; tv < NTV; tv++)
                run_near_one(c, idx, serial++, NS_TAIL, t, tv, &g, r == 0 && t == 3 + 8 * c->A && tv == (int)((idx + vrt_seed) % NTV));
        } else {
            for (k = 1; k <= 8; k++) {
                run_near_one(c, idx, serial++, NS_FRONT, k, 0, &g, r == 0 && k == 2);
                run_near_one(c, idx, serial++, NS_OVERWRITE, k, 0, &g, r == 0 && k == 3);
                run_near_one(c, idx, serial++, NS_MOVED, 0, 0, &g, 0);
                if (k & 1) run_near_one(c, idx, serial++, NS_RUNS2, 0, 0, &g, r == 0 && k == 5);
                else run_near_one(c, idx, serial++, NS_RUNS3, 0, 0, &g, 0);
            }
        }
    }
}

/* ------------------------------------------------------------------ */
/* elements past 256 and past 4096 bytes                                */
/* ------------------------------------------------------------------ */
/*
 * Few elements, every selector, both APIs, full set of probes, reverse: the record carries its tag in every byte, the
 * key sits at an odd offset / at the end / on the 256- and 4096-byte marks (set_layout), the permutation oracle compares
 * whole elements, the shadow follows the caller's swap calls.  The vector's block must have room for exactly one scratch
 * slot of the element's size behind its capacity (bench_open), whatever the element size.
 */
static void run_big(const struct cdef *c, uint64_t idx)
{
    static const int pats[] = { PAT_RANDOM_TIES, PAT_SORTED, PAT_REVERSED, PAT_ORGAN, PAT_ROT1, PAT_TWO_RANDOM, PAT_PAIRS_SWAPPED };
    const int size = SIZES[c->sizeidx], nmaxx = size > 4096 ? 16 : 32;
    const int ALLF = F_PREFIND | F_SEARCH | F_REVERSE | F_SIG | F_LOC_LARGE;
    size_t ns[7];
    vrt_rng g;
    int a, i;
    vrt_rng_seed(&g, vrt_seed, 0xC11F000 + idx);
    vrt_case_note("big elements: size=%d (key at offset %d) sel=%s(%ld) path=%s", size, (set_layout(size), g_koff),
                  selname[c->sel], selval[c->sel], pathname[c->path]);
    ns[0] = vrt_below(&g, 2); ns[1] = 2; ns[2] = 3; ns[3] = 4 + vrt_below(&g, 5); ns[4] = 9 + vrt_below(&g, 8);
    ns[5] = 17 + vrt_below(&g, 16); ns[6] = 33 + vrt_below(&g, (uint32_t)nmaxx);
    for (a = 0; a < 7; a++) {
        struct bench b;
        const size_t n = ns[a];
        uint32_t *keys, pr[MAXPROBES];
        int np;
        bench_open(&b, n, size, c->path, capextra_for(n + (size_t)a, c->sel));
        keys = vrt_alloc((n + 1) * sizeof(*keys));
        if (a & 1) fill_pattern(&b, pats[vrt_below(&g, 7)], &g, keys);
        else {
            const uint32_t A = vrt_chance(&g, 1, 2) ? (uint32_t)n + 1 : 3;
            size_t j;
            for (j = 0; j < n; j++) { keys[j] = 2 * vrt_below(&g, A) + 2; put_rec(b.in + j * (size_t)size, size, keys[j], (uint32_t)j); }
        }
        np = large_probes(&b, keys, &g, pr);
        tape_n = (int)vrt_below(&g, 3);
        for (i = 0; i < tape_n; i++) tape[i] = vrt_chance(&g, 1, 2) ? (n > 0 ? (int)n - 1 : 0) : (int)vrt_below(&g, (uint32_t)n + 1);
        vrt_rng_seed(&rand_rng, vrt_seed, vrt_mix(idx, (uint64_t)a));
        X.style = (int)vrt_below(&g, 2);
        run_array(&b, c->sel, pr, np, ALLF, 0xD000 + (uint64_t)a, (uint64_t)tape_n);
        vrt_free(keys);
        bench_close(&b);
        vrt_ctr[size_ctr[c->sizeidx]]++;
        VRT_COUNT("arrays.big-elements");
        if (c->path == P_VECTOR) { if (size > 4096) VRT_COUNT("arrays.big-elements.vector.gt-4096"); else VRT_COUNT("arrays.big-elements.vector.gt-256"); }
        else { if (size > 4096) VRT_COUNT("arrays.big-elements.array.gt-4096"); else VRT_COUNT("arrays.big-elements.array.gt-256"); }
        if (g_koff != 0) VRT_COUNT("arrays.big-elements.key-not-at-offset-0");
    }
}

/* ------------------------------------------------------------------ */
static uint64_t ncases(void)
{
    build_cases();
    return ncase;
}
static void run_case(uint64_t idx)
{
    const struct cdef *c = &cases[idx];
    uint64_t t0 = draws_tape, p0 = draws_prng;
    sref_mode = 0; cur_cmp = cmp_rec; cur_put = put_rec; cur_fix = NULL;     /* a failed case leaves through longjmp */
    /* sorting, searching and reversing touch the array and the one scratch element only: in every second case these calls run with an
     * allocator that refuses everything (the vector's own set-up needs memory, so only the calls themselves: NM()) */
    nomem_case = (int)(idx & 1); if (nomem_case) VRT_COUNT("nomem.cases");
    switch (c->kind) {
    case C_LARGE: case C_DEEP: run_large(c, idx); break;
    case C_EXH:    run_exh(c, idx); break;
    case C_TAPE:   run_tape(c, idx); break;
    case C_SWEEP:  run_sweep(c, idx); break;
    case C_SREF:   run_sref(c, idx); break;
    case C_NEAR:   run_near(c, idx); break;
    case C_BIG:    run_big(c, idx); break;
    default:       run_random(c, idx); break;
    }
    nomem_case = 0;
    VRT_COUNT_N("rand.draws.from-tape", draws_tape - t0);
    VRT_COUNT_N("rand.draws.from-fair-prng", draws_prng - p0);
}
static void winit(void)
{
    int i;
    char nm[64];
    vrt_sig_name(0, "selector-size-input-triples");
    build_cases();
    for (i = 0; i < NSEL; i++) { snprintf(nm, sizeof(nm), "sort.selector.%s", selname[i]); sel_ctr[i] = vrt_counter_id(nm); }
    for (i = 0; i < NALLSIZES; i++) { snprintf(nm, sizeof(nm), "arrays.element-size.%02d", SIZES[i]); size_ctr[i] = vrt_counter_id(nm); }
    for (i = 0; i < NPAT; i++) { snprintf(nm, sizeof(nm), "arrays.large.%s", patname[i]); pat_ctr[i] = vrt_counter_id(nm); }
    for (i = 0; i < NPL; i++) {
        int s;
        for (s = 0; s < 2; s++) {
            snprintf(nm, sizeof(nm), "%s.%s", s ? "search" : "find", plname[i]); pl_ctr[i][s] = vrt_counter_id(nm);
            snprintf(nm, sizeof(nm), "%s.%s.absent", s ? "search" : "find", plname[i]); pl_absent_ctr[i][s] = vrt_counter_id(nm);
        }
    }
    for (i = 0; i < NNS; i++) { snprintf(nm, sizeof(nm), "arrays.near-sorted.%s", nsname[i]); ns_ctr[i] = vrt_counter_id(nm); }
    for (i = 0; i < NTV; i++) { snprintf(nm, sizeof(nm), "arrays.near-sorted.tail.%s", tvname[i]); tv_ctr[i] = vrt_counter_id(nm); }
    pl_lower_ctr = vrt_counter_id("find.probe-in-array.first-match-at-lower-index");
    pl_other_ctr = vrt_counter_id("search.probe-in-array.answer-is-another-index");
    pl_sref_ctr = vrt_counter_id("selfref.probes");
    vrt_rng_seed(&rand_rng, 0xC11, 0);
    X.path = "array"; X.state = "none"; X.op = "none";
}

static const char *const required[] = {
    "sort.selector.quick", "sort.selector.quick_r", "sort.selector.quick_m", "sort.selector.heap",
    "sort.selector.default", "sort.selector.oor99", "sort.selector.oor-3", "sort.selector.oor2897234",
    "sort.selector.inline-default", "sort.selector.swept", "sort.selector-values-swept",
    "sort.selector-values-swept.negative", "sort.selector-values-swept.above-last-named",
    "arrays.element-size.01", "arrays.element-size.02", "arrays.element-size.04", "arrays.element-size.08",
    "arrays.element-size.03", "arrays.element-size.05", "arrays.element-size.16", "arrays.element-size.24",
    "arrays.exhaustive.array-path", "arrays.exhaustive.vector-path", "arrays.large", "arrays.random", "arrays.deep",
    "arrays.large.neighbours-swapped", "arrays.large.blocks-of-8-reversed", "arrays.large.shuffled-within-blocks-of-16",
    "arrays.large.sorted", "arrays.large.reversed", "arrays.large.constant", "arrays.large.two-valued-random",
    "arrays.large.organ-pipe", "arrays.large.sawtooth", "arrays.large.random-many-ties",
    "tape.pivot-tapes-enumerated", "rand.draws.from-tape", "rand.draws.from-fair-prng",
    "sort.null-scratch-with-private-swap", "reverse.null-scratch-with-private-swap", "sort.shadow-verified",
    "sort.second-sort-after-writing-through-retained-pointer",
    "reverse.shadow-verified",
    "sort.verified", "sort.count-0", "sort.count-1", "cmp.calls.sort", "swap.calls.sort",
    "search.present", "search.absent", "search.absent.below", "search.absent.between", "search.absent.above",
    "search.absent.empty-array", "find.present", "find.present.first-of-several", "find.absent", "find.on-descending",
    "find.probe-in-array", "search.probe-in-array", "find.probe-in-array.first-match-at-lower-index",
    "search.probe-in-array.answer-is-another-index", "find.on-descending.probe-in-array",
    "find.probe-in-equal-array", "search.probe-in-equal-array", "find.probe-in-scratch", "search.probe-in-scratch",
    "find.probe-in-scratch.absent", "search.probe-in-scratch.absent",
    "find.probe-one-past-end", "search.probe-one-past-end", "find.probe-one-past-end.absent", "search.probe-one-past-end.absent",
    "selfref.sort.verified", "selfref.sort.array-path", "selfref.sort.vector-path", "selfref.sort.null-scratch-with-private-swap",
    "selfref.elements.inline-key", "selfref.elements.external-key", "selfref.cmp.calls", "selfref.swap.calls",
    "selfref.search.verified", "selfref.reverse.verified", "selfref.probes", "selfref.arrays.exhaustive", "selfref.arrays.patterns",
    "arrays.near-sorted", "arrays.near-sorted.ordered-then-few-arbitrary", "arrays.near-sorted.few-arbitrary-then-ordered",
    "arrays.near-sorted.ordered-with-k-overwritten", "arrays.near-sorted.two-ordered-runs", "arrays.near-sorted.three-ordered-runs",
    "arrays.near-sorted.ordered-one-moved-far", "arrays.near-sorted.tail.len-1-8", "arrays.near-sorted.tail.len-9-16",
    "arrays.near-sorted.tail.arbitrary", "arrays.near-sorted.tail.new-maximum-2nd", "arrays.near-sorted.tail.new-maximum-3rd",
    "arrays.near-sorted.tail.new-maximum-last", "arrays.near-sorted.tail.new-minimum-2nd", "arrays.near-sorted.tail.new-minimum-3rd",
    "arrays.near-sorted.tail.new-minimum-last", "arrays.near-sorted.tail.duplicates-of-maximum", "arrays.near-sorted.tail.all-new-maxima",
    "arrays.near-sorted.tail.all-new-minima", "arrays.near-sorted.tail.new-strict-maximum", "arrays.near-sorted.tail.new-strict-minimum",
    "arrays.near-sorted.tail.duplicate-of-maximum",
    "arrays.near-sorted.n-0064-0255", "arrays.near-sorted.n-0256-1023", "arrays.near-sorted.n-1024-4095", "arrays.near-sorted.n-4096-5000",
    "arrays.element-size.257", "arrays.element-size.300", "arrays.element-size.511", "arrays.element-size.513",
    "arrays.element-size.1000", "arrays.element-size.4097", "arrays.element-size.5000",
    "arrays.big-elements", "arrays.big-elements.array.gt-256", "arrays.big-elements.array.gt-4096",
    "arrays.big-elements.vector.gt-256", "arrays.big-elements.vector.gt-4096", "arrays.big-elements.key-not-at-offset-0",
    "reverse.verified", "reverse.count-0", "reverse.count-1", "reverse.count-odd", "reverse.count-even",
    NULL
};
static const struct vrt_harness H = { "sort", ncases, run_case, winit, NULL, required, 16 };

int main(int argc, char **argv) { return vrt_main(argc, argv, &H); }
