/*
 * huge.c -- element counts and byte counts past 2^31 and 2^32 (C09 vector, C10 string, C14 array, C11 search).
 *
 * The other harnesses keep every allocation below 64 MiB, so a count that is silently converted to int or
 * unsigned int somewhere inside the library (a loop counter, a helper's parameter, a midpoint) is invisible
 * to them.  Here a handful of fixed scenarios is run on objects that really are that large.  Built without
 * a sanitizer (config rel-huge: the library as shipped, -O2 -DNDEBUG) because the point is the arithmetic,
 * not red zones; the oracles are the harness's own: constructor/destructor call counts, addresses returned
 * by `at` against the live allocation recorded by the allocator interposition, full scans of the contents,
 * results of the C library on the same bytes.
 *
 * mode = vector | string | array | search.  A scenario that needs more memory than the machine has free
 * (MemAvailable) is skipped and counted as "huge.skipped.not-enough-memory"; nothing is concluded from it.
 */
#include "vrt.h"
#include <stdio.h>
#include <string.h>
#include <stdlib.h>
#include <stdint.h>
#include <wchar.h>
#include <sys/types.h>
#include <fcntl.h>
#include <unistd.h>
#include <time.h>
#include <cstl/vector.h>
#include <cstl/string.h>
#include <cstl/array.h>

#define G1 ((size_t)1 << 30)
#define P31 ((size_t)1 << 31)
#define P32 ((size_t)1 << 32)

static int mode;   /* 0 vector 1 string 2 array 3 search */
enum { M_VECTOR, M_STRING, M_ARRAY, M_SEARCH };

static size_t mem_available(void)
{
    char buf[2048], *p;
    size_t kb = 0;
    int fd = open("/proc/meminfo", O_RDONLY), r;
    if (fd < 0) return 0;
    r = (int)read(fd, buf, sizeof(buf) - 1);
    close(fd);
    if (r <= 0) return 0;
    buf[r] = 0;
    p = strstr(buf, "MemAvailable:");
    if (p != NULL) kb = strtoull(p + 13, NULL, 10);
    return kb * 1024;
}
/* the C library itself refused a request of the library under test (the machine cannot back it): the scenario
 * is skipped.  Anything else that keeps an object from reaching the requested size is a violation. */
static int refused_by_system(void)
{
    size_t i;
    for (i = 0; i < vrt_ev_n(); i++) if (vrt_ev(i)->failed) return 1;
    return 0;
}
#define SKIP_IF_REFUSED(cond_ok, key, ...) do { if (!(cond_ok)) { \
        if (refused_by_system()) { VRT_COUNT("huge.skipped.allocation-refused-by-system"); vrt_log("huge: the system refused the allocation: skipped\n"); return; } \
        vrt_fail(key, __VA_ARGS__); } } while (0)
/* At most two scenarios that really touch gigabytes run at any time on the machine, whatever number of checks,
 * corpus jobs or soaks is running: two lock files, taken for the rest of the worker's case (released when the
 * case ends).  Waiting costs no CPU time, so the hang detector is not concerned. */
#include <sys/file.h>
static int slot_fd = -1;
static void slot_release(void) { if (slot_fd >= 0) { close(slot_fd); slot_fd = -1; } }
static void slot_acquire(void)
{
    static const char *const names[2] = { "/tmp/verif-huge-slot0.lock", "/tmp/verif-huge-slot1.lock" };
    int k;
    if (slot_fd >= 0) return;
    for (;;) {
        for (k = 0; k < 2; k++) {
            int fd = open(names[k], O_CREAT | O_RDWR, 0666);
            if (fd < 0) continue;
            if (flock(fd, LOCK_EX | LOCK_NB) == 0) { slot_fd = fd; return; }
            close(fd);
        }
        { struct timespec ts = { 0, 200000000 }; nanosleep(&ts, NULL); }
    }
}
/* 1 when the scenario can run */
static int have(size_t bytes)
{
    if (bytes > G1) slot_acquire();
    if (mem_available() >= bytes + 6 * G1) return 1;
    VRT_COUNT("huge.skipped.not-enough-memory");
    vrt_log("huge: scenario needs %zu MiB, only %zu MiB available: skipped\n", bytes >> 20, mem_available() >> 20);
    return 0;
}

/* every byte of [p, p+n) equals c; returns the index of the first that does not, or n */
static size_t scan_bytes(const unsigned char *p, size_t n, unsigned char c)
{
    size_t i = 0;
    uint64_t w;
    memset(&w, c, 8);
    while (i < n && ((uintptr_t)(p + i) & 7)) { if (p[i] != c) return i; i++; }
    for (; i + 8 <= n; i += 8) if (*(const uint64_t *)(const void *)(p + i) != w) break;
    for (; i < n; i++) if (p[i] != c) return i;
    return n;
}
static size_t scan_u32(const uint32_t *p, size_t n, uint32_t c)
{
    size_t i;
    for (i = 0; i < n; i++) if (p[i] != c) return i;
    return n;
}

/* ------------------------------------------------------------------ */
/* vector                                                               */
/* ------------------------------------------------------------------ */
static uint64_t ncons, ndest, bad_xtor;
static int xt_cookie;
static void v_cons(void *e, void *p) { if (p != (void *)&xt_cookie) bad_xtor++; *(unsigned char *)e = 0xC1; ncons++; }
static void v_dest(void *e, void *p) { if (p != (void *)&xt_cookie || *(unsigned char *)e != 0xC1) bad_xtor++; *(unsigned char *)e = 0xDD; ndest++; }

static void check_vec_geometry(struct cstl_vector *v, size_t n, size_t esz, const char *after)
{
    size_t bsz = 0;
    unsigned char *base = cstl_vector_data(v);
    char key[96];
    snprintf(key, sizeof(key), "huge.vector.size.after-%s", after);
    VRT_CHECK(cstl_vector_size(v) == n, key, "size is %zu, expected %zu", cstl_vector_size(v), n);
    snprintf(key, sizeof(key), "huge.vector.capacity-below-size.after-%s", after);
    VRT_CHECK(cstl_vector_capacity(v) >= n, key, "capacity %zu < size %zu", cstl_vector_capacity(v), n);
    if (n == 0) return;
    snprintf(key, sizeof(key), "huge.vector.storage.after-%s", after);
    VRT_CHECK(base != NULL && vrt_lib_block(base, &bsz) == base && bsz / esz >= cstl_vector_capacity(v),
              key, "data() %p is not a live library block of at least capacity*size bytes (block %zu bytes, capacity %zu)",
              (void *)base, bsz, cstl_vector_capacity(v));
    {
        const size_t idx[] = { 0, 1, P31 - 1, P31, P31 + 1, P32 - 1, P32, P32 + 1, n - 1 };
        size_t k;
        snprintf(key, sizeof(key), "huge.vector.at.address.after-%s", after);
        for (k = 0; k < sizeof(idx) / sizeof(idx[0]); k++) if (idx[k] < n) {
            VRT_OP1("vector.at", "index %ld", (long)idx[k]);
            VRT_CHECK((unsigned char *)cstl_vector_at(v, idx[k]) == base + idx[k] * esz, key,
                      "at(%zu) is %p, expected base+%zu*%zu", idx[k], cstl_vector_at(v, idx[k]), idx[k], esz);
            VRT_COUNT("vector.at.in-range");
        }
        snprintf(key, sizeof(key), "huge.vector.at.no-abort.after-%s", after);
        VRT_OP1("vector.at", "index %ld (== size)", (long)n);
        VRT_CHECK(VRT_ABORTS((void)cstl_vector_at(v, n)), key, "at(size) returned");
        if (n < P32) { VRT_OP1("vector.at", "index %ld (size + 2^32)", (long)(n + P32)); VRT_CHECK(VRT_ABORTS((void)cstl_vector_at(v, n + P32)), key, "at(size + 2^32) returned"); }
        if (n > P32) { VRT_OP1("vector.at", "index %ld", (long)(n - P32)); (void)cstl_vector_at(v, n - P32); }
        VRT_COUNT("vector.at.out-of-range-aborted");
    }
}

static void vec_xtors(size_t n)
{
    struct cstl_vector v;
    size_t bad;
    if (!have(n + G1)) return;
    vrt_case_note("vector of 1-byte elements with constructor and destructor, %zu elements", n);
    memset(&v, 0x5a, sizeof(v));
    cstl_vector_init_complex(&v, 1, v_cons, v_dest, &xt_cookie);
    ncons = ndest = bad_xtor = 0;
    VRT_OP1("vector.reserve", "%ld", (long)n);
    vrt_ev_begin();
    cstl_vector_reserve(&v, n);
    SKIP_IF_REFUSED(cstl_vector_capacity(&v) >= n, "huge.vector.reserve", "capacity %zu after reserve(%zu) although no allocation failed", cstl_vector_capacity(&v), n);
    VRT_OP1("vector.resize", "grow 0 -> %ld", (long)n);
    cstl_vector_resize(&v, n);
    VRT_CHECK(ncons == n && ndest == 0, "huge.vector.resize.grow.constructor-calls", "growing by %zu elements ran %llu constructors, %llu destructors",
              n, (unsigned long long)ncons, (unsigned long long)ndest);
    check_vec_geometry(&v, n, 1, "grow");
    bad = scan_bytes(cstl_vector_data(&v), n, 0xC1);
    VRT_CHECK(bad == n, "huge.vector.resize.grow.element-not-constructed", "element %zu was not constructed", bad);
    VRT_COUNT("vector.elements-scanned");
    VRT_OP1("vector.resize", "shrink -> 5 (from %ld)", (long)n);
    cstl_vector_resize(&v, 5);
    VRT_CHECK(ndest == n - 5, "huge.vector.resize.shrink.destructor-calls", "shrinking by %zu elements ran %llu destructors", n - 5, (unsigned long long)ndest);
    check_vec_geometry(&v, 5, 1, "shrink");
    bad = scan_bytes((unsigned char *)cstl_vector_data(&v) + 5, n - 5, 0xDD);
    VRT_CHECK(bad == n - 5 && scan_bytes(cstl_vector_data(&v), 5, 0xC1) == 5, "huge.vector.resize.shrink.wrong-elements-destroyed",
              "element %zu was not destroyed, or one of the first five was", bad + 5);
    ncons = ndest = 0;
    VRT_OP1("vector.resize", "grow 5 -> %ld inside the capacity", (long)(n - 3));
    cstl_vector_resize(&v, n - 3);
    VRT_CHECK(ncons == n - 8, "huge.vector.resize.regrow.constructor-calls", "growing by %zu elements ran %llu constructors", n - 8, (unsigned long long)ncons);
    check_vec_geometry(&v, n - 3, 1, "regrow");
    VRT_OP0("vector.clear", "");
    cstl_vector_clear(&v);
    VRT_CHECK(ndest == n - 3, "huge.vector.clear.destructor-calls", "clear of %zu elements ran %llu destructors", n - 3, (unsigned long long)ndest);
    VRT_CHECK(cstl_vector_size(&v) == 0 && vrt_lib_live() == 0, "huge.vector.clear.state", "size %zu, %zu live blocks after clear", cstl_vector_size(&v), vrt_lib_live());
    VRT_CHECK(bad_xtor == 0, "huge.vector.xtor.bad-argument", "%llu constructor/destructor calls with a wrong priv or on a wrong element", (unsigned long long)bad_xtor);
    VRT_COUNT("vector.scenarios.xtors");
}

/* no constructors: nothing is touched, only the arithmetic is exercised */
static void vec_plain(size_t esz, size_t n)
{
    struct cstl_vector v, w;
    if (!have(G1)) return;
    vrt_case_note("vector of %zu-byte elements without constructors, %zu elements (%zu bytes, untouched)", esz, n, n * esz);
    memset(&v, 0xa5, sizeof(v)); memset(&w, 0xa5, sizeof(w));
    cstl_vector_init(&v, esz); cstl_vector_init(&w, esz);
    VRT_OP2("vector.reserve", "%ld elements of %ld bytes", (long)n, (long)esz);
    vrt_ev_begin();
    cstl_vector_reserve(&v, n);
    SKIP_IF_REFUSED(cstl_vector_capacity(&v) >= n && cstl_vector_size(&v) == 0, "huge.vector.reserve", "capacity %zu size %zu after reserve(%zu) although no allocation failed", cstl_vector_capacity(&v), cstl_vector_size(&v), n);
    VRT_OP1("vector.resize", "-> %ld", (long)n);
    cstl_vector_resize(&v, n);
    check_vec_geometry(&v, n, esz, "resize-plain");
    VRT_OP1("vector.resize", "-> %ld", (long)(n - P31 / esz - 1));
    cstl_vector_resize(&v, n - P31 / esz - 1);
    check_vec_geometry(&v, n - P31 / esz - 1, esz, "shrink-plain");
    VRT_OP0("vector.shrink_to_fit", "");
    cstl_vector_shrink_to_fit(&v);
    check_vec_geometry(&v, n - P31 / esz - 1, esz, "shrink_to_fit");
    VRT_CHECK(cstl_vector_capacity(&v) < n, "huge.vector.shrink_to_fit.capacity", "capacity still %zu", cstl_vector_capacity(&v));
    cstl_vector_resize(&w, 3);
    VRT_OP0("vector.swap", "huge <-> 3 elements");
    cstl_vector_swap(&v, &w);
    check_vec_geometry(&w, n - P31 / esz - 1, esz, "swap");
    check_vec_geometry(&v, 3, esz, "swap-small");
    cstl_vector_clear(&v); cstl_vector_clear(&w);
    VRT_CHECK(vrt_lib_live() == 0, "huge.vector.clear.leak", "%zu live blocks", vrt_lib_live());
    VRT_COUNT("vector.scenarios.plain");
}

/* ------------------------------------------------------------------ */
/* string                                                               */
/* ------------------------------------------------------------------ */
static void str_check(cstl_string_t *s, size_t n, const char *after)
{
    const char *p = cstl_string_str(s);
    char key[96];
    snprintf(key, sizeof(key), "huge.string.size.after-%s", after);
    VRT_CHECK(cstl_string_size(s) == n, key, "size %zu, expected %zu", cstl_string_size(s), n);
    snprintf(key, sizeof(key), "huge.string.terminator.after-%s", after);
    VRT_CHECK(p[n] == 0, key, "str()[size] is 0x%02x", (unsigned char)p[n]);
    snprintf(key, sizeof(key), "huge.string.at.after-%s", after);
    if (n > 0) {
        VRT_OP1("string.at", "index %ld", (long)(n - 1));
        VRT_CHECK(cstl_string_at(s, n - 1) == p + n - 1 && cstl_string_at(s, 0) == p, key, "at(size-1) is %p, str() is %p", (void *)cstl_string_at(s, n - 1), (const void *)p);
    }
    VRT_OP1("string.at", "index %ld (== size)", (long)n);
    VRT_CHECK(VRT_ABORTS((void)cstl_string_at(s, n)), key, "at(size) returned");
}

/* position-dependent content: 4 KiB blocks of 'A' + (block & 31); never NUL, never a lower-case letter */
static inline char P(size_t i) { return (char)('A' + ((i >> 12) & 31)); }
static void fill_pattern(char *d, size_t n)
{
    size_t b;
    for (b = 0; b < n; b += 4096) memset(d + b, P(b), n - b < 4096 ? n - b : 4096);
}
struct seg { size_t start, len; const char *lit; size_t src; };
static char seg_expect(const struct seg *sg, int nseg, size_t i)
{
    int k;
    for (k = 0; k < nseg; k++) if (i >= sg[k].start && i - sg[k].start < sg[k].len)
        return sg[k].lit != NULL ? sg[k].lit[i - sg[k].start] : P(sg[k].src + (i - sg[k].start));
    return 0;       /* the terminator */
}
/* the characters of p[0..m] against the segments: 64 positions at both ends of every segment, around 2^31 and
 * 2^32, and 16384 scattered positions (a truncated or mis-shifted move/copy is wrong on a range of at least
 * 2^31 consecutive characters or on everything behind a segment boundary) */
static void verify_segs(const char *p, size_t m, const struct seg *sg, int nseg, const char *key)
{
    size_t pos[16 * 130 + 16384], np = 0, k, x = 0x9e3779b97f4a7c15ull;
    int g;
    for (g = 0; g < nseg; g++) for (k = 0; k < 64; k++) {
        if (k < sg[g].len) { pos[np++] = sg[g].start + k; pos[np++] = sg[g].start + sg[g].len - 1 - k; }
    }
    for (k = 0; k < 128; k++) { if (P31 - 64 + k <= m) pos[np++] = P31 - 64 + k; if (P32 - 64 + k <= m) pos[np++] = P32 - 64 + k; }
    for (k = 0; k < 16384; k++) { x = x * 6364136223846793005ull + 1442695040888963407ull; pos[np++] = (x >> 11) % (m + 1); }
    pos[np++] = m;
    for (k = 0; k < np; k++) {
        const char e = seg_expect(sg, nseg, pos[k]);
        if (p[pos[k]] != e) vrt_fail(key, "character %zu of %zu is 0x%02x, expected 0x%02x", pos[k], m, (unsigned char)p[pos[k]], (unsigned char)e);
    }
    VRT_COUNT_N("string.characters-verified-at-sampled-positions", np);
}

static void str_narrow(size_t n, int deep)
{
    cstl_string_t s, t;
    size_t bad;
    ssize_t r;
    struct seg sg[8];
    if (!have(2 * (n + G1))) return;
    vrt_case_note("narrow string of %zu characters%s", n, deep ? " (+ compare, append, find of a second huge string)" : "");
    memset(&s, 0x5a, sizeof(s)); memset(&t, 0x5a, sizeof(t));
    cstl_string_init(&s); cstl_string_init(&t);
    VRT_OP1("string.reserve", "%ld", (long)(n + 16));
    vrt_ev_begin();
    cstl_string_reserve(&s, n + 16);
    SKIP_IF_REFUSED(cstl_string_capacity(&s) >= n + 16, "huge.string.reserve", "capacity %zu after reserve(%zu) although no allocation failed", cstl_string_capacity(&s), n + 16);
    vrt_ev_begin();
    cstl_string_reserve(&t, n);
    SKIP_IF_REFUSED(cstl_string_capacity(&t) >= n, "huge.string.reserve", "capacity %zu after reserve(%zu) although no allocation failed", cstl_string_capacity(&t), n);
    VRT_OP1("string.append_ch", "%ld x 'x' to the empty string", (long)n);
    cstl_string_append_ch(&s, n, 'x');
    str_check(&s, n, "append_ch");
    bad = scan_bytes((const unsigned char *)cstl_string_str(&s), n, 'x');
    VRT_CHECK(bad == n, "huge.string.append_ch.content", "character %zu is 0x%02x, expected 'x'", bad, (unsigned char)cstl_string_str(&s)[bad]);
    VRT_CHECK(strlen(cstl_string_str(&s)) == n, "huge.string.append_ch.strlen", "strlen(str()) = %zu, size = %zu", strlen(cstl_string_str(&s)), n);
    VRT_COUNT("string.characters-scanned");

    /* shrink to nothing, grow again inside the used capacity: newly valid characters are NUL */
    VRT_OP0("string.resize", "-> 0");
    cstl_string_resize(&s, 0);
    str_check(&s, 0, "resize-0");
    VRT_OP1("string.resize", "0 -> %ld inside the capacity", (long)(n - 2));
    cstl_string_resize(&s, n - 2);
    str_check(&s, n - 2, "resize-grow");
    bad = scan_bytes((const unsigned char *)cstl_string_data(&s), n - 2, 0);
    VRT_CHECK(bad == n - 2, "huge.string.resize.grow.not-nul-filled", "character %zu is 0x%02x after growing by resize, expected NUL", bad, (unsigned char)cstl_string_data(&s)[bad]);

    /* position-dependent content written through data(); then edits whose moved tails are longer than 2^31 / 2^32
     * characters and searches whose results do not fit 32 bits */
    cstl_string_resize(&s, n);
    fill_pattern(cstl_string_data(&s), n);
    sg[0] = (struct seg){ 0, n, NULL, 0 };
    verify_segs(cstl_string_str(&s), n, sg, 1, "harness.huge.string.pattern");
    VRT_OP1("string.insert_str", "\"bcd\" at %ld (tail longer than 2^32 where the string is)", 5L);
    cstl_string_insert_str(&s, 5, "bcd");
    str_check(&s, n + 3, "insert_str-front");
    sg[0] = (struct seg){ 0, 5, NULL, 0 }; sg[1] = (struct seg){ 5, 3, "bcd", 0 }; sg[2] = (struct seg){ 8, n - 5, NULL, 5 };
    verify_segs(cstl_string_str(&s), n + 3, sg, 3, "huge.string.insert_str.content");
    {
        const size_t pos = n + 3 - 7;       /* 7 characters before the end */
        VRT_OP1("string.insert_str", "\"klm\" at %ld", (long)pos);
        cstl_string_insert_str(&s, pos, "klm");
        str_check(&s, n + 6, "insert_str-back");
        sg[2] = (struct seg){ 8, pos - 8, NULL, 5 }; sg[3] = (struct seg){ pos, 3, "klm", 0 }; sg[4] = (struct seg){ pos + 3, 7, NULL, 5 + pos - 8 };
        verify_segs(cstl_string_str(&s), n + 6, sg, 5, "huge.string.insert_str.content");
        VRT_OP0("string.find_ch", "'l' from 0");
        r = cstl_string_find_ch(&s, 'l', 0);
        VRT_CHECK(r == (ssize_t)(pos + 1), "huge.string.find_ch", "find_ch('l', 0) = %zd, expected %zu", r, pos + 1);
        VRT_OP0("string.find_str", "\"klm\" from 7");
        r = cstl_string_find_str(&s, "klm", 7);
        VRT_CHECK(r == (ssize_t)pos, "huge.string.find_str", "find_str(\"klm\", 7) = %zd, expected %zu", r, pos);
        VRT_OP1("string.find_ch", "'m' from %ld", (long)(pos + 1));
        r = cstl_string_find_ch(&s, 'm', pos + 1);
        VRT_CHECK(r == (ssize_t)(pos + 2), "huge.string.find_ch.from-pos", "find_ch('m', %zu) = %zd, expected %zu", pos + 1, r, pos + 2);
        VRT_OP1("string.find_ch", "'k' from %ld (absent)", (long)(pos + 1));
        r = cstl_string_find_ch(&s, 'k', pos + 1);
        VRT_CHECK(r == -1, "huge.string.find_ch.absent", "find_ch of an absent character = %zd", r);
        VRT_OP1("string.find_ch", "from %ld (== size + 1): must abort", (long)(n + 7));
        VRT_CHECK(VRT_ABORTS((void)cstl_string_find_ch(&s, 'A', n + 7)), "huge.string.find_ch.bad-pos-no-abort", "find_ch from beyond the end returned");
        VRT_COUNT("string.find.results-above-2^31");
        {
            /* a run inserted in the middle: more than 2^30 characters on both sides */
            const size_t mid = (n + 6) / 2 + 17;
            VRT_OP2("string.insert_ch", "%ld x 'z' at %ld", 5L, (long)mid);
            cstl_string_insert_ch(&s, mid, 5, 'z');
            str_check(&s, n + 11, "insert_ch");
            sg[2] = (struct seg){ 8, mid - 8, NULL, 5 }; sg[3] = (struct seg){ mid, 5, "zzzzz", 0 };
            sg[4] = (struct seg){ mid + 5, pos - mid, NULL, 5 + mid - 8 }; sg[5] = (struct seg){ pos + 5, 3, "klm", 0 };
            sg[6] = (struct seg){ pos + 8, 7, NULL, 5 + pos - 8 };
            verify_segs(cstl_string_str(&s), n + 11, sg, 7, "huge.string.insert_ch.content");
            /* substr longer than 2^31 / 2^32 characters, from behind the first insertion to the end */
            VRT_OP2("string.substr", "pos %ld count %ld (clamped)", 6L, (long)SIZE_MAX);
            cstl_string_substr(&s, 6, SIZE_MAX, &t);
            str_check(&t, n + 5, "substr");
            {
                struct seg tg[8];
                int k;
                tg[0] = (struct seg){ 0, 2, "cd", 0 };
                for (k = 2; k < 7; k++) { tg[k - 1] = sg[k]; tg[k - 1].start -= 6; }
                verify_segs(cstl_string_str(&t), n + 5, tg, 6, "huge.string.substr.content");
            }
            /* erase a huge range out of the middle: the tail that moves down is longer than 2^30 characters */
            VRT_OP2("string.erase", "pos %ld count %ld", 9L, (long)(mid - 9 - 3));
            cstl_string_erase(&s, 9, mid - 9 - 3);
            str_check(&s, n + 11 - (mid - 12), "erase-middle");
            {
                const size_t d = mid - 12;
                struct seg eg[8];
                eg[0] = sg[0]; eg[1] = sg[1]; eg[2] = (struct seg){ 8, 1, NULL, 5 };
                eg[3] = (struct seg){ 9, 3, NULL, 5 + mid - 3 - 8 };
                eg[4] = sg[3]; eg[4].start -= d; eg[5] = sg[4]; eg[5].start -= d; eg[6] = sg[5]; eg[6].start -= d; eg[7] = sg[6]; eg[7].start -= d;
                verify_segs(cstl_string_str(&s), n + 11 - d, eg, 8, "huge.string.erase.content");
            }
            /* erase to the end with a count that is clamped */
            VRT_OP2("string.erase", "pos %ld count %ld (clamped)", 11L, (long)(SIZE_MAX - 3));
            cstl_string_erase(&s, 11, SIZE_MAX - 3);
            str_check(&s, 11, "erase-tail");
        }
    }
    if (deep) {
        int c;
        /* two huge strings: compare beyond 2^32, append of a huge string, a huge needle */
        cstl_string_resize(&s, 0); cstl_string_append_ch(&s, n, 'q');
        cstl_string_resize(&t, 0); cstl_string_append_ch(&t, n - 5, 'q');
        *cstl_string_at(&t, n - 6) = 'r';
        VRT_OP0("string.compare", "equal for more than 2^32 characters, then 'q' < 'r'");
        c = cstl_string_compare(&s, &t);
        VRT_CHECK(c < 0, "huge.string.compare", "compare = %d, expected < 0 (difference at %zu)", c, n - 6);
        c = cstl_string_compare(&t, &s);
        VRT_CHECK(c > 0, "huge.string.compare", "compare = %d, expected > 0", c);
        cstl_string_resize(&s, 2);
        VRT_OP1("string.append", "a string of %ld characters", (long)(n - 5));
        cstl_string_append(&s, &t);
        str_check(&s, n - 3, "append");
        VRT_CHECK(cstl_string_str(&s)[n - 4] == 'r' && scan_bytes((const unsigned char *)cstl_string_str(&s), n - 4, 'q') == n - 4,
                  "huge.string.append.content", "appended characters are wrong");
        VRT_OP0("string.find", "huge needle in a huge haystack");
        r = cstl_string_find(&s, &t, 0);
        VRT_CHECK(r == 2, "huge.string.find", "find = %zd, expected 2", r);
        VRT_COUNT("string.scenarios.two-huge-strings");
    }
    cstl_string_clear(&s); cstl_string_clear(&t);
    VRT_CHECK(vrt_lib_live() == 0, "huge.string.clear.leak", "%zu live blocks", vrt_lib_live());
    VRT_COUNT("string.scenarios.narrow");
}

static void str_wide(size_t n)
{
    cstl_wstring_t s;
    size_t bad;
    ssize_t r;
    if (!have(n * sizeof(wchar_t) + G1)) return;
    vrt_case_note("wide string of %zu characters (%zu bytes)", n, n * sizeof(wchar_t));
    memset(&s, 0x5a, sizeof(s));
    cstl_wstring_init(&s);
    vrt_ev_begin();
    cstl_wstring_reserve(&s, n + 8);
    SKIP_IF_REFUSED(cstl_wstring_capacity(&s) >= n + 8, "huge.wstring.reserve", "capacity %zu after reserve(%zu) although no allocation failed", cstl_wstring_capacity(&s), n + 8);
    VRT_OP1("wstring.append_ch", "%ld x L'x'", (long)n);
    cstl_wstring_append_ch(&s, n, L'x');
    VRT_CHECK(cstl_wstring_size(&s) == n && cstl_wstring_str(&s)[n] == 0, "huge.wstring.append_ch.size", "size %zu expected %zu", cstl_wstring_size(&s), n);
    bad = scan_u32((const uint32_t *)(const void *)cstl_wstring_str(&s), n, (uint32_t)L'x');
    VRT_CHECK(bad == n, "huge.wstring.append_ch.content", "character %zu is wrong", bad);
    VRT_OP0("wstring.resize", "-> 0 -> size-1");
    cstl_wstring_resize(&s, 0); cstl_wstring_resize(&s, n - 1);
    bad = scan_u32((const uint32_t *)(const void *)cstl_wstring_data(&s), n - 1, 0);
    VRT_CHECK(bad == n - 1 && cstl_wstring_size(&s) == n - 1, "huge.wstring.resize.grow.not-nul-filled", "character %zu is not NUL after growing by resize", bad);
    *cstl_wstring_at(&s, n - 3) = L'k';
    cstl_wstring_resize(&s, 0); cstl_wstring_append_ch(&s, n - 3, L'y'); cstl_wstring_append_str(&s, L"kz");
    VRT_OP0("wstring.find_ch", "L'k'");
    r = cstl_wstring_find_ch(&s, L'k', 0);
    VRT_CHECK(r == (ssize_t)(n - 3), "huge.wstring.find_ch", "find_ch = %zd expected %zu", r, n - 3);
    VRT_OP0("wstring.find_str", "L\"kz\"");
    r = cstl_wstring_find_str(&s, L"kz", 5);
    VRT_CHECK(r == (ssize_t)(n - 3), "huge.wstring.find_str", "find_str = %zd expected %zu", r, n - 3);
    VRT_OP2("wstring.erase", "pos %ld count %ld", 2L, (long)(n - 6));
    cstl_wstring_erase(&s, 2, n - 6);
    VRT_CHECK(cstl_wstring_size(&s) == 5 && wcscmp(cstl_wstring_str(&s), L"yyykz") == 0, "huge.wstring.erase", "size %zu after erase", cstl_wstring_size(&s));
    cstl_wstring_clear(&s);
    VRT_CHECK(vrt_lib_live() == 0, "huge.wstring.clear.leak", "%zu live blocks", vrt_lib_live());
    VRT_COUNT("string.scenarios.wide");
}

/* ------------------------------------------------------------------ */
/* array views                                                          */
/* ------------------------------------------------------------------ */
static void arr_check(cstl_array_t *a, unsigned char *base, size_t off, size_t n, size_t esz, const char *what)
{
    const size_t idx[] = { 0, 1, P31 / esz, P31 / esz + 1, P32 / esz - 1, P32 / esz, P32 / esz + 1, n / 2, n - 1 };
    size_t k;
    char key[96];
    snprintf(key, sizeof(key), "huge.array.size.%s", what);
    VRT_CHECK(cstl_array_size(a) == n, key, "size %zu expected %zu", cstl_array_size(a), n);
    snprintf(key, sizeof(key), "huge.array.at.address.%s", what);
    for (k = 0; k < sizeof(idx) / sizeof(idx[0]); k++) if (idx[k] < n) {
        VRT_OP1("array.at", "index %ld", (long)idx[k]);
        VRT_CHECK((unsigned char *)cstl_array_at(a, idx[k]) == base + (off + idx[k]) * esz, key, "at(%zu) = %p, expected base + (%zu + %zu) * %zu",
                  idx[k], cstl_array_at(a, idx[k]), off, idx[k], esz);
        VRT_COUNT("array.at.in-range");
    }
    snprintf(key, sizeof(key), "huge.array.at.no-abort.%s", what);
    VRT_OP1("array.at", "index %ld (== size)", (long)n);
    VRT_CHECK(VRT_ABORTS((void)cstl_array_at(a, n)), key, "at(size) returned");
    VRT_OP1("array.at", "index %ld (size + 2^32)", (long)(n + P32));
    VRT_CHECK(VRT_ABORTS((void)cstl_array_at(a, n + P32)), key, "at(size + 2^32) returned");
    if ((n & (P32 - 1)) != n) {     /* an index that is in range only after truncation to 32 bits of the size */
        VRT_OP1("array.at", "index %ld (in range)", (long)(n & (P32 - 1)));
        (void)cstl_array_at(a, n & (P32 - 1));
    }
    VRT_COUNT("array.at.out-of-range-aborted");
}

static void arr_views(size_t esz, size_t n, int external)
{
    cstl_array_t a, s, u;
    unsigned char *base;
    /* an external buffer is only ever used for address arithmetic (never dereferenced) */
    static unsigned char ext_anchor[64];
    if (!external && !have(G1)) return;
    vrt_case_note("array of %zu elements of %zu bytes (%s), slices above 2^32", n, esz, external ? "external buffer, never dereferenced" : "library allocation, untouched");
    memset(&a, 0x5a, sizeof(a)); memset(&s, 0x5a, sizeof(s)); memset(&u, 0x5a, sizeof(u));
    cstl_array_init(&a); cstl_array_init(&s); cstl_array_init(&u);
    if (external) { VRT_OP2("array.set", "%ld x %ld", (long)n, (long)esz); cstl_array_set(&a, ext_anchor, n, esz); }
    else { VRT_OP2("array.alloc", "%ld x %ld", (long)n, (long)esz); vrt_ev_begin(); cstl_array_alloc(&a, n, esz); }
    SKIP_IF_REFUSED(cstl_array_size(&a) == n, "huge.array.alloc", "size %zu after alloc/set of %zu elements although no allocation failed", cstl_array_size(&a), n);
    base = cstl_array_data(&a);
    if (!external) {
        size_t bsz = 0;
        unsigned char *blk = vrt_lib_block(base, &bsz);
        VRT_CHECK(blk != NULL && base >= blk && (size_t)(base - blk) <= bsz && bsz - (size_t)(base - blk) >= n * esz, "huge.array.alloc.block",
                  "data() does not point at %zu bytes inside a live library block (block of %zu bytes)", n * esz, bsz);
    } else VRT_CHECK(base == ext_anchor, "huge.array.set.data", "data() is not the buffer given to set");
    arr_check(&a, base, 0, n, esz, "whole");
    {
        const size_t beg = P32 / esz + 1, end = n - 2;
        VRT_OP2("array.slice", "[%ld, %ld)", (long)beg, (long)end);
        cstl_array_slice(&a, beg, end, &s);
        arr_check(&s, base, beg, end - beg, esz, "slice");
        VRT_OP2("array.slice", "in place [%ld, %ld)", 3L, (long)(end - beg - 1));
        cstl_array_slice(&s, 3, end - beg - 1, &s);
        arr_check(&s, base, beg + 3, end - beg - 4, esz, "slice-of-slice");
        VRT_OP0("array.unslice", "");
        cstl_array_unslice(&s, &u);
        arr_check(&u, base, 0, n, esz, "unslice");
        /* bad slices around the 32-bit boundary */
        VRT_OP2("array.slice", "[%ld, %ld): end < beg", (long)(P32 / esz + 5), (long)5);
        VRT_CHECK(VRT_ABORTS(cstl_array_slice(&a, P32 / esz + 5, 5, &u)), "huge.array.slice.no-abort.end-lt-beg", "slice with end < beg (beg > 2^32, end small) returned");
        VRT_OP2("array.slice", "[%ld, %ld): past the end", 0L, (long)(n + 1));
        VRT_CHECK(VRT_ABORTS(cstl_array_slice(&a, 0, n + 1, &u)), "huge.array.slice.no-abort.past-end", "slice past the end returned");
        VRT_OP2("array.slice", "of a slice, [%ld, %ld): past the end of the buffer", 0L, (long)(end - beg));
        VRT_CHECK(VRT_ABORTS(cstl_array_slice(&s, 0, end - beg, &u)), "huge.array.slice.no-abort.past-end-of-view", "slice of a slice past its end returned");
        VRT_COUNT("array.slices.bad-aborted");
    }
    cstl_array_reset(&s); cstl_array_reset(&u);
    if (external) {
        void *rel = NULL;
        cstl_array_release(&a, &rel);
        VRT_CHECK(rel == ext_anchor, "huge.array.release", "release did not hand the external buffer back");
    }
    cstl_array_reset(&a);
    VRT_CHECK(vrt_lib_live() == 0, "huge.array.leak", "%zu live blocks", vrt_lib_live());
    VRT_COUNT("array.scenarios");
}

/* ------------------------------------------------------------------ */
/* search / find / reverse on a huge sorted array                       */
/* ------------------------------------------------------------------ */
static uint64_t ncmp;
static const unsigned char *s_lo, *s_hi, *s_probe;
static uint64_t cmp_outside;
static int cmp_byte(const void *a, const void *b, void *p)
{
    const unsigned char *x = a, *y = b;
    (void)p;
    ncmp++;
    /* every argument is an element of the array (or its scratch slot) or the probe */
    if (__builtin_expect(((size_t)(x - s_lo) >= (size_t)(s_hi - s_lo) && x != s_probe) || ((size_t)(y - s_lo) >= (size_t)(s_hi - s_lo) && y != s_probe), 0)) {
        cmp_outside++;
        return 0;
    }
    if (*x == *y) return 0;
    /* only the sign is specified */
    return *x < *y ? -0x40000000 - (int)*y : 0x10000 + (int)*x;
}
static void search_huge(size_t n, int deep)
{
    unsigned char *arr, probe;
    const size_t a = n / 2 - 3, b = n - 9;     /* [0,a) = 10, [a,b) = 20, [b,n) = 30 */
    ssize_t r;
    struct cstl_vector v;
    if (!have(n + G1)) return;
    vrt_case_note("sorted array of %zu one-byte elements: 10 x %zu, 20 x %zu, 30 x %zu; binary search%s", n, a, b - a, n - b, deep ? ", linear find, reverse" : "");
    /* the array is the storage of a vector, so that both APIs can be used on the same bytes */
    memset(&v, 0x5a, sizeof(v));
    cstl_vector_init(&v, 1);
    vrt_ev_begin();
    cstl_vector_reserve(&v, n);
    SKIP_IF_REFUSED(cstl_vector_capacity(&v) >= n, "huge.vector.reserve", "capacity %zu after reserve(%zu) although no allocation failed", cstl_vector_capacity(&v), n);
    cstl_vector_resize(&v, n);
    arr = cstl_vector_data(&v);
    memset(arr, 10, a); memset(arr + a, 20, b - a); memset(arr + b, 30, n - b);
    s_lo = arr; s_hi = arr + n + 1; s_probe = &probe; cmp_outside = 0;
#define SEARCH(val, lo, hi, keyname) do { \
        probe = (val); ncmp = 0; \
        VRT_OP1("array.search", "probe %ld", (long)(val)); \
        r = cstl_raw_array_search(arr, n, 1, &probe, cmp_byte, NULL); \
        VRT_CHECK((lo) == (hi) ? r == -1 : (r >= (ssize_t)(lo) && r < (ssize_t)(hi)), "huge.search.array." keyname, \
                  "search(%d) = %zd, expected %s [%zu, %zu)", (val), r, (lo) == (hi) ? "-1, not in" : "an index in", (size_t)(lo), (size_t)(hi)); \
        VRT_CHECK(ncmp <= 80, "huge.search.array.comparisons", "binary search made %llu comparisons", (unsigned long long)ncmp); \
        VRT_OP1("vector.search", "probe %ld", (long)(val)); \
        r = cstl_vector_search(&v, &probe, cmp_byte, NULL); \
        VRT_CHECK((lo) == (hi) ? r == -1 : (r >= (ssize_t)(lo) && r < (ssize_t)(hi)), "huge.search.vector." keyname, \
                  "vector search(%d) = %zd, expected %s [%zu, %zu)", (val), r, (lo) == (hi) ? "-1, not in" : "an index in", (size_t)(lo), (size_t)(hi)); \
        VRT_COUNT("search.probes"); } while (0)
    SEARCH(10, 0, a, "first-run");
    SEARCH(20, a, b, "middle-run");
    SEARCH(30, b, n, "last-run");
    SEARCH(5, 0, 0, "absent-below");
    SEARCH(15, 0, 0, "absent-between");
    SEARCH(25, 0, 0, "absent-between");
    SEARCH(40, 0, 0, "absent-above");
    if (deep & 1) {
        probe = 30;
        VRT_OP0("array.find", "probe 30 (first match at n - 9)");
        r = cstl_raw_array_find(arr, n, 1, &probe, cmp_byte, NULL);
        VRT_CHECK(r == (ssize_t)b, "huge.find.array", "find(30) = %zd, expected %zu", r, b);
        probe = 20;
        VRT_OP0("vector.find", "probe 20");
        r = cstl_vector_find(&v, &probe, cmp_byte, NULL);
        VRT_CHECK(r == (ssize_t)a, "huge.find.vector", "find(20) = %zd, expected %zu", r, a);
        probe = 7;
        r = cstl_raw_array_find(arr, n, 1, &probe, cmp_byte, NULL);
        VRT_CHECK(r == -1, "huge.find.array.absent", "find(absent) = %zd", r);
        VRT_COUNT("find.results-above-2^31");
    }
    if (deep & 2) {
        VRT_OP0("vector.reverse", "");
        cstl_vector_reverse(&v);
        VRT_CHECK(cstl_vector_data(&v) == (void *)arr && scan_bytes(arr, n - b, 30) == n - b && scan_bytes(arr + (n - b), b - a, 20) == b - a
                  && scan_bytes(arr + (n - a), a, 10) == a, "huge.reverse.vector", "the reversed array is not the mirror image");
        VRT_COUNT("reverse.huge");
    }
    VRT_CHECK(cmp_outside == 0, "huge.search.cmp-outside-array", "%llu comparisons with an argument outside the array and the probe", (unsigned long long)cmp_outside);
    cstl_vector_clear(&v);
    VRT_COUNT("search.scenarios");
}

/* ------------------------------------------------------------------ */
struct sc { int kind; size_t a, b; int flag; };
static struct sc scs[32];
static int nsc;
static void add(int kind, size_t a, size_t b, int flag) { scs[nsc].kind = kind; scs[nsc].a = a; scs[nsc].b = b; scs[nsc].flag = flag; nsc++; }
static void build(void)
{
    nsc = 0;
    switch (mode) {
    case M_VECTOR:
        add(0, P31 + 12, 0, 0);
        if (vrt_thorough) add(0, P32 + 12, 0, 0);
        add(1, 1, P32 + P31 + 7, 0); add(1, 8, P32 / 8 + P31 / 8 + 3, 0); add(1, 24, P32 / 24 + P31 / 24 + 5, 0); add(1, 1, (size_t)3 << 33, 0);
        break;
    case M_STRING:
        add(2, P32 + 21, 0, 0);
        add(2, P31 + 21, 0, 0);
        if (vrt_thorough) add(2, P32 + 77, 0, 1);
        add(3, P32 / 4 + 33, 0, 0);
        if (vrt_thorough) add(3, P32 + 35, 0, 0);
        break;
    case M_ARRAY:
        add(4, 1, (size_t)2 << 32, 0); add(4, 8, P32 / 8 * 2 + 9, 0); add(4, 1, P32 + P31 + 11, 0); add(4, 12, P32 / 12 * 3, 0);
        add(4, 1, (size_t)1 << 40, 1); add(4, 16, (size_t)1 << 44, 1); add(4, 1, (size_t)1 << 62, 1);
        break;
    default:
        add(5, P32 + 40, 0, 1);
        add(5, P31 + 40, 0, vrt_thorough ? 3 : 2);
        add(5, P31 - P31 / 4 + 40, 0, 3);      /* between 2^30 and 2^31: where a midpoint computed as (i + j) / 2 in int overflows */
        if (vrt_thorough) add(5, P32 + 44, 0, 3);
        break;
    }
}
static uint64_t ncases(void) { build(); return (uint64_t)nsc; }
static void run_case(uint64_t idx)
{
    const struct sc *c = &scs[idx];
    vrt_alloc_cap = (size_t)48 << 30;
    switch (c->kind) {
    case 0: vec_xtors(c->a); break;
    case 1: vec_plain(c->a, c->b); break;
    case 2: str_narrow(c->a, c->flag); break;
    case 3: str_wide(c->a); break;
    case 4: arr_views(c->a, c->b, c->flag); break;
    default: search_huge(c->a, c->flag); break;
    }
    slot_release();
    VRT_COUNT("huge.scenarios");
    vrt_sig(0, vrt_mix(vrt_mix(vrt_mix(0x4096, (uint64_t)c->kind), c->a), vrt_mix(c->b, (uint64_t)c->flag)));
}
/* a failed scenario is abandoned: give its gigabytes back and let the next scenario of another process in */
static void on_fail(void) { vrt_lib_release_big((size_t)1 << 26); slot_release(); }
static void winit(void)
{
    mode = strcmp(vrt_mode, "string") == 0 ? M_STRING : strcmp(vrt_mode, "array") == 0 ? M_ARRAY : strcmp(vrt_mode, "search") == 0 ? M_SEARCH : M_VECTOR;
    build();
    vrt_sig_name(0, "huge-scenarios");
    vrt_fail_hook = on_fail;
}
static const char *const required[] = { "huge.scenarios", NULL };
static struct vrt_harness H = { "huge", ncases, run_case, winit, NULL, required, 3 };
int main(int argc, char **argv)
{
    int i;
    for (i = 1; i + 1 < argc; i++) if (strcmp(argv[i], "--mode") == 0) {
        mode = strcmp(argv[i + 1], "string") == 0 ? M_STRING : strcmp(argv[i + 1], "array") == 0 ? M_ARRAY : strcmp(argv[i + 1], "search") == 0 ? M_SEARCH : M_VECTOR;
    }
    return vrt_main(argc, argv, &H);
}
