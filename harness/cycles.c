/*
 * cycles.c -- the same operation pair, repeated more than 2^8, 2^16 and 2^20 times on ONE small object.
 *
 * The model harnesses vary states and sizes; the number of times an object has been operated on stays in the hundreds.
 * Per-object state that counts OPERATIONS rather than elements -- a ticket or sequence number, a generation stamp, a
 * deferred-work counter, an "operations since last rebalance" field, in 8, 16 or 20 bits -- wraps only after that many
 * calls on the same object, however small it is.  Each case keeps a container at 0..3 elements and runs a fixed pair (or
 * triple) of calls N = 2^22 + 77 times (2^20 + 77 for the costly families; thorough 2^24 / 2^22), checking the cheap observables after every
 * cycle (return values, size, front/top/find) and the full content at every cycle count within 2 of a power of two and at
 * the end.  mode = family (trees, heap, hash, map, vector, string, dlist, slist, array) or all.
 */
#include "vrt.h"
#include <string.h>
#include <stdint.h>
#include <cstl/bintree.h>
#include <cstl/rbtree.h>
#include <cstl/heap.h>
#include <cstl/hash.h>
#include <cstl/map.h>
#include <cstl/vector.h>
#include <cstl/string.h>
#include <cstl/dlist.h>
#include <cstl/slist.h>
#include <cstl/array.h>

#define CK(cond, key, ...) VRT_CHECK(cond, "cycles." key, __VA_ARGS__)
struct el {
    long pad;
    int key;
    struct cstl_bintree_node bn;
    struct cstl_rbtree_node rn;
    struct cstl_heap_node hn;
    struct cstl_hash_node xn;
    struct cstl_dlist_node dn;
    struct cstl_slist_node sn;
};
static struct el *E[4];
static void mk(void) { int i; for (i = 0; i < 4; i++) { E[i] = vrt_alloc(sizeof(struct el)); memset(E[i], 0x37, sizeof(struct el)); E[i]->key = 10 * (i + 1); } }
static void unmk(void) { int i; for (i = 0; i < 4; i++) vrt_free(E[i]); }
static int cmp_el(const void *a, const void *b, void *p)
{
    const int x = ((const struct el *)a)->key, y = ((const struct el *)b)->key;
    (void)p;
    return (x > y) - (x < y);
}
static int near_pow2(uint64_t c)
{
    int b;
    for (b = 3; b < 40; b++) { const uint64_t p = 1ull << b; if (c + 2 >= p && c <= p + 2) return 1; }
    return 0;
}
static uint64_t ncyc(int costly) { return vrt_thorough ? (costly ? (1u << 22) + 77 : (1u << 24) + 77) : (costly ? (1u << 20) + 77 : (1u << 22) + 77); }
#define EVERY(c, n) ((c) == (n) - 1 || near_pow2((c) + 1))
#define TICK(entry) do { if ((c & 1023) == 0) VRT_OP1(entry, "cycle %ld", (long)c); } while (0)

static void big_trees(void); static void big_heap(void); static void big_hash(void); static void big_map(void); static void big_lists(int dl);
static int cnt_visit_b(const void *e, cstl_bintree_visit_order_t o, void *p) { (void)e; if (o == CSTL_BINTREE_VISIT_ORDER_MID || o == CSTL_BINTREE_VISIT_ORDER_LEAF) ++*(int *)p; return 0; }
static void c_trees(void)
{
    struct cstl_bintree bt;
    struct cstl_rbtree rt;
    const uint64_t n = ncyc(0);
    uint64_t c;
    mk();
    cstl_bintree_init(&bt, cmp_el, NULL, offsetof(struct el, bn));
    cstl_rbtree_init(&rt, cmp_el, NULL, offsetof(struct el, rn));
    /* two resident elements, a third one inserted and erased again */
    cstl_bintree_insert(&bt, E[0], NULL); cstl_bintree_insert(&bt, E[2], NULL);
    cstl_rbtree_insert(&rt, E[0], NULL); cstl_rbtree_insert(&rt, E[2], NULL);
    for (c = 0; c < n; c++) {
        struct el *const e = E[(c & 1) ? 1 : 3];       /* key between / above the residents */
        TICK("tree.insert-erase");
        cstl_bintree_insert(&bt, e, NULL); cstl_rbtree_insert(&rt, e, NULL);
        CK(cstl_bintree_size(&bt) == 3 && cstl_rbtree_size(&rt) == 3 && cstl_bintree_find(&bt, e, NULL) == e && cstl_rbtree_find(&rt, e, NULL) == e,
           "trees.after-insert", "cycle %llu: size/find after the insert", (unsigned long long)c);
        CK(cstl_bintree_erase(&bt, e) == e && cstl_rbtree_erase(&rt, e) == e, "trees.erase", "cycle %llu: erase did not return the element", (unsigned long long)c);
        CK(cstl_bintree_size(&bt) == 2 && cstl_rbtree_size(&rt) == 2 && cstl_bintree_find(&bt, e, NULL) == NULL && cstl_rbtree_find(&rt, e, NULL) == NULL
           && cstl_bintree_find(&bt, E[0], NULL) == E[0] && cstl_rbtree_find(&rt, E[2], NULL) == E[2], "trees.after-erase", "cycle %llu: size/find after the erase", (unsigned long long)c);
        if (EVERY(c, n)) {
            int v = 0;
            size_t mn, mx;
            cstl_bintree_foreach(&bt, cnt_visit_b, &v, CSTL_BINTREE_FOREACH_DIR_FWD); cstl_rbtree_foreach(&rt, cnt_visit_b, &v, CSTL_BINTREE_FOREACH_DIR_REV);
            cstl_rbtree_height(&rt, &mn, &mx);
            CK(v == 4 && mx <= 2, "trees.checkpoint", "after %llu cycles: %d elements visited in two trees of 2, rbtree height %zu", (unsigned long long)c + 1, v, mx);
            VRT_COUNT("cycles.checkpoints");
        }
    }
    VRT_COUNT_N("cycles.trees", n);
    unmk();
    big_trees();
}
static void c_heap(void)
{
    struct cstl_heap h;
    const uint64_t n = ncyc(0);
    uint64_t c;
    mk();
    cstl_heap_init(&h, cmp_el, NULL, offsetof(struct el, hn));
    cstl_heap_push(&h, E[1]);
    for (c = 0; c < n; c++) {
        struct el *const e = E[(c & 1) ? 0 : 3];       /* below / above the resident */
        TICK("heap.push-pop");
        cstl_heap_push(&h, e);
        CK(cstl_heap_size(&h) == 2 && cstl_heap_get(&h) == ((c & 1) ? E[1] : E[3]), "heap.after-push", "cycle %llu: size/top after the push", (unsigned long long)c);
        if (c & 1) {
            CK(cstl_heap_pop(&h) == E[1] && cstl_heap_pop(&h) == E[0] && cstl_heap_pop(&h) == NULL, "heap.pop", "cycle %llu: pops", (unsigned long long)c);
            cstl_heap_push(&h, E[1]);
        } else {
            CK(cstl_heap_pop(&h) == E[3], "heap.pop", "cycle %llu: pop did not return the maximum", (unsigned long long)c);
        }
        CK(cstl_heap_size(&h) == 1 && cstl_heap_get(&h) == E[1], "heap.after-pop", "cycle %llu: size/top after the pops", (unsigned long long)c);
        if (EVERY(c, n)) VRT_COUNT("cycles.checkpoints");
    }
    VRT_COUNT_N("cycles.heap", n);
    unmk();
    big_heap();
}
static int cnt_visit(void *e, void *p) { (void)e; ++*(int *)p; return 0; }
static void c_hash(void)
{
    struct cstl_hash h;
    const uint64_t n = ncyc(1);
    uint64_t c;
    mk();
    cstl_hash_init(&h, offsetof(struct el, xn));
    cstl_hash_resize(&h, 3, NULL);
    cstl_hash_insert(&h, 7, E[0]);
    for (c = 0; c < n; c++) {
        const size_t k = 100 + (size_t)(c % 5);
        TICK("hash.insert-erase");
        cstl_hash_insert(&h, k, E[1]);
        CK(cstl_hash_size(&h) == 2 && cstl_hash_find(&h, k, NULL, NULL) == E[1] && cstl_hash_find(&h, 7, NULL, NULL) == E[0], "hash.after-insert", "cycle %llu: size/find after the insert", (unsigned long long)c);
        cstl_hash_erase(&h, E[1]);
        CK(cstl_hash_size(&h) == 1 && cstl_hash_find(&h, k, NULL, NULL) == NULL, "hash.after-erase", "cycle %llu: size/find after the erase", (unsigned long long)c);
        if ((c & 255) == 255) {
            /* a resize now and then: grow, shrink, other function; the rehash is worked off by the keyed calls above */
            cstl_hash_resize(&h, 2 + (size_t)((c >> 8) % 7), ((c >> 8) & 1) ? cstl_hash_div : cstl_hash_mul);
            VRT_COUNT("cycles.hash.resizes");
        }
        if (EVERY(c, n)) {
            int v = 0;
            cstl_hash_foreach(&h, cnt_visit, &v);
            CK(v == 1 && cstl_hash_find(&h, 7, NULL, NULL) == E[0], "hash.checkpoint", "after %llu cycles: %d elements enumerated", (unsigned long long)c + 1, v);
            VRT_COUNT("cycles.checkpoints");
        }
    }
    cstl_hash_clear(&h, NULL);
    VRT_COUNT_N("cycles.hash", n);
    unmk();
    big_hash();
}
static int cmp_int(const void *a, const void *b, void *p) { (void)p; return (*(const int *)a > *(const int *)b) - (*(const int *)a < *(const int *)b); }
static void c_map(void)
{
    cstl_map_t m;
    static int keys[3] = { 1, 2, 3 }, vals[3];
    const uint64_t n = ncyc(1);
    uint64_t c;
    cstl_map_iterator_t it;
    cstl_map_init(&m, cmp_int, NULL);
    CK(cstl_map_insert(&m, &keys[0], &vals[0], NULL) == 0 && cstl_map_insert(&m, &keys[2], &vals[2], NULL) == 0, "map.setup", "two resident entries");
    for (c = 0; c < n; c++) {
        TICK("map.insert-erase");
        CK(cstl_map_insert(&m, &keys[1], &vals[1], &it) == 0 && it.key == &keys[1] && cstl_map_size(&m) == 3, "map.insert", "cycle %llu: insert of an absent key", (unsigned long long)c);
        CK(cstl_map_insert(&m, &keys[1], &vals[0], &it) == 1 && it.val == &vals[1], "map.insert-existing", "cycle %llu: insert of a present key", (unsigned long long)c);
        if (c & 1) { CK(cstl_map_erase(&m, &keys[1], &it) == 0 && it.key == &keys[1] && it.val == &vals[1], "map.erase", "cycle %llu: erase by key", (unsigned long long)c); }
        else { cstl_map_find(&m, &keys[1], &it); cstl_map_erase_iterator(&m, &it); }
        cstl_map_find(&m, &keys[1], &it);
        CK(cstl_map_size(&m) == 2 && cstl_map_iterator_eq(&it, cstl_map_iterator_end(&m)) && vrt_lib_live() == 2, "map.after-erase", "cycle %llu: size/find/blocks after the erase", (unsigned long long)c);
        if (EVERY(c, n)) VRT_COUNT("cycles.checkpoints");
    }
    cstl_map_clear(&m, NULL, NULL);
    CK(vrt_lib_live() == 0, "map.leak", "blocks left after clear");
    VRT_COUNT_N("cycles.map", n);
    big_map();
}
static void c_vector(void)
{
    struct cstl_vector v;
    const uint64_t n = ncyc(0);
    uint64_t c;
    cstl_vector_init(&v, sizeof(uint32_t));
    cstl_vector_resize(&v, 2);
    *(uint32_t *)cstl_vector_at(&v, 0) = 11; *(uint32_t *)cstl_vector_at(&v, 1) = 22;
    for (c = 0; c < n; c++) {
        TICK("vector.resize-up-down");
        cstl_vector_resize(&v, 3);
        *(uint32_t *)cstl_vector_at(&v, 2) = (uint32_t)c;
        CK(cstl_vector_size(&v) == 3 && cstl_vector_capacity(&v) >= 3, "vector.after-grow", "cycle %llu: size/capacity", (unsigned long long)c);
        cstl_vector_resize(&v, 2);
        if ((c & 63) == 63) cstl_vector_shrink_to_fit(&v);
        CK(cstl_vector_size(&v) == 2 && *(uint32_t *)cstl_vector_at(&v, 0) == 11 && *(uint32_t *)cstl_vector_at(&v, 1) == 22, "vector.after-shrink", "cycle %llu: size/contents", (unsigned long long)c);
        if (EVERY(c, n)) { CK(VRT_ABORTS((void)cstl_vector_at(&v, 2)), "vector.checkpoint", "after %llu cycles: at(size) returned", (unsigned long long)c + 1); VRT_COUNT("cycles.checkpoints"); }
    }
    cstl_vector_clear(&v);
    VRT_COUNT_N("cycles.vector", n);
}
static void c_string(void)
{
    cstl_string_t s;
    cstl_wstring_t w;
    const uint64_t n = ncyc(0);
    uint64_t c;
    cstl_string_init(&s); cstl_wstring_init(&w);
    cstl_string_set_str(&s, "ab"); cstl_wstring_set_str(&w, L"ab");
    for (c = 0; c < n; c++) {
        TICK("string.append-erase");
        cstl_string_append_ch(&s, 1, 'c'); cstl_wstring_insert_ch(&w, 1, 1, L'x');
        CK(cstl_string_size(&s) == 3 && strcmp(cstl_string_str(&s), "abc") == 0 && cstl_wstring_size(&w) == 3 && *cstl_wstring_at(&w, 1) == L'x', "string.after-append", "cycle %llu", (unsigned long long)c);
        cstl_string_erase(&s, 2, 1); cstl_wstring_erase(&w, 1, 1);
        CK(cstl_string_size(&s) == 2 && strcmp(cstl_string_str(&s), "ab") == 0 && cstl_wstring_size(&w) == 2 && cstl_wstring_str(&w)[1] == L'b' && cstl_wstring_str(&w)[2] == 0, "string.after-erase", "cycle %llu", (unsigned long long)c);
        if (EVERY(c, n)) VRT_COUNT("cycles.checkpoints");
    }
    cstl_string_clear(&s); cstl_wstring_clear(&w);
    VRT_COUNT_N("cycles.string", n);
}
static void c_dlist(void)
{
    struct cstl_dlist l;
    const uint64_t n = ncyc(0);
    uint64_t c;
    mk();
    cstl_dlist_init(&l, offsetof(struct el, dn));
    cstl_dlist_push_back(&l, E[0]); cstl_dlist_push_back(&l, E[1]);
    for (c = 0; c < n; c++) {
        TICK("dlist.push-pop");
        if (c & 1) { cstl_dlist_push_back(&l, E[2]); CK(cstl_dlist_back(&l) == E[2] && cstl_dlist_size(&l) == 3, "dlist.after-push", "cycle %llu", (unsigned long long)c); CK(cstl_dlist_pop_back(&l) == E[2], "dlist.pop", "cycle %llu", (unsigned long long)c); }
        else { cstl_dlist_push_front(&l, E[2]); CK(cstl_dlist_front(&l) == E[2] && cstl_dlist_size(&l) == 3, "dlist.after-push", "cycle %llu", (unsigned long long)c); CK(cstl_dlist_pop_front(&l) == E[2], "dlist.pop", "cycle %llu", (unsigned long long)c); }
        if ((c & 7) == 7) { cstl_dlist_reverse(&l); cstl_dlist_sort(&l, cmp_el, NULL); }
        CK(cstl_dlist_size(&l) == 2 && cstl_dlist_front(&l) == E[0] && cstl_dlist_back(&l) == E[1], "dlist.after-pop", "cycle %llu: size/front/back", (unsigned long long)c);
        if (EVERY(c, n)) { int v = 0; cstl_dlist_foreach(&l, cnt_visit, &v, CSTL_DLIST_FOREACH_DIR_REV); CK(v == 2, "dlist.checkpoint", "after %llu cycles: %d visits", (unsigned long long)c + 1, v); VRT_COUNT("cycles.checkpoints"); }
    }
    VRT_COUNT_N("cycles.dlist", n);
    unmk();
    big_lists(1);
}
static void c_slist(void)
{
    struct cstl_slist l;
    const uint64_t n = ncyc(0);
    uint64_t c;
    mk();
    cstl_slist_init(&l, offsetof(struct el, sn));
    cstl_slist_push_back(&l, E[0]); cstl_slist_push_back(&l, E[1]);
    for (c = 0; c < n; c++) {
        TICK("slist.push-pop");
        if (c & 1) { cstl_slist_push_back(&l, E[2]); CK(cstl_slist_back(&l) == E[2] && cstl_slist_size(&l) == 3, "slist.after-push", "cycle %llu", (unsigned long long)c); CK(cstl_slist_erase_after(&l, E[1]) == E[2], "slist.erase_after", "cycle %llu", (unsigned long long)c); }
        else { cstl_slist_push_front(&l, E[2]); CK(cstl_slist_front(&l) == E[2] && cstl_slist_size(&l) == 3, "slist.after-push", "cycle %llu", (unsigned long long)c); CK(cstl_slist_pop_front(&l) == E[2], "slist.pop", "cycle %llu", (unsigned long long)c); }
        if ((c & 7) == 7) { cstl_slist_reverse(&l); cstl_slist_sort(&l, cmp_el, NULL); }
        CK(cstl_slist_size(&l) == 2 && cstl_slist_front(&l) == E[0] && cstl_slist_back(&l) == E[1], "slist.after-pop", "cycle %llu: size/front/back", (unsigned long long)c);
        if (EVERY(c, n)) { int v = 0; cstl_slist_foreach(&l, cnt_visit, &v); CK(v == 2, "slist.checkpoint", "after %llu cycles: %d visits", (unsigned long long)c + 1, v); VRT_COUNT("cycles.checkpoints"); }
    }
    VRT_COUNT_N("cycles.slist", n);
    unmk();
    big_lists(0);
}
static void c_array(void)
{
    cstl_array_t a, s, t;
    const uint64_t n = ncyc(1);
    uint64_t c;
    char *d;
    cstl_array_init(&a); cstl_array_init(&s); cstl_array_init(&t);
    cstl_array_alloc(&a, 16, 4);
    d = cstl_array_data(&a);
    for (c = 0; c < n; c++) {
        TICK("array.slice-reset");
        cstl_array_slice(&a, 2, 9, &s);
        cstl_array_slice(&s, 1, 3, &t);
        CK(cstl_array_size(&s) == 7 && cstl_array_size(&t) == 2 && cstl_array_at(&t, 1) == d + 16, "array.slices", "cycle %llu: sizes/addresses of the views", (unsigned long long)c);
        if (c & 1) { cstl_array_reset(&s); cstl_array_reset(&t); } else { cstl_array_reset(&t); cstl_array_unslice(&s, &s); cstl_array_reset(&s); }
        CK(cstl_array_size(&a) == 16 && cstl_array_data(&a) == d && vrt_lib_live() == 2, "array.after-reset", "cycle %llu: the buffer after its views went", (unsigned long long)c);
        if (EVERY(c, n)) VRT_COUNT("cycles.checkpoints");
    }
    cstl_array_reset(&a);
    CK(vrt_lib_live() == 0, "array.leak", "blocks left");
    VRT_COUNT_N("cycles.array", n);
}

/* ---- big containers cleared in one call (also while the allocator refuses everything) ----
 * clear of 2^20 + 3 list elements, 300 000 tree / heap elements, 6000 map entries: an implementation that recurses once per
 * element, or that needs scratch memory proportional to the container, shows only at such sizes. */
static long big_seen;
static const struct el *big_lo, *big_hi;
static void big_cb(void *e, void *p)
{
    (void)p;
    if ((const struct el *)e < big_lo || (const struct el *)e >= big_hi || ((struct el *)e)->pad != 0x51)
        vrt_fail("cycles.bigclear.callback-for-something-else", "the clear callback received %p, not one of the container's elements, or an element twice", e);
    ((struct el *)e)->pad = 0x52;
    big_seen++;
}
static struct el *big_mk(long n)
{
    struct el *a = vrt_alloc((size_t)n * sizeof(*a));
    long i;
    for (i = 0; i < n; i++) { a[i].pad = 0x51; a[i].key = (int)((i * 2654435761u) >> 8); }
    big_lo = a; big_hi = a + n; big_seen = 0;
    return a;
}
#define BIGCLEAR(fam, n, nomem, stmt) do { VRT_OP2(fam ".clear", "%ld elements, allocator %ld (0 normal, 1 refuses everything)", (long)(n), (long)(nomem)); \
        if (nomem) { VRT_NOMEM(stmt); } else { stmt; } \
        CK(big_seen == (long)(n), "bigclear." fam ".count", "clear of %ld elements handed over %ld", (long)(n), big_seen); VRT_COUNT("cycles.bigclear"); } while (0)
static void big_lists(int dl)
{
    const long n = (1L << 20) + 3;
    int round;
    for (round = 0; round < 2; round++) {
        struct el *a = big_mk(n);
        long i;
        if (dl) {
            struct cstl_dlist l;
            cstl_dlist_init(&l, offsetof(struct el, dn));
            for (i = 0; i < n; i++) cstl_dlist_push_back(&l, &a[i]);
            BIGCLEAR("dlist", n, round, cstl_dlist_clear(&l, big_cb));
            CK(cstl_dlist_size(&l) == 0 && cstl_dlist_front(&l) == NULL, "bigclear.dlist.not-empty", "the list is not empty after clear");
        } else {
            struct cstl_slist l;
            cstl_slist_init(&l, offsetof(struct el, sn));
            for (i = 0; i < n; i++) cstl_slist_push_back(&l, &a[i]);
            BIGCLEAR("slist", n, round, cstl_slist_clear(&l, big_cb));
            CK(cstl_slist_size(&l) == 0 && cstl_slist_front(&l) == NULL, "bigclear.slist.not-empty", "the list is not empty after clear");
        }
        vrt_free(a);
    }
}
static void big_trees(void)
{
    const long n = 300000;
    int round;
    for (round = 0; round < 4; round++) {
        struct el *a = big_mk(n);
        long i;
        if (round & 1) {
            struct cstl_rbtree t;
            cstl_rbtree_init(&t, cmp_el, NULL, offsetof(struct el, rn));
            for (i = 0; i < n; i++) cstl_rbtree_insert(&t, &a[i], NULL);
            BIGCLEAR("rbtree", n, round >> 1, cstl_rbtree_clear(&t, big_cb, NULL));
            CK(cstl_rbtree_size(&t) == 0, "bigclear.rbtree.not-empty", "size after clear");
        } else {
            struct cstl_bintree t;
            cstl_bintree_init(&t, cmp_el, NULL, offsetof(struct el, bn));
            for (i = 0; i < n; i++) cstl_bintree_insert(&t, &a[i], NULL);
            BIGCLEAR("bintree", n, round >> 1, cstl_bintree_clear(&t, big_cb, NULL));
            CK(cstl_bintree_size(&t) == 0, "bigclear.bintree.not-empty", "size after clear");
        }
        vrt_free(a);
    }
}
static void big_heap(void)
{
    const long n = 300000;
    int round;
    for (round = 0; round < 2; round++) {
        struct el *a = big_mk(n);
        struct cstl_heap h;
        long i;
        cstl_heap_init(&h, cmp_el, NULL, offsetof(struct el, hn));
        for (i = 0; i < n; i++) cstl_heap_push(&h, &a[i]);
        BIGCLEAR("heap", n, round, cstl_heap_clear(&h, big_cb));
        CK(cstl_heap_size(&h) == 0 && cstl_heap_get(&h) == NULL, "bigclear.heap.not-empty", "the heap is not empty after clear");
        vrt_free(a);
    }
}
static long map_seen;
static void big_map_cb(void *i, void *p) { (void)i; (void)p; map_seen++; }
static void big_map(void)
{
    const long n = 6000;
    int round;
    for (round = 0; round < 2; round++) {
        cstl_map_t m;
        int *k = vrt_alloc((size_t)n * sizeof(int));
        long i;
        cstl_map_init(&m, cmp_int, NULL);
        for (i = 0; i < n; i++) { k[i] = (int)((i * 7919) % 100003); CK(cstl_map_insert(&m, &k[i], &k[i], NULL) == 0, "bigclear.map.insert", "insert %ld", i); }
        map_seen = 0; big_seen = 0;
        VRT_OP2("map.clear", "%ld entries, allocator %ld (0 normal, 1 refuses everything)", n, (long)round);
        if (round) { VRT_NOMEM(cstl_map_clear(&m, big_map_cb, NULL)); } else cstl_map_clear(&m, big_map_cb, NULL);
        CK(map_seen == n && cstl_map_size(&m) == 0 && vrt_lib_live() == 0, "bigclear.map.count", "clear of %ld entries: %ld callbacks, %zu library blocks left", n, map_seen, vrt_lib_live());
        VRT_COUNT("cycles.bigclear");
        vrt_free(k);
    }
}
static void big_hash(void)
{
    const long n = 300000;
    struct el *a = big_mk(n);
    struct cstl_hash h;
    long i;
    cstl_hash_init(&h, offsetof(struct el, xn));
    cstl_hash_resize(&h, 1000, NULL);
    for (i = 0; i < n; i++) cstl_hash_insert(&h, (size_t)a[i].key, &a[i]);
    cstl_hash_resize(&h, 300, cstl_hash_div);      /* left pending: clear must still reach everything */
    VRT_OP1("hash.clear", "%ld elements in chains of ~1000, rehash pending", n);
    VRT_NOMEM(cstl_hash_clear(&h, big_cb));
    CK(big_seen == n && cstl_hash_size(&h) == 0, "bigclear.hash.count", "clear of %ld elements handed over %ld", n, big_seen);
    VRT_COUNT("cycles.bigclear");
    vrt_free(a);
}

static const struct { const char *name; void (*f)(void); } fam[] = {
    { "trees", c_trees }, { "heap", c_heap }, { "hash", c_hash }, { "map", c_map }, { "vector", c_vector }, { "string", c_string },
    { "dlist", c_dlist }, { "slist", c_slist }, { "array", c_array },
};
#define NFAM ((int)(sizeof(fam) / sizeof(fam[0])))
static uint64_t ncases(void) { return NFAM; }
static void run_case(uint64_t idx)
{
    const int k = (int)idx;
    if (!(strcmp(vrt_mode, fam[k].name) == 0 || strcmp(vrt_mode, "all") == 0 || vrt_mode[0] == 0)) return;
    vrt_case_note("one operation pair repeated on one small %s object", fam[k].name);
    vrt_state(fam[k].name);
    fam[k].f();
    vrt_sig(0, vrt_mix(0xc7c1e5, (uint64_t)k));
    VRT_COUNT("cycles.families");
}
static void winit(void) { vrt_sig_name(0, "families"); }
static const char *const required[] = { "cycles.families", "cycles.checkpoints", NULL };
static const struct vrt_harness H = { "cycles", ncases, run_case, winit, NULL, required, 9 };
int main(int argc, char **argv) { return vrt_main(argc, argv, &H); }
