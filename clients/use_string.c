/* needs: cstl_string_init cstl_string_set_str cstl_string_size cstl_string_str cstl_string_clear cstl_wstring_init cstl_wstring_set_str cstl_wstring_size cstl_wstring_clear */
static int c18_use_string(void)
{
    cstl_string_t s;
    cstl_wstring_t w;
    int rc = 0;

    cstl_string_init(&s);
    if (cstl_string_size(&s) != 0) {
        return 1;
    }
    cstl_string_set_str(&s, "abc");
    if (cstl_string_size(&s) != 3 || cstl_string_str(&s)[1] != 'b') {
        rc = 2;
    }
    cstl_string_clear(&s);

    cstl_wstring_init(&w);
    cstl_wstring_set_str(&w, L"ab");
    if (cstl_wstring_size(&w) != 2) {
        rc = 3;
    }
    cstl_wstring_clear(&w);
    return rc;
}
