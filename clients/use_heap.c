/* needs: cstl_heap_init cstl_heap_size cstl_heap_push cstl_heap_get cstl_heap_pop */
struct c18_heap_elem
{
    int k;
    struct cstl_heap_node n;
};
static int c18_heap_cmp(const void * const a, const void * const b, void * const p)
{
    (void)p;
    return ((const struct c18_heap_elem *)a)->k - ((const struct c18_heap_elem *)b)->k;
}
static int c18_use_heap(void)
{
    struct cstl_heap h;
    struct c18_heap_elem e[2];

    e[0].k = 1;
    e[1].k = 2;
    cstl_heap_init(&h, c18_heap_cmp, NULL, offsetof(struct c18_heap_elem, n));
    if (cstl_heap_size(&h) != 0) {
        return 1;
    }
    cstl_heap_push(&h, &e[0]);
    cstl_heap_push(&h, &e[1]);
    if (cstl_heap_size(&h) != 2 || cstl_heap_get(&h) != &e[1]) {
        return 2;
    }
    if (cstl_heap_pop(&h) != &e[1] || cstl_heap_pop(&h) != &e[0]) {
        return 3;
    }
    return cstl_heap_size(&h) != 0;
}
