/* needs: cstl_swap cstl_fls */
static int c18_use_common(void)
{
    int a = 1, b = 2, t = 0;
    volatile int r;

    cstl_swap(&a, &b, &t, sizeof(a));
    if (a != 2 || b != 1) {
        return 1;
    }
    r = cstl_fls(1ul);
    if (r != 0) {
        return 2;
    }
    r = cstl_fls(0ul);
    if (r != -1) {
        return 3;
    }
    return 0;
}
