/* needs: cstl_dlist_init cstl_dlist_size cstl_dlist_push_back cstl_dlist_front cstl_dlist_pop_front */
struct c18_dlist_elem
{
    int k;
    struct cstl_dlist_node n;
};
static int c18_use_dlist(void)
{
    struct cstl_dlist l;
    struct c18_dlist_elem e[2];

    e[0].k = 1;
    e[1].k = 2;
    cstl_dlist_init(&l, offsetof(struct c18_dlist_elem, n));
    if (cstl_dlist_size(&l) != 0) {
        return 1;
    }
    cstl_dlist_push_back(&l, &e[0]);
    cstl_dlist_push_back(&l, &e[1]);
    if (cstl_dlist_size(&l) != 2 || cstl_dlist_front(&l) != &e[0]) {
        return 2;
    }
    if (cstl_dlist_pop_front(&l) != &e[0] || cstl_dlist_pop_front(&l) != &e[1]) {
        return 3;
    }
    return cstl_dlist_size(&l) != 0;
}
