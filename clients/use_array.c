/* needs: cstl_array_init cstl_array_alloc cstl_array_size cstl_array_at cstl_array_reset */
static int c18_use_array(void)
{
    cstl_array_t a;
    int rc = 0;

    cstl_array_init(&a);
    if (cstl_array_size(&a) != 0) {
        rc = 1;
    }
    cstl_array_alloc(&a, 4, sizeof(int));
    if (cstl_array_size(&a) != 4) {
        rc = 2;
    } else {
        *(int *)cstl_array_at(&a, 3) = 7;
        if (*(int *)cstl_array_at(&a, 3) != 7) {
            rc = 3;
        }
    }
    cstl_array_reset(&a);
    if (cstl_array_size(&a) != 0) {
        rc = 4;
    }
    return rc;
}
