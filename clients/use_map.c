/* needs: cstl_map_init cstl_map_size cstl_map_insert cstl_map_find cstl_map_iterator_end cstl_map_iterator_eq cstl_map_clear */
static int c18_map_cmp(const void * const a, const void * const b, void * const p)
{
    (void)p;
    return *(const int *)a - *(const int *)b;
}
static int c18_use_map(void)
{
    cstl_map_t m;
    cstl_map_iterator_t it;
    int k[2], v[2];
    int rc = 0;

    k[0] = 1; k[1] = 2;
    v[0] = 10; v[1] = 20;
    cstl_map_init(&m, c18_map_cmp, NULL);
    if (cstl_map_size(&m) != 0) {
        return 1;
    }
    if (cstl_map_insert(&m, &k[0], &v[0], NULL) != 0
        || cstl_map_insert(&m, &k[1], &v[1], &it) != 0) {
        rc = 2;
    } else if (cstl_map_size(&m) != 2 || it.val != &v[1]) {
        rc = 3;
    } else {
        cstl_map_find(&m, &k[0], &it);
        if (cstl_map_iterator_eq(&it, cstl_map_iterator_end(&m)) || it.val != &v[0]) {
            rc = 4;
        }
    }
    cstl_map_clear(&m, NULL, NULL);
    if (cstl_map_size(&m) != 0) {
        rc = 5;
    }
    return rc;
}
