/* needs: cstl_vector_init cstl_vector_size cstl_vector_resize cstl_vector_at cstl_vector_clear */
static int c18_use_vector(void)
{
    struct cstl_vector v;
    int rc = 0;

    cstl_vector_init(&v, sizeof(int));
    if (cstl_vector_size(&v) != 0) {
        return 1;
    }
    cstl_vector_resize(&v, 4);
    if (cstl_vector_size(&v) != 4) {
        rc = 2;
    } else {
        *(int *)cstl_vector_at(&v, 3) = 7;
        if (*(int *)cstl_vector_at(&v, 3) != 7) {
            rc = 3;
        }
    }
    cstl_vector_clear(&v);
    if (cstl_vector_size(&v) != 0) {
        rc = 4;
    }
    return rc;
}
