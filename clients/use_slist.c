/* needs: cstl_slist_init cstl_slist_size cstl_slist_push_back cstl_slist_front cstl_slist_pop_front */
struct c18_slist_elem
{
    int k;
    struct cstl_slist_node n;
};
static int c18_use_slist(void)
{
    struct cstl_slist l;
    struct c18_slist_elem e[2];

    e[0].k = 1;
    e[1].k = 2;
    cstl_slist_init(&l, offsetof(struct c18_slist_elem, n));
    if (cstl_slist_size(&l) != 0) {
        return 1;
    }
    cstl_slist_push_back(&l, &e[0]);
    cstl_slist_push_back(&l, &e[1]);
    if (cstl_slist_size(&l) != 2 || cstl_slist_front(&l) != &e[0]) {
        return 2;
    }
    if (cstl_slist_pop_front(&l) != &e[0] || cstl_slist_pop_front(&l) != &e[1]) {
        return 3;
    }
    return cstl_slist_size(&l) != 0;
}
