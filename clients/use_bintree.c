/* needs: cstl_bintree_init cstl_bintree_size cstl_bintree_insert cstl_bintree_find cstl_bintree_erase */
struct c18_bintree_elem
{
    int k;
    struct cstl_bintree_node n;
};
static int c18_bintree_cmp(const void * const a, const void * const b, void * const p)
{
    (void)p;
    return ((const struct c18_bintree_elem *)a)->k - ((const struct c18_bintree_elem *)b)->k;
}
static int c18_use_bintree(void)
{
    struct cstl_bintree bt;
    struct c18_bintree_elem e[2];

    e[0].k = 1;
    e[1].k = 2;
    cstl_bintree_init(&bt, c18_bintree_cmp, NULL, offsetof(struct c18_bintree_elem, n));
    if (cstl_bintree_size(&bt) != 0) {
        return 1;
    }
    cstl_bintree_insert(&bt, &e[0], NULL);
    cstl_bintree_insert(&bt, &e[1], NULL);
    if (cstl_bintree_size(&bt) != 2 || cstl_bintree_find(&bt, &e[1], NULL) != &e[1]) {
        return 2;
    }
    if (cstl_bintree_erase(&bt, &e[0]) != &e[0] || cstl_bintree_erase(&bt, &e[1]) != &e[1]) {
        return 3;
    }
    return cstl_bintree_size(&bt) != 0;
}
