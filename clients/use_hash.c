/* needs: cstl_hash_init cstl_hash_size cstl_hash_load cstl_hash_resize cstl_hash_insert cstl_hash_find cstl_hash_erase cstl_hash_clear */
struct c18_hash_elem
{
    size_t k;
    struct cstl_hash_node n;
};
static int c18_use_hash(void)
{
    struct cstl_hash h;
    struct c18_hash_elem e[2];
    int rc = 0;

    e[0].k = 10;
    e[1].k = 20;
    cstl_hash_init(&h, offsetof(struct c18_hash_elem, n));
    if (cstl_hash_size(&h) != 0) {
        return 1;
    }
    cstl_hash_resize(&h, 4, NULL);
    cstl_hash_insert(&h, e[0].k, &e[0]);
    cstl_hash_insert(&h, e[1].k, &e[1]);
    if (cstl_hash_size(&h) != 2 || cstl_hash_find(&h, 20, NULL, NULL) != &e[1]) {
        rc = 2;
    }
    if (!(cstl_hash_load(&h) > 0.0f)) {
        rc = 3;
    }
    cstl_hash_erase(&h, &e[0]);
    if (cstl_hash_size(&h) != 1) {
        rc = 4;
    }
    cstl_hash_clear(&h, NULL);
    if (cstl_hash_size(&h) != 0) {
        rc = 5;
    }
    return rc;
}
