/* needs: cstl_rbtree_init cstl_rbtree_size cstl_rbtree_insert cstl_rbtree_find cstl_rbtree_erase */
struct c18_rbtree_elem
{
    int k;
    struct cstl_rbtree_node n;
};
static int c18_rbtree_cmp(const void * const a, const void * const b, void * const p)
{
    (void)p;
    return ((const struct c18_rbtree_elem *)a)->k - ((const struct c18_rbtree_elem *)b)->k;
}
static int c18_use_rbtree(void)
{
    struct cstl_rbtree t;
    struct c18_rbtree_elem e[2];

    e[0].k = 1;
    e[1].k = 2;
    cstl_rbtree_init(&t, c18_rbtree_cmp, NULL, offsetof(struct c18_rbtree_elem, n));
    if (cstl_rbtree_size(&t) != 0) {
        return 1;
    }
    cstl_rbtree_insert(&t, &e[0], NULL);
    cstl_rbtree_insert(&t, &e[1], NULL);
    if (cstl_rbtree_size(&t) != 2 || cstl_rbtree_find(&t, &e[1], NULL) != &e[1]) {
        return 2;
    }
    if (cstl_rbtree_erase(&t, &e[0]) != &e[0] || cstl_rbtree_erase(&t, &e[1]) != &e[1]) {
        return 3;
    }
    return cstl_rbtree_size(&t) != 0;
}
