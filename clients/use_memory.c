/* needs: cstl_unique_ptr_init cstl_unique_ptr_alloc cstl_unique_ptr_get cstl_unique_ptr_reset cstl_shared_ptr_init cstl_shared_ptr_alloc cstl_shared_ptr_get cstl_shared_ptr_unique cstl_shared_ptr_reset cstl_weak_ptr_init cstl_weak_ptr_from cstl_weak_ptr_reset */
static int c18_use_memory(void)
{
    cstl_unique_ptr_t up;
    cstl_shared_ptr_t sp;
    cstl_weak_ptr_t wp;
    int rc = 0;

    cstl_unique_ptr_init(&up);
    cstl_unique_ptr_alloc(&up, 16, NULL, NULL);
    if (cstl_unique_ptr_get(&up) == NULL) {
        rc = 1;
    }
    cstl_unique_ptr_reset(&up);
    if (cstl_unique_ptr_get(&up) != NULL) {
        rc = 2;
    }

    cstl_shared_ptr_init(&sp);
    cstl_weak_ptr_init(&wp);
    cstl_shared_ptr_alloc(&sp, 8, NULL);
    if (cstl_shared_ptr_get(&sp) == NULL || !cstl_shared_ptr_unique(&sp)) {
        rc = 3;
    }
    cstl_weak_ptr_from(&wp, &sp);
    cstl_weak_ptr_reset(&wp);
    cstl_shared_ptr_reset(&sp);
    if (cstl_shared_ptr_get(&sp) != NULL) {
        rc = 4;
    }
    return rc;
}
