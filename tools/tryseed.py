#!/usr/bin/env python3
"""tools/tryseed.py <seed-dir> <PROPERTY-ID> [<name>] [--checks C03,C04] [--keep-as seeded/<name>]

<seed-dir> contains patch.diff, demo.c (or other demo files), run.sh, meta.txt as delivered by a
bug-seeding agent.  Confirms in a scratch copy of /repo (under /tmp, removed afterwards):
  1. the demo passes on the unmodified tree,
  2. the patch applies, `make build` and `make test` (52 checks) pass with it,
  3. the demo fails with it,
then runs the quick check(s) of the property with VERIF_REPO pointing at the patched copy and reports
whether they raise a VIOLATION.  With --keep-as the confirmed change is stored under /verif/seeded/."""
import sys, os, subprocess, shutil, tempfile, json, re, time

root = os.path.dirname(os.path.dirname(os.path.abspath(__file__)))
args = sys.argv[1:]
seed = os.path.abspath(args[0]); pid = args[1]
checks = [pid]; keep = None; tier = 'quick'
i = 2
while i < len(args):
    if args[i] == '--checks': checks = args[i + 1].split(','); i += 2
    elif args[i] == '--keep-as': keep = args[i + 1]; i += 2
    elif args[i] == '--tier': tier = args[i + 1]; i += 2
    else: i += 1

def sh(cmd, cwd, timeout=900):
    try:
        p = subprocess.run(cmd, shell=True, cwd=cwd, capture_output=True, text=True, timeout=timeout)
        return p.returncode, (p.stdout + p.stderr)[-3000:]
    except subprocess.TimeoutExpired:
        return 124, 'timeout'

d = tempfile.mkdtemp(prefix='verif-seed-')
res = {'property': pid, 'seed_dir': seed}
try:
    r = os.path.join(d, 'r')
    shutil.copytree('/repo', r, ignore=shutil.ignore_patterns('.git'))
    for f in os.listdir(seed):
        if f not in ('patch.diff', 'meta.txt'):
            shutil.copy(os.path.join(seed, f), os.path.join(r, f))
    runsh = 'sh ./run.sh' if os.path.exists(os.path.join(seed, 'run.sh')) else None
    if runsh:
        rc0, out0 = sh(runsh, r)
        res['demo_unmodified_rc'] = rc0
    rc, out = sh('patch -p1 < %s' % os.path.join(seed, 'patch.diff'), r)
    res['patch_applies'] = rc == 0
    if rc != 0:
        res['patch_out'] = out
    rc, out = sh('make build 2>&1 | tail -3', r)
    rc, out = sh('make test 2>&1 | grep Checks:', r)
    res['make_test'] = out.strip()
    res['tests_pass'] = 'Checks: 52, Failures: 0, Errors: 0' in out
    if runsh:
        rc1, out1 = sh(runsh, r)
        res['demo_patched_rc'] = rc1
        res['demo_patched_tail'] = out1[-400:]
    res['checks'] = {}
    for cid in checks:
        t0 = time.time()
        env = dict(os.environ, VERIF_REPO=r)
        p = subprocess.run([os.path.join(root, 'check'), cid, '--tier', tier], env=env, capture_output=True, text=True)
        keys = re.findall(r'key=(\S+?):', p.stderr)
        res['checks'][cid] = {'exit': p.returncode, 'verdict': {0: 'MISSED', 1: 'CAUGHT', 2: 'INCONCLUSIVE'}.get(p.returncode, '?'),
                              'keys': keys[:6], 'wall_s': round(time.time() - t0, 1)}
finally:
    shutil.rmtree(d, ignore_errors=True)

ok = res.get('patch_applies') and res.get('tests_pass') and res.get('demo_unmodified_rc', 0) == 0 and res.get('demo_patched_rc', 1) != 0
res['confirmed'] = bool(ok)
print(json.dumps(res, indent=1))
if keep and ok:
    dst = os.path.join(root, keep)
    os.makedirs(dst, exist_ok=True)
    for f in os.listdir(seed):
        shutil.copy(os.path.join(seed, f), os.path.join(dst, f))
    meta = {'property': pid, 'breaks': open(os.path.join(seed, 'meta.txt')).read()[:3000] if os.path.exists(os.path.join(seed, 'meta.txt')) else '',
            'confirmed': {'demo_unmodified_rc': res.get('demo_unmodified_rc'), 'demo_patched_rc': res.get('demo_patched_rc'),
                          'make_test_with_patch': res.get('make_test')},
            'what_was_run': 'tools/tryseed.py: scratch copy of /repo, run.sh before/after `patch -p1 < patch.diff`, make build && make test, then ./check with VERIF_REPO=<copy>',
            'checks': res['checks']}
    json.dump(meta, open(os.path.join(dst, 'meta.json'), 'w'), indent=1)
    print('kept as', dst)
