#!/usr/bin/env python3
"""tools/trymut.py <mutfile.py> -- self-validation helper.
mutfile defines MUTANTS = [ {name, file, old, new, checks:[ids]} ... ]; each is applied to a scratch
copy of /repo under /tmp, the pinned tests are run there, then the quick checks with VERIF_REPO."""
import sys, os, subprocess, shutil, tempfile, re, runpy
muts = runpy.run_path(sys.argv[1])['MUTANTS']
only = sys.argv[2:]                      # optional mutant-name filters
root = os.path.dirname(os.path.dirname(os.path.abspath(__file__)))
for m in muts:
    if only and not any(o in m['name'] for o in only):
        continue
    d = tempfile.mkdtemp(prefix='verif-mut-')
    try:
        r = os.path.join(d, 'r')
        shutil.copytree('/repo', r, ignore=shutil.ignore_patterns('.git'))
        p = os.path.join(r, m['file'])
        s = open(p).read()
        if s.count(m['old']) != 1:
            print('%-40s PATCH DOES NOT APPLY (%d matches)' % (m['name'], s.count(m['old'])))
            continue
        open(p, 'w').write(s.replace(m['old'], m['new']))
        t = subprocess.run('make -C %s test 2>&1 | grep Checks:' % r, shell=True, capture_output=True, text=True).stdout.strip()
        tests_ok = 'Failures: 0, Errors: 0' in t
        res = []
        for cid in m['checks']:
            env = dict(os.environ, VERIF_REPO=r)
            o = subprocess.run([os.path.join(root, 'check'), cid] + (['--only-config', os.environ['TRYMUT_ONLY_CONFIG']] if os.environ.get('TRYMUT_ONLY_CONFIG') else []), env=env, capture_output=True, text=True)
            keys = re.findall(r'key=(\S+?):', o.stderr)
            res.append('%s:%s%s' % (cid, {0: 'MISSED', 1: 'CAUGHT', 2: 'INCONCLUSIVE'}.get(o.returncode, o.returncode),
                                    (' [' + ', '.join(keys[:3]) + ']') if keys else ''))
        print('%-40s tests:%s  %s' % (m['name'], 'pass' if tests_ok else 'FAIL', '  '.join(res)), flush=True)
    finally:
        shutil.rmtree(d, ignore_errors=True)
