#!/usr/bin/env python3
"""tools/libcov.py [--run [IDs...]] [--tier quick] : which library lines / branches do the workloads reach?

--run executes `./check <ID> --cov` (gcov build of every configuration of the check, no sanitizer; evidence of such
a run goes to .build/evidence-scratch, never to evidence/) for the given IDs (default: all) and then aggregates
.build/cov/<ID>.json.  Without --run only the aggregation is done.

Output: COVERAGE.md in /verif: per library file the executable lines outside the project's own unit tests
(`#ifdef __cfg_test__` ... end of file) that NO workload executed, and the branch outcomes never taken, each with
the checks that execute the line at all.  This is the honest limit of a runtime-monitoring verdict: nothing is
concluded about code the workloads never drive."""
import sys, os, json, subprocess, re

root = os.path.dirname(os.path.dirname(os.path.abspath(__file__)))
REPO = os.environ.get('VERIF_REPO', '/repo')
args = sys.argv[1:]
tier = 'quick'
if '--tier' in args:
    i = args.index('--tier'); tier = args[i + 1]; del args[i:i + 2]
ids = [a for a in args if re.match(r'C\d\d$', a)]
allids = ['C%02d' % i for i in range(1, 21)]
if '--run' in args:
    for pid in ids or allids:
        if pid == 'C18':
            continue
        p = subprocess.run([os.path.join(root, 'check'), pid, '--cov', '--tier', tier], capture_output=True, text=True)
        print(pid, 'rc', p.returncode, (p.stdout.strip().splitlines() or [''])[-1], flush=True)

cov = {}
for pid in allids:
    f = os.path.join(root, '.build', 'cov', pid + '.json')
    if os.path.exists(f):
        cov[pid] = json.load(open(f))
if not cov:
    print('no coverage data; use --run'); sys.exit(1)

files = sorted({f for c in cov.values() for f in c['lines']})
out = ['# Library code reached by the quick-tier workloads (gcov, all configurations of every check)', '',
       'Written by tools/libcov.py from `./check <ID> --cov` runs of: ' + ' '.join(sorted(cov)) + '.',
       'Lines after `#ifdef __cfg_test__` (the project\'s own unit tests) are not library code and are left out.', '']
summary = []
detail = []
for f in files:
    path = os.path.join(REPO, f)
    try:
        src = open(path, errors='replace').read().splitlines()
    except OSError:
        continue
    cut = len(src) + 1
    for n, l in enumerate(src, 1):
        if re.match(r'\s*#\s*ifdef\s+__cfg_test__', l):
            cut = n; break
    tot = hit = btot = bhit = 0
    missing = []
    bmissing = []
    linenos = sorted({int(n) for c in cov.values() for n in c['lines'].get(f, {})})
    for n in linenos:
        if n >= cut:
            continue
        by = {pid: c['lines'].get(f, {}).get(str(n), 0) for pid, c in cov.items()}
        tot += 1
        if sum(by.values()) > 0:
            hit += 1
        else:
            missing.append(n)
    # branches: sum over checks where the branch vector has the same shape
    bkeys = sorted({k for c in cov.values() for k in c['branches'].get(f, {})}, key=lambda k: (int(k.split('/')[0]), k))
    for k in bkeys:
        n = int(k.split('/')[0])
        if n >= cut:
            continue
        vecs = [c['branches'][f][k] for c in cov.values() if k in c['branches'].get(f, {})]
        ln = max(len(v) for v in vecs)
        tot_v = [sum(v[i] for v in vecs if len(v) == ln) for i in range(ln)]
        for i, v in enumerate(tot_v):
            btot += 1
            if v:
                bhit += 1
            else:
                who = [pid for pid, c in cov.items() if c['lines'].get(f, {}).get(str(n), 0)]
                bmissing.append((n, i, k, who))
    if tot == 0:
        continue
    summary.append('| %s | %d/%d | %d/%d |' % (f, hit, tot, bhit, btot))
    if missing or bmissing:
        detail.append('## ' + f)
        for n in missing:
            detail.append('* line %d never executed: `%s`' % (n, src[n - 1].strip()[:110]))
        for n, i, k, who in bmissing:
            detail.append('* line %d branch outcome #%d never taken (%s): `%s`  [line run by %s]'
                          % (n, i, k, src[n - 1].strip()[:90], ' '.join(who) or 'nobody'))
        detail.append('')
out += ['| file | lines executed | branch outcomes taken |', '|---|---|---|'] + summary + [''] + detail
open(os.path.join(root, 'COVERAGE.md'), 'w').write('\n'.join(out) + '\n')
print('\n'.join(summary))
print('written COVERAGE.md; uncovered detail lines:', sum(1 for d in detail if d.startswith('*')))
