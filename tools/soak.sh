#!/bin/sh
# tools/soak.sh <tier> <seeds, comma separated or 'std'> <ids...> : run each check for several seeds; one line per run
tier=$1; shift
seeds=$1; shift
[ "$seeds" = std ] && seeds="0,2,3,12345,2147483647"
for id in "$@"; do
  for seed in $(echo $seeds | tr ',' ' '); do
    t0=$(date +%s)
    out=$(VERIF_SEED=$seed ./check $id --tier $tier 2>&1); rc=$?
    echo "$id seed=$seed tier=$tier rc=$rc $(( $(date +%s) - t0 ))s $(echo "$out" | grep -E '^(HELD|VIOLATION|INCONCLUSIVE|KNOWN)' | head -3 | tr '\n' ' ')"
    if [ $rc -ne 0 ]; then echo "$out" | grep -E "key=" | head -5; fi
  done
done
