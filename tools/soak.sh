#!/bin/sh
# tools/soak.sh <tier> <ids...> : run each check for several seeds; print one line per run
tier=$1; shift
for id in "$@"; do
  for seed in 0 2 3 12345 2147483647; do
    out=$(VERIF_SEED=$seed ./check $id --tier $tier 2>&1); rc=$?
    echo "$id seed=$seed tier=$tier rc=$rc $(echo "$out" | grep -E '^(HELD|VIOLATION|INCONCLUSIVE|KNOWN)' | head -3 | tr '\n' ' ')"
    if [ $rc -ne 0 ]; then echo "$out" | grep -E "key=" | head -5; fi
  done
done
