#!/usr/bin/env python3
"""tools/run_corpus.py [--tier quick] [names...]

Re-runs the whole validation corpus against the current checks and writes seeded/RESULTS.md:
  * every seeded/<ID>-n/patch.diff (changes written by independent sub-agents), checked with the
    quick check of its property,
  * every one-line mutant in mutants/*.py, checked with the checks it names.
Each change is applied to a scratch copy of /repo under /tmp (removed afterwards); the pinned unit
tests are run there first.  Nothing under /repo or /verif/evidence is touched."""
import sys, os, subprocess, shutil, tempfile, re, json, runpy, glob, time
from concurrent.futures import ThreadPoolExecutor

root = os.path.dirname(os.path.dirname(os.path.abspath(__file__)))
args = sys.argv[1:]
tier = 'quick'
if '--tier' in args:
    i = args.index('--tier'); tier = args[i + 1]; del args[i:i + 2]
only = args

def scratch():
    d = tempfile.mkdtemp(prefix='verif-corpus-')
    r = os.path.join(d, 'r')
    shutil.copytree('/repo', r, ignore=shutil.ignore_patterns('.git'))
    return d, r

def tests_pass(r):
    p = subprocess.run('make -C %s test 2>&1 | grep Checks:' % r, shell=True, capture_output=True, text=True)
    return 'Checks: 52, Failures: 0, Errors: 0' in p.stdout

def run_checks(r, checks):
    out = []
    for cid in checks:
        env = dict(os.environ, VERIF_REPO=r)
        p = subprocess.run([os.path.join(root, 'check'), cid, '--tier', tier], env=env, capture_output=True, text=True)
        keys = re.findall(r'key=(\S+?):', p.stderr)
        out.append((cid, {0: 'MISSED', 1: 'CAUGHT', 2: 'INCONCLUSIVE'}.get(p.returncode, '?'), keys[:3]))
    return out

jobs = []
for sd in sorted(glob.glob(os.path.join(root, 'seeded', 'C*-*'))):
    name = os.path.basename(sd)
    if only and not any(o in name for o in only):
        continue
    jobs.append(('seed', name, sd))
for mf in sorted(glob.glob(os.path.join(root, 'mutants', '*.py'))):
    for m in runpy.run_path(mf)['MUTANTS']:
        name = os.path.basename(mf)[:-3] + ':' + m['name']
        if only and not any(o in name for o in only):
            continue
        jobs.append(('mut', name, m))

def do(job):
    kind, name, x = job
    d, r = scratch()
    try:
        if kind == 'seed':
            meta = json.load(open(os.path.join(x, 'meta.json')))
            pid = meta['property']
            p = subprocess.run('patch -s -p1 < %s' % os.path.join(x, 'patch.diff'), shell=True, cwd=r, capture_output=True, text=True)
            if p.returncode != 0:
                return ('seeded/' + name, 'PATCH DOES NOT APPLY', [])
            tp = tests_pass(r)
            res = run_checks(r, [pid])
            meta['checks_latest'] = {c: {'verdict': v, 'keys': k} for c, v, k in res}
            json.dump(meta, open(os.path.join(x, 'meta.json'), 'w'), indent=1)
            return ('seeded/' + name, 'tests ' + ('pass' if tp else 'FAIL'), res)
        pth = os.path.join(r, x['file'])
        s = open(pth).read()
        if s.count(x['old']) != 1:
            return ('mutants/' + name, 'PATCH DOES NOT APPLY', [])
        open(pth, 'w').write(s.replace(x['old'], x['new']))
        tp = tests_pass(r)
        return ('mutants/' + name, 'tests ' + ('pass' if tp else 'FAIL'), run_checks(r, x['checks']))
    finally:
        shutil.rmtree(d, ignore_errors=True)

rows = []
with ThreadPoolExecutor(max_workers=int(os.environ.get('CORPUS_JOBS', '4'))) as ex:
    for row in ex.map(do, jobs):
        rows.append(row)
        print(row, flush=True)

if not only:
    with open(os.path.join(root, 'seeded', 'RESULTS.md'), 'w') as f:
        f.write('# Validation corpus against the current checks (%s tier, %s)\n\n' % (tier, time.strftime('%Y-%m-%d %H:%M')))
        f.write('Written by tools/run_corpus.py.  seeded/<ID>-n: changes by independent sub-agents (rounds 1-3);\n'
                'mutants/<file>:<name>: one-line slips.  Each change is applied to a scratch copy of /repo; column 2 is the\n'
                'pinned unit-test suite there, column 3 the verdict of the quick check(s).\n\n')
        notes = json.load(open(os.path.join(root, 'seeded', 'NOTES.json'))) if os.path.exists(os.path.join(root, 'seeded', 'NOTES.json')) else {}
        f.write('| change | pinned unit tests | check verdicts (first keys) | note |\n|---|---|---|---|\n')
        for name, t, res in rows:
            f.write('| %s | %s | %s | %s |\n' % (name, t, '; '.join('%s %s %s' % (c, v, ', '.join(k)) for c, v, k in res), notes.get(name, '')))
    print('wrote seeded/RESULTS.md')
