#!/usr/bin/env python3
"""tools/mkseedbriefs.py <round> -- write /tmp/seedbrief/r<round>-<ID>.txt, the brief for a bug-seeding sub-agent.
The brief contains the property text, the task, and one line per change of earlier rounds for the same property
(so that ideas are not repeated); nothing else from /verif."""
import sys, os, json, glob
rnd = sys.argv[1]
root = os.path.dirname(os.path.dirname(os.path.abspath(__file__)))
os.makedirs('/tmp/seedbrief', exist_ok=True)
for line in open(os.path.join(root, 'properties.jsonl')):
    p = json.loads(line)
    pid = p['id']
    earlier = []
    for d in sorted(glob.glob(os.path.join(root, 'seeded', pid + '-*'))):
        m = os.path.join(d, 'meta.txt')
        if os.path.exists(m):
            ls = [l.strip() for l in open(m, errors='replace') if l.strip()]
            earlier.append('  - ' + ' '.join(ls[:3])[:420])
    wt = '/tmp/seed%s-%s' % (rnd, pid)
    out = '/tmp/seed%s-%s-out' % (rnd, pid)
    txt = f"""You are helping to validate a verification effort for libcstl, a small C99 library of intrusive containers
(binary tree, red-black tree, heap, incrementally rehashed hash table, lists), vector/string and reference-counted
smart pointers.  Your job is to play a maintainer who introduces a realistic bug.

Your private git worktree of the library is {wt} (a checkout of the current HEAD).  Work ONLY there.  Never touch
/repo or /verif, never read anything under /verif, never commit, stash or push anything.

THE PROPERTY ({pid}): {p['title']}

{p['statement']}

Scope of the property: {p['quantifier']['text']}

YOUR TASK: write TWO different changes to the library (src/ and/or include/), each of which
  1. breaks the property above FOR USAGE THAT IS CLEARLY INSIDE THE PROPERTY'S STATED DOMAIN (documented API use,
     objects of at most a few MiB, no re-entrancy or aliasing the documentation does not promise);
  2. still compiles without new warnings (`make build` in the worktree) and still passes the project's own test
     suite (`make test` must end with "100%: Checks: 52, Failures: 0, Errors: 0");
  3. looks like something a maintainer could plausibly commit: an optimisation (cache, fast path, early-out), a
     refactoring (shared helper, changed parameter type, reordered statements, restructured loop or error path),
     a portability or clean-up change.  Not a one-character typo in the main path that any use would hit: it must
     need something SPECIFIC to manifest (a particular state, sequence of operations, argument value, size,
     configuration of the object, or interaction of two features);
  4. is different in mechanism from the ideas already used for this property in earlier rounds:
{chr(10).join(earlier) if earlier else '  (none)'}

The people whose checks you are testing use model-based and exhaustive small-scope testing under sanitizers: every
sequence of operations over a handful of small objects, reference models, boundary arguments, allocation-failure
injection, all interleavings of small thread scenarios.  So a bug that shows within a few operations on tiny objects
with ordinary arguments WILL be found; do not bother with those.  Aim at what such testing tends to hold constant:
a second, differently configured object of the same kind; an object that is re-used after clear/swap/move; values
of callbacks (return values, priv pointers) other than the obvious ones; user data mutated between calls; element
layouts (offsets, sizes, alignments) other than the usual; thresholds at 2^8, 2^16, 2^20 elements; the release
(`-DNDEBUG -O2`) build versus the debug build; what the client's compiler sees in the public headers; exact
documented return values and out-parameters of rarely used entry points; error paths that are only reachable in
one state; operations on several objects in one call (swap, concat, share, slice) with unusual pairings.

They also already cover: the release build next to the debug build (side effects inside assert() are found); clients
compiled at -O2 with and without sanitizers (wrong const/pure/leaf attributes in headers are found); NDEBUG-dependent
layouts; objects of 2^16, 2^20 and beyond 2^32 elements; every combination of optional out-parameters; re-use after
clear; two objects with different node offsets/comparators/element sizes; comparator results of any magnitude;
allocation failure at every position; other C dialects and system headers included first.
Since the last round they also cover: arguments with side effects (function-like macros that evaluate a parameter twice are
found); a second compiler and targets where plain char is unsigned; elements whose node sits beyond 64 KiB / 1 MiB, with the
owner rewriting its payload between calls; managed memory that owns further shared pointers (chains, fans, diamonds); one
function registered in two roles (constructor = destructor) and objects that differ in exactly one attribute; probes and arguments
that point INTO the container they are used with; an allocator that refuses every request during operations that should need no
memory; every way a hash function can come to be in force (kept by NULL, swapped in, after shrink/clear); two stray operands in one
call; callback results of -1, 1, +-2, even values, values that vanish in narrow fields.
And since then: operation counts (one call pair repeated millions of times on one object, 70 000 references / views at once);
containers declared through the macros with expression arguments and nested member designators; arguments of other arithmetic
types, literal constants, compound literals; variables named like a macro author's locals; out-parameters that arrive holding old
results; read-only re-entrancy (nested traversal of the same container from a visitor); hints and iterators used after further
read-only calls; boundary keys (0, SIZE_MAX, 2^63, 2^32) as first keys after init/resize/clear; run-structured and almost-sorted
sort inputs; elements of 257..5000 bytes; related re-allocations up to 1 MiB; what a failed call must not remember; keys adversarial
for multiplicative hashing at any precision; stray copies at 2^16..2^46 distances; the library's global symbols outside cstl_; the
library as shipped without any sanitizer, and MemorySanitizer.
And most recently: work measured as memory pages touched per call; forced finishes on large tables after partial progress; clients
built with -Os/-O3/-Ofast/-fPIC/-pthread/-ffast-math/_FORTIFY_SOURCE; extern objects of the headers; overflow argument classes on
strings of 4 KiB..140 KiB; clear callbacks that clear another container of the same type; zero counts and zero element sizes;
100 KiB..1 MiB re-allocations under allocation failure; unfair schedules in which a lock holder is frozen while waiters spin
hundreds of times.  Also note: they check what the statement says, not today's implementation pattern (a pooling allocator inside
the map would be accepted).  Find something else.

Think about interactions that a test author is unlikely to combine: operation X immediately after operation Y in
state Z; the second use of an object after it was cleared/moved/swapped; an argument that is legal but unusual; a
callback that does something the documentation allows; two objects configured differently; values just past a
power of two.  Prefer bugs that do NOT crash immediately and that sanitizers alone would not see.

FOR EACH CHANGE deliver, in {out}/1/ and {out}/2/ respectively:
  - patch.diff : `git diff` of the change against HEAD (must apply with `patch -p1` in a clean tree);
  - demo.c     : a small self-contained C program using only the public API (it may #include library .c files if it
                 needs to) that demonstrates the broken property: exit status 0 on the unmodified library, non-zero
                 with your change applied;
  - run.sh     : POSIX sh script, run from the root of a libcstl tree (NOT necessarily your worktree: use relative
                 paths only, build into the current directory, remove the binary afterwards), that compiles demo.c
                 together with the needed src/*.c files (gcc, -Iinclude, no dependency on `make`), runs it, and EXITS
                 WITH THE DEMO'S EXIT STATUS; demo.c is copied next to it in the tree root before it is run;
  - meta.txt   : first line: one-sentence summary of the change; then which clause of the property it breaks, what
                 exactly is needed for it to manifest, and why the existing unit tests do not notice.

Before you finish: verify each change yourself (apply, `make build`, `make test`, run.sh => non-zero; revert,
run.sh => 0), leave the worktree clean (`git status` empty, `git checkout -- .`, remove untracked files), and report
in a few lines what the two changes are.
"""
    open('/tmp/seedbrief/r%s-%s.txt' % (rnd, pid), 'w').write(txt)
print('written')
