#!/bin/sh
# tools/evalround.sh <round> <first-index-offset> [IDs...]: confirm and evaluate the changes delivered by the
# seeding sub-agents of a round (/tmp/seed<round>-<ID>-out/{1,2}) and keep the confirmed ones as seeded/<ID>-<offset+n>
cd "$(dirname "$0")/.."
r=$1; off=$2; shift 2
[ $# -eq 0 ] && set -- C01 C02 C03 C04 C05 C06 C07 C08 C09 C10 C11 C12 C13 C14 C15 C16 C17 C18 C19 C20
for p in "$@"; do for n in 1 2; do
  d=/tmp/seed$r-$p-out/$n
  [ -f $d/patch.diff ] || { echo "== $p-$n: nothing delivered"; continue; }
  echo "== $p-$((n+off))"
  python3 tools/tryseed.py $d $p --keep-as seeded/$p-$((n+off)) 2>&1 | python3 -c "
import sys,json
t=sys.stdin.read()
try:
    j=json.loads(t[:t.rindex('}')+1])
    print('confirmed',j['confirmed'],'tests',j.get('tests_pass'),'demo',j.get('demo_unmodified_rc'),j.get('demo_patched_rc'),{c:(v['verdict'],v['keys'][:3],v['wall_s']) for c,v in j['checks'].items()})
except Exception as e: print('ERR',e,t[-600:])
"
done; done
