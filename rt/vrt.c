/* vrt -- shared harness runtime; see vrt.h and DESIGN.md section 2 */
#define _GNU_SOURCE
#include "vrt.h"

#include <stdio.h>
#include <stdlib.h>
#include <string.h>
#include <unistd.h>
#include <errno.h>
#include <fcntl.h>
#include <signal.h>
#include <time.h>
#include <sys/time.h>
#include <sys/mman.h>
#include <sys/wait.h>
#include <sys/stat.h>

/* coverage builds (./check --cov): workers leave through _exit, so the counters are written explicitly */
#ifdef VRT_GCOV
extern void __gcov_dump(void);
#define VRT_GCOV_DUMP() __gcov_dump()
#else
#define VRT_GCOV_DUMP() ((void)0)
#endif

void *__real_malloc(size_t);
void *__real_calloc(size_t, size_t);
void *__real_realloc(void *, size_t);
void __real_free(void *);
void __real_abort(void) __attribute__((noreturn));

/* ------------------------------------------------------------------ */
/* sanitizer default options (the environment may still override)      */
/* ------------------------------------------------------------------ */
#if defined(__SANITIZE_ADDRESS__)
const char *__asan_default_options(void)
{
    return "halt_on_error=1:abort_on_error=0:exitcode=86:"
           "allocator_may_return_null=1:detect_stack_use_after_return=1:max_uar_stack_size_log=16:"
           "detect_leaks=0:handle_abort=0:print_summary=1:"
           "max_malloc_fill_size=256:malloc_fill_byte=190:"
           "quarantine_size_mb=16";
}
#endif
const char *__ubsan_default_options(void)
{
    return "print_stacktrace=1:halt_on_error=1:exitcode=86";
}
#if defined(__SANITIZE_THREAD__)
const char *__tsan_default_options(void)
{
    return "halt_on_error=1:exitcode=86:second_deadlock_stack=1:report_signal_unsafe=0:history_size=4";
}
#endif

/* ------------------------------------------------------------------ */
/* PRNG                                                                */
/* ------------------------------------------------------------------ */
static uint64_t splitmix(uint64_t *x)
{
    uint64_t z = (*x += 0x9e3779b97f4a7c15ull);
    z = (z ^ (z >> 30)) * 0xbf58476d1ce4e5b9ull;
    z = (z ^ (z >> 27)) * 0x94d049bb133111ebull;
    return z ^ (z >> 31);
}
void vrt_rng_seed(vrt_rng *r, uint64_t a, uint64_t b)
{
    uint64_t x = a * 0x9e3779b97f4a7c15ull ^ (b + 0x632be59bd9b4e019ull);
    int i;
    for (i = 0; i < 4; i++) r->s[i] = splitmix(&x);
}
static inline uint64_t rotl(uint64_t x, int k) { return (x << k) | (x >> (64 - k)); }
uint64_t vrt_next(vrt_rng *r)
{
    uint64_t *s = r->s;
    const uint64_t res = rotl(s[1] * 5, 7) * 9;
    const uint64_t t = s[1] << 17;
    s[2] ^= s[0]; s[3] ^= s[1]; s[1] ^= s[2]; s[0] ^= s[3];
    s[2] ^= t; s[3] = rotl(s[3], 45);
    return res;
}
uint64_t vrt_mix(uint64_t h, uint64_t v)
{
    h ^= v + 0x9e3779b97f4a7c15ull + (h << 6) + (h >> 2);
    h *= 0xff51afd7ed558ccdull;
    h ^= h >> 32;
    return h;
}

/* ------------------------------------------------------------------ */
/* shared state                                                        */
/* ------------------------------------------------------------------ */
#define MAXW    32
#define RING    160
#define NCTR    320
#define MAXVIOL 12
#define NSAMPLE 2

struct opent { const char *entry, *fmt; long a[4]; };
struct viol {
    char key[160];
    char msg[512];
    char note[256];
    char trace[6144];
    uint64_t caseidx, opidx;
};
struct slot {
    volatile int64_t cur_case;
    volatile uint64_t nops;
    const char *volatile entry;
    const char *volatile state;
    char note[256];
    struct opent ring[RING];
    uint64_t cases_done, cases_failed;
    volatile int nctr;
    char ctrname[NCTR][64];
    uint64_t ctr[NCTR];
    unsigned char ctrmax[NCTR];
    volatile int nviol;
    struct viol viol[MAXVIOL];
    volatile int nsamples;
    char sample[NSAMPLE][3072];
    volatile int finished;
    int gen;
    pid_t pid;
};
struct shared {
    volatile uint64_t next_case;
    uint64_t ncases;
    volatile int stop;
    struct slot slot[MAXW];
};

static struct shared *G;
static struct slot *S;          /* this worker's slot */
static int widx = -1;

uint64_t vrt_seed = 1;
int vrt_thorough;
int vrt_verbose;
const char *vrt_config = "unknown";
const char *vrt_mode = "";
volatile uint64_t *vrt_ctr;
sigjmp_buf vrt_case_jmp;
sigjmp_buf vrt_abort_jmp;
volatile int vrt_abort_armed;
volatile uint64_t vrt_aborts_seen;
size_t vrt_alloc_cap = VRT_ALLOC_CAP;
void (*vrt_alloc_hook)(int kind, void *p);
void (*vrt_fail_hook)(void);

static const char *outdir = ".";
static const struct vrt_harness *H;
static int in_case;

int vrt_worker_index(void) { return widx; }

void vrt_log(const char *fmt, ...)
{
    char buf[1024];
    va_list ap;
    int n;
    va_start(ap, fmt);
    n = vsnprintf(buf, sizeof(buf), fmt, ap);
    va_end(ap);
    if (n > (int)sizeof(buf) - 1) n = sizeof(buf) - 1;
    if (n > 0) { ssize_t r = write(2, buf, n); (void)r; }
}

/* ------------------------------------------------------------------ */
/* trace                                                               */
/* ------------------------------------------------------------------ */
#pragma GCC diagnostic push
#pragma GCC diagnostic ignored "-Wformat-nonliteral"
#pragma GCC diagnostic ignored "-Wformat-security"
#pragma GCC diagnostic ignored "-Wformat-extra-args"
static int fmt_op(char *buf, size_t n, const struct opent *o)
{
    int k = snprintf(buf, n, "%s ", o->entry ? o->entry : "?");
    if (k < 0 || (size_t)k >= n) return (int)n - 1;
    if (o->fmt != NULL) {
        int j = snprintf(buf + k, n - k, o->fmt, o->a[0], o->a[1], o->a[2], o->a[3]);
        if (j < 0) j = 0;
        k += j;
        if ((size_t)k >= n) k = (int)n - 1;
    }
    return k;
}
#pragma GCC diagnostic pop

static void fmt_trace(char *buf, size_t n, const struct slot *s, int maxops)
{
    uint64_t nops = s->nops, first = 0, i;
    size_t k = 0;
    if (nops > RING) first = nops - RING;
    if (maxops > 0 && nops - first > (uint64_t)maxops) first = nops - maxops;
    buf[0] = 0;
    if (first > 0) {
        k += snprintf(buf + k, n - k, "[... %llu earlier ops ...]; ", (unsigned long long)first);
    }
    for (i = first; i < nops && k + 96 < n; i++) {
        k += fmt_op(buf + k, n - k, &s->ring[i % RING]);
        if (k + 3 < n) { buf[k++] = ';'; buf[k++] = ' '; buf[k] = 0; }
    }
    if (i < nops && k + 8 < n) {
        snprintf(buf + k, n - k, "[...]");
    }
}

void vrt_op(const char *entry, const char *fmt, long a, long b, long c, long d)
{
    struct opent *o = &S->ring[S->nops % RING];
    o->entry = entry; o->fmt = fmt;
    o->a[0] = a; o->a[1] = b; o->a[2] = c; o->a[3] = d;
    S->entry = entry;
    __atomic_store_n(&S->nops, S->nops + 1, __ATOMIC_RELAXED);     /* read by hang_tick, which may run on any thread */
    if (vrt_verbose) {
        char buf[256];
        fmt_op(buf, sizeof(buf), o);
        vrt_log("  op %llu: %s\n", (unsigned long long)S->nops - 1, buf);
    }
}
void vrt_state(const char *cls) { S->state = cls; }
void vrt_trace_reset(void) { __atomic_store_n(&S->nops, 0, __ATOMIC_RELAXED); S->entry = NULL; S->state = NULL; }
void vrt_case_note(const char *fmt, ...)
{
    va_list ap;
    va_start(ap, fmt);
    vsnprintf(S->note, sizeof(S->note), fmt, ap);
    va_end(ap);
    if (vrt_verbose) vrt_log("  note: %s\n", S->note);
}

/* ------------------------------------------------------------------ */
/* counters                                                            */
/* ------------------------------------------------------------------ */
int vrt_counter_id(const char *name)
{
    int i, n = S->nctr;
    for (i = 0; i < n; i++) {
        if (strcmp(S->ctrname[i], name) == 0) return i;
    }
    if (n >= NCTR) {
        vrt_log("vrt: too many counters (%s)\n", name);
        _exit(97);
    }
    snprintf(S->ctrname[n], sizeof(S->ctrname[n]), "%s", name);
    S->ctr[n] = 0;
    S->nctr = n + 1;
    return n;
}
void vrt_count_dyn(const char *name, uint64_t n)
{
    S->ctr[vrt_counter_id(name)] += n;
}
void vrt_max_dyn(const char *name, uint64_t v)
{
    int id = vrt_counter_id(name);
    S->ctrmax[id] = 1;
    if (v > S->ctr[id]) S->ctr[id] = v;
}

/* ------------------------------------------------------------------ */
/* signature sets (private to the worker, dumped at exit)               */
/* ------------------------------------------------------------------ */
struct sigset { uint64_t *t; size_t cap, n; char name[48]; };
static struct sigset sets[VRT_NSETS];

static void *xmap(size_t n)
{
    void *p = mmap(NULL, n, PROT_READ | PROT_WRITE, MAP_PRIVATE | MAP_ANONYMOUS, -1, 0);
    if (p == MAP_FAILED) { vrt_log("vrt: mmap failed\n"); _exit(97); }
    return p;
}
static int sig_insert(struct sigset *s, uint64_t v)
{
    size_t i;
    if (v == 0) v = 0x5bd1e995;
    if (s->cap == 0 || s->n * 2 >= s->cap) {
        size_t ncap = s->cap ? s->cap * 2 : 4096, j;
        uint64_t *nt = xmap(ncap * sizeof(uint64_t));
        for (j = 0; j < s->cap; j++) {
            if (s->t[j]) {
                size_t k = (s->t[j] * 0x9e3779b97f4a7c15ull) >> 20 & (ncap - 1);
                while (nt[k]) k = (k + 1) & (ncap - 1);
                nt[k] = s->t[j];
            }
        }
        if (s->t) munmap(s->t, s->cap * sizeof(uint64_t));
        s->t = nt; s->cap = ncap;
    }
    i = (v * 0x9e3779b97f4a7c15ull) >> 20 & (s->cap - 1);
    while (s->t[i]) {
        if (s->t[i] == v) return 0;
        i = (i + 1) & (s->cap - 1);
    }
    s->t[i] = v; s->n++;
    return 1;
}
int vrt_sig(int set, uint64_t sig) { return sig_insert(&sets[set], sig); }
void vrt_sig_name(int set, const char *name)
{
    snprintf(sets[set].name, sizeof(sets[set].name), "%s", name);
}
static void sig_dump(void)
{
    int k;
    for (k = 0; k < VRT_NSETS; k++) {
        char path[512];
        int fd;
        size_t j;
        if (sets[k].n == 0) continue;
        snprintf(path, sizeof(path), "%s/w%d.%d.sig%d", outdir, widx, S->gen, k);
        fd = open(path, O_WRONLY | O_CREAT | O_TRUNC, 0644);
        if (fd < 0) continue;
        {
            char nm[48];
            ssize_t r;
            memset(nm, 0, sizeof(nm));
            snprintf(nm, sizeof(nm), "%s", sets[k].name);
            r = write(fd, nm, sizeof(nm)); (void)r;
        }
        {
            /* compact then write */
            uint64_t *out = xmap((sets[k].n + 1) * sizeof(uint64_t));
            size_t m = 0, off = 0, tot;
            for (j = 0; j < sets[k].cap; j++) if (sets[k].t[j]) out[m++] = sets[k].t[j];
            tot = m * sizeof(uint64_t);
            while (off < tot) {
                ssize_t r = write(fd, (char *)out + off, tot - off);
                if (r <= 0) break;
                off += r;
            }
        }
        close(fd);
    }
}

/* ------------------------------------------------------------------ */
/* violations                                                          */
/* ------------------------------------------------------------------ */
static void sanitize_key(char *k)
{
    for (; *k; k++) {
        unsigned char c = (unsigned char)*k;
        if (!((c >= 'a' && c <= 'z') || (c >= 'A' && c <= 'Z') || (c >= '0' && c <= '9')
              || c == '.' || c == '_' || c == '-' || c == ':')) *k = '_';
    }
}
static void record_viol(struct slot *s, const char *key, const char *msg)
{
    struct viol *v;
    int n = s->nviol, i;
    /* de-duplicate by key within the worker */
    for (i = 0; i < n; i++) if (strcmp(s->viol[i].key, key) == 0) return;
    if (n >= MAXVIOL) return;
    v = &s->viol[n];
    snprintf(v->key, sizeof(v->key), "%s", key);
    sanitize_key(v->key);
    snprintf(v->msg, sizeof(v->msg), "%s", msg);
    snprintf(v->note, sizeof(v->note), "%s", s->note);
    v->caseidx = s->cur_case; v->opidx = s->nops;
    fmt_trace(v->trace, sizeof(v->trace), s, 0);
    s->nviol = n + 1;
}
/* the worker cannot decide (e.g. a wall-clock hang in a real-thread run): leave with the
 * "inconclusive" exit status; the supervisor reports INCONCLUSIVE (exit 2), never a violation */
void vrt_inconclusive(const char *fmt, ...)
{
    char msg[256];
    va_list ap;
    va_start(ap, fmt);
    vsnprintf(msg, sizeof(msg), fmt, ap);
    va_end(ap);
    vrt_log("INCONCLUSIVE (worker %d, case %lld): %s\n", widx, S ? (long long)S->cur_case : -1LL, msg);
    _exit(77);
}

void vrt_report(const char *key, const char *fmt, ...)
{
    char msg[512];
    va_list ap;
    va_start(ap, fmt);
    vsnprintf(msg, sizeof(msg), fmt, ap);
    va_end(ap);
    if (vrt_verbose) vrt_log("VIOLATION(monitor) key=%s: %s\n", key, msg);
    record_viol(S, key, msg);
}
void vrt_fail(const char *key, const char *fmt, ...)
{
    char msg[512];
    va_list ap;
    va_start(ap, fmt);
    vsnprintf(msg, sizeof(msg), fmt, ap);
    va_end(ap);
    vrt_abort_armed = 0;
    if (vrt_verbose) vrt_log("VIOLATION(monitor) key=%s: %s\n", key, msg);
    record_viol(S, key, msg);
    if (!in_case) _exit(98);
    /* a harness running on a foreign stack (fibres) gets the chance to switch
     * back to the worker's own stack first; the hook does not return then */
    if (vrt_fail_hook) vrt_fail_hook();
    siglongjmp(vrt_case_jmp, 1);
}

/* deliberate aborts of the library end up here (-Wl,--wrap=abort) */
void __wrap_abort(void) __attribute__((noreturn));
void __wrap_abort(void)
{
    char key[160];
    if (vrt_abort_armed) {
        vrt_aborts_seen++;
        siglongjmp(vrt_abort_jmp, 1);
    }
    if (S == NULL) __real_abort();
    snprintf(key, sizeof(key), "abort.unexpected.%s.%s",
             S->entry ? S->entry : "none", S->state ? S->state : "any");
    vrt_fail(key, "library called abort() where none was expected");
}

void __assert_fail(const char *expr, const char *file, unsigned int line, const char *func)
    __attribute__((noreturn));
void __assert_fail(const char *expr, const char *file, unsigned int line, const char *func)
{
    char key[160];
    const char *b = strrchr(file, '/');
    b = b ? b + 1 : file;
    if (S == NULL) {
        vrt_log("assert failed outside worker: %s:%u %s\n", file, line, expr);
        _exit(99);
    }
    snprintf(key, sizeof(key), "assert.%s.%s", b, func ? func : "?");
    vrt_fail(key, "assertion `%s' failed at %s:%u", expr, file, line);
}

/* ------------------------------------------------------------------ */
/* allocator interposition                                             */
/* ------------------------------------------------------------------ */
struct blk { void *p; size_t sz; };
static struct blk *tab;
static size_t tabcap, tablive, tabused, tabbytes;
#define TOMB ((void *)1)
static int vrt_mt;              /* set by multi-threaded harnesses */
static volatile int tablock;
void vrt_set_mt(int on) { vrt_mt = on; }
static inline void tlock(void)
{
    if (vrt_mt) while (__atomic_exchange_n(&tablock, 1, __ATOMIC_ACQUIRE)) ;
}
static inline void tunlock(void)
{
    if (vrt_mt) __atomic_store_n(&tablock, 0, __ATOMIC_RELEASE);
}

static struct vrt_aev evlog[VRT_EV_MAX];
static int evn;
static uint64_t evfired, evrefused;
static const uint8_t *fpmask;
static size_t fpbits;
static int fptail, fparmed;
static uint64_t fpord;

static inline size_t thash(const void *p, size_t cap)
{
    return (((uintptr_t)p >> 4) * 0x9e3779b97f4a7c15ull) >> 24 & (cap - 1);
}
static void tab_grow(void)
{
    size_t ncap = tabcap ? tabcap * 2 : 1024, j;
    struct blk *nt;
    if (tabcap && tablive * 4 < tabcap) ncap = tabcap;      /* just purge tombstones */
    nt = xmap(ncap * sizeof(*nt));
    for (j = 0; j < tabcap; j++) {
        if (tab[j].p != NULL && tab[j].p != TOMB) {
            size_t k = thash(tab[j].p, ncap);
            while (nt[k].p) k = (k + 1) & (ncap - 1);
            nt[k] = tab[j];
        }
    }
    if (tab) munmap(tab, tabcap * sizeof(*tab));
    tab = nt; tabcap = ncap; tabused = tablive;
}
static void tab_add(void *p, size_t sz)
{
    size_t i;
    if (tabcap == 0 || (tabused + 1) * 2 > tabcap) tab_grow();
    i = thash(p, tabcap);
    while (tab[i].p != NULL && tab[i].p != TOMB) i = (i + 1) & (tabcap - 1);
    if (tab[i].p == NULL) tabused++;
    tab[i].p = p; tab[i].sz = sz;
    tablive++; tabbytes += sz;
}
static struct blk *tab_find(const void *p)
{
    size_t i;
    if (tabcap == 0) return NULL;
    i = thash(p, tabcap);
    while (tab[i].p != NULL) {
        if (tab[i].p == p) return &tab[i];
        i = (i + 1) & (tabcap - 1);
    }
    return NULL;
}
static int tab_del(void *p)
{
    struct blk *b = tab_find(p);
    if (b == NULL) return 0;
    tabbytes -= b->sz;
    b->p = TOMB; b->sz = 0;
    tablive--;
    return 1;
}
size_t vrt_lib_live(void) { return tablive; }
size_t vrt_lib_live_bytes(void) { return tabbytes; }
void *vrt_lib_block(const void *p, size_t *size)
{
    size_t j;
    struct blk *b = tab_find(p);
    if (b != NULL) { if (size) *size = b->sz; return b->p; }
    for (j = 0; j < tabcap; j++) {
        if (tab[j].p != NULL && tab[j].p != TOMB
            && (uintptr_t)p >= (uintptr_t)tab[j].p
            && (uintptr_t)p < (uintptr_t)tab[j].p + (tab[j].sz ? tab[j].sz : 1)) {
            if (size) *size = tab[j].sz;
            return tab[j].p;
        }
    }
    return NULL;
}
void vrt_lib_forget_all(void)
{
    if (tab) memset(tab, 0, tabcap * sizeof(*tab));
    tablive = tabused = tabbytes = 0;
}
/* give the memory of every live library block of at least min_bytes back to the system (an abandoned case of
 * harness/huge.c would otherwise keep gigabytes); the blocks stay unknown to the table afterwards */
void vrt_lib_release_big(size_t min_bytes)
{
    size_t j;
    for (j = 0; j < tabcap; j++) {
        if (tab[j].p != NULL && tab[j].p != TOMB && tab[j].sz >= min_bytes) {
            void *p = tab[j].p;
            tabbytes -= tab[j].sz;
            tab[j].p = TOMB; tab[j].sz = 0;
            tablive--;
            __real_free(p);
        }
    }
}
void vrt_lib_free_block(void *p)
{
    tlock();
    if (!tab_del(p)) { tunlock(); vrt_fail("harness.free-of-unknown-block", "%p", p); }
    tunlock();
    __real_free(p);
}

void *vrt_alloc(size_t n)
{
    void *p = __real_malloc(n ? n : 1);
    if (p == NULL) { vrt_log("vrt: harness allocation of %zu failed\n", n); _exit(97); }
    return p;
}
void *vrt_zalloc(size_t n)
{
    void *p = vrt_alloc(n);
    memset(p, 0, n);
    return p;
}
void vrt_free(void *p) { __real_free(p); }

void vrt_ev_begin(void) { evn = 0; evfired = 0; evrefused = 0; }
int vrt_ev_n(void) { return evn; }
const struct vrt_aev *vrt_ev(int i) { return &evlog[i]; }
uint64_t vrt_ev_fired(void) { return evfired; }
uint64_t vrt_ev_refused(void) { return evrefused; }

void vrt_fp_arm(const uint8_t *mask, size_t nbits, int tail)
{
    fpmask = mask; fpbits = nbits; fptail = tail; fpord = 0; fparmed = 1;
}
void vrt_fp_disarm(void) { fparmed = 0; }
uint64_t vrt_fp_ordinal(void) { return fpord; }

static void ev_add(char kind, int failed, void *p, void *q, size_t sz)
{
    if (vrt_mt) return;
    if (evn < VRT_EV_MAX) {
        struct vrt_aev *e = &evlog[evn];
        e->kind = kind; e->failed = (char)failed; e->p = p; e->q = q; e->sz = sz;
    }
    evn++;
}
/* decide whether allocation request number fpord fails */
static int should_fail(size_t sz)
{
    if (sz > vrt_alloc_cap) { evrefused++; return 1; }
    if (fparmed) {
        uint64_t k = fpord++;
        int f;
        if (k < fpbits) f = (fpmask[k >> 3] >> (k & 7)) & 1;
        else f = fptail;
        if (f) { evfired++; return 1; }
    }
    return 0;
}

void *__wrap_malloc(size_t sz)
{
    void *p;
    if (vrt_alloc_hook) vrt_alloc_hook('m', NULL);
    if (should_fail(sz)) { ev_add('m', 1, NULL, NULL, sz); return NULL; }
    p = __real_malloc(sz);
    tlock();
    if (p != NULL) tab_add(p, sz);
    tunlock();
    ev_add('m', p == NULL, p, NULL, sz);
    return p;
}
void *__wrap_calloc(size_t n, size_t m)
{
    void *p;
    size_t sz;
    if (vrt_alloc_hook) vrt_alloc_hook('c', NULL);
    if (__builtin_mul_overflow(n, m, &sz) || should_fail(sz)) {
        ev_add('c', 1, NULL, NULL, n * m);
        return NULL;
    }
    p = __real_calloc(n, m);
    tlock();
    if (p != NULL) tab_add(p, sz);
    tunlock();
    ev_add('c', p == NULL, p, NULL, sz);
    return p;
}
void __wrap_free(void *p)
{
    if (vrt_alloc_hook) vrt_alloc_hook('f', p);
    if (p != NULL) {
        int ok;
        tlock();
        ok = tab_del(p);
        tunlock();
        ev_add('f', 0, p, NULL, 0);
        if (!ok && S != NULL) {
            /* let the sanitizer describe it first if it can (double free /
             * bad free are fatal there); otherwise report it ourselves */
            __real_free(p);
            vrt_fail("alloc.free-of-non-live-block", "library freed %p which is not a live library block", p);
        }
    } else {
        ev_add('f', 0, NULL, NULL, 0);
    }
    __real_free(p);
}
void *__wrap_realloc(void *p, size_t sz)
{
    void *q;
    if (vrt_alloc_hook) vrt_alloc_hook('r', p);
    if (p == NULL) {
        if (should_fail(sz)) { ev_add('r', 1, NULL, NULL, sz); return NULL; }
        q = __real_malloc(sz);
        tlock();
        if (q != NULL) tab_add(q, sz);
        tunlock();
        ev_add('r', q == NULL, NULL, q, sz);
        return q;
    }
    if (sz == 0) {
        /* realloc(p, 0): glibc and the sanitizer allocators free p and return NULL */
        int ok;
        tlock();
        ok = tab_del(p);
        tunlock();
        ev_add('r', 0, p, NULL, 0);
        if (!ok && S != NULL) {
            __real_free(p);
            vrt_fail("alloc.realloc-of-non-live-block", "library realloc(%p,0) of a non-live block", p);
        }
        __real_free(p);
        return NULL;
    }
    if (should_fail(sz)) { ev_add('r', 1, p, NULL, sz); return NULL; }
    tlock();
    if (tab_find(p) == NULL) {
        tunlock();
        if (S != NULL) {
            q = __real_realloc(p, sz);  /* sanitizer reports a bad realloc here */
            (void)q;
            vrt_fail("alloc.realloc-of-non-live-block", "library realloc(%p,%zu) of a non-live block", p, sz);
        }
    } else {
        tunlock();
    }
    q = __real_realloc(p, sz);
    if (q != NULL) {
        tlock();
        tab_del(p);
        tab_add(q, sz);
        tunlock();
    }
    ev_add('r', q == NULL, p, q, sz);
    return q;
}

/* ------------------------------------------------------------------ */
/* JSON helpers                                                        */
/* ------------------------------------------------------------------ */
static void jstr(FILE *f, const char *s)
{
    fputc('"', f);
    for (; *s; s++) {
        unsigned char c = (unsigned char)*s;
        if (c == '"' || c == '\\') { fputc('\\', f); fputc(c, f); }
        else if (c == '\n') fputs("\\n", f);
        else if (c == '\t') fputs("\\t", f);
        else if (c < 0x20 || c >= 0x7f) fprintf(f, "\\u%04x", c);
        else fputc(c, f);
    }
    fputc('"', f);
}

/* ------------------------------------------------------------------ */
/* worker                                                              */
/* ------------------------------------------------------------------ */
static void take_sample(void)
{
    int n = S->nsamples;
    char *b;
    size_t k;
    if (n >= NSAMPLE) return;
    b = S->sample[n];
    k = snprintf(b, sizeof(S->sample[n]), "case %lld", (long long)S->cur_case);
    if (S->note[0]) k += snprintf(b + k, sizeof(S->sample[n]) - k, " {%s}", S->note);
    k += snprintf(b + k, sizeof(S->sample[n]) - k, ": ");
    fmt_trace(b + k, sizeof(S->sample[n]) - k, S, 48);
    S->nsamples = n + 1;
}

static unsigned case_tick;
unsigned vrt_case_tick(void) { return ++case_tick; }

static void run_one(uint64_t idx)
{
    __atomic_store_n(&S->cur_case, (int64_t)idx, __ATOMIC_RELAXED);
    case_tick = 0;
    fparmed = 0;           /* a case abandoned inside VRT_NOMEM must not leave the failpoints armed */
    __atomic_store_n(&S->nops, 0, __ATOMIC_RELAXED);
    S->entry = NULL;
    S->state = NULL;
    S->note[0] = 0;
    if (vrt_verbose) vrt_log("case %llu\n", (unsigned long long)idx);
    in_case = 1;
    if (sigsetjmp(vrt_case_jmp, 0) == 0) {
        H->run_case(idx);
        S->cases_done++;
        if (S->nops > 0) take_sample();
    } else {
        S->cases_failed++;
        vrt_fp_disarm();
        vrt_lib_forget_all();
    }
    in_case = 0;
    __atomic_store_n(&S->cur_case, -1, __ATOMIC_RELAXED);
}

/* CPU-time hang detector: a worker that burns 120 s of its own CPU time without starting a new
 * operation is stuck inside one call (e.g. a loop that can no longer terminate because a link or a
 * counter is corrupt).  This is a logical measure (the worker's own virtual time, not the wall
 * clock); the supervisor turns exit status 88 into a violation keyed by the entry point. */
static volatile uint64_t hang_last_nops;
static volatile int hang_ticks;
/* The handler of a process-directed SIGVTALRM runs on whichever thread the kernel picks (the real-thread harnesses have
 * several): everything it shares with the main thread is accessed with relaxed atomics, so that the monitor is not itself
 * a data race under ThreadSanitizer (it was: thorough C06 runs on a loaded machine, DESIGN 10.3). */
static void hang_tick(int sig)
{
    uint64_t n;
    (void)sig;
    if (S == NULL || __atomic_load_n(&S->cur_case, __ATOMIC_RELAXED) < 0) { __atomic_store_n(&hang_ticks, 0, __ATOMIC_RELAXED); return; }
    n = __atomic_load_n(&S->nops, __ATOMIC_RELAXED);
    if (n != __atomic_load_n(&hang_last_nops, __ATOMIC_RELAXED)) {
        __atomic_store_n(&hang_last_nops, n, __ATOMIC_RELAXED); __atomic_store_n(&hang_ticks, 0, __ATOMIC_RELAXED); return;
    }
    if (__atomic_add_fetch(&hang_ticks, 1, __ATOMIC_RELAXED) >= 24) _exit(88);
}
static void hang_detector_start(void)
{
    struct sigaction sa;
    struct itimerval it;
    if (getenv("VERIF_NO_HANG_DETECTOR") != NULL || strcmp(vrt_config, "rel-plain") == 0) return;
    memset(&sa, 0, sizeof(sa));
    sa.sa_handler = hang_tick;
    sa.sa_flags = SA_RESTART;
    sigaction(SIGVTALRM, &sa, NULL);
    it.it_interval.tv_sec = 5; it.it_interval.tv_usec = 0;
    if (getenv("VERIF_HANG_TICK_US") != NULL) {        /* testing the detector itself: a much shorter period */
        const long us = atol(getenv("VERIF_HANG_TICK_US"));
        if (us > 0) { it.it_interval.tv_sec = us / 1000000; it.it_interval.tv_usec = us % 1000000; }
    }
    it.it_value = it.it_interval;
    setitimer(ITIMER_VIRTUAL, &it, NULL);
}

static void worker_main(int w, int64_t only_case)
{
    char path[512];
    int fd;
    widx = w;
    S = &G->slot[w];
    vrt_ctr = S->ctr;
    if (!vrt_verbose) {
        snprintf(path, sizeof(path), "%s/w%d.%d.err", outdir, w, S->gen);
        fd = open(path, O_WRONLY | O_CREAT | O_TRUNC, 0644);
        if (fd >= 0) { dup2(fd, 2); close(fd); }
    }
    /* counter ids cached by VRT_COUNT sites that were first reached in the supervisor (inside ncases()) refer to the
     * supervisor's dummy slot: give every worker slot the same names at the same positions so that the ids stay valid */
    {
        const struct slot *d = &G->slot[MAXW - 1];
        int i;
        for (i = S->nctr; i < d->nctr; i++) {
            memcpy(S->ctrname[i], d->ctrname[i], sizeof(S->ctrname[i]));
            S->ctr[i] = 0; S->ctrmax[i] = d->ctrmax[i];
        }
        if (S->nctr < d->nctr) S->nctr = d->nctr;
    }
    hang_detector_start();
    if (H->worker_init) H->worker_init();
    if (only_case >= 0) {
        run_one((uint64_t)only_case);
    } else {
        for (;;) {
            uint64_t idx;
            if (G->stop || S->nviol >= MAXVIOL) break;
            idx = __atomic_fetch_add(&G->next_case, 1, __ATOMIC_RELAXED);
            if (idx >= G->ncases) break;
            run_one(idx);
        }
    }
    if (H->worker_fini) H->worker_fini();
    sig_dump();
    S->finished = 1;
}

/* ------------------------------------------------------------------ */
/* supervisor                                                          */
/* ------------------------------------------------------------------ */
struct sviol { struct viol v; char stderr_head[2048]; };
static struct sviol *viols;
static int nviols;
#define SVIOL_MAX 64

static void add_sviol(const struct viol *v, const char *errhead)
{
    int i;
    for (i = 0; i < nviols; i++) if (strcmp(viols[i].v.key, v->key) == 0) return;
    if (nviols >= SVIOL_MAX) return;
    viols[nviols].v = *v;
    snprintf(viols[nviols].stderr_head, sizeof(viols[nviols].stderr_head), "%s", errhead ? errhead : "");
    nviols++;
}

static void slugify(char *dst, size_t n, const char *src, size_t maxlen)
{
    size_t k = 0;
    int lastdash = 1, lastnum = 0;
    for (; *src && *src != '\n' && k + 1 < n && k < maxlen; src++) {
        unsigned char c = (unsigned char)*src;
        if (c >= '0' && c <= '9') {
            if (!lastnum) { dst[k++] = 'N'; lastnum = 1; lastdash = 0; }
        } else if ((c >= 'a' && c <= 'z') || (c >= 'A' && c <= 'Z')) {
            dst[k++] = (char)c; lastdash = 0; lastnum = 0;
        } else {
            if (!lastdash) { dst[k++] = '-'; lastdash = 1; }
            lastnum = 0;
        }
    }
    while (k > 0 && dst[k - 1] == '-') k--;
    dst[k] = 0;
}

static void read_head(const char *path, char *buf, size_t n)
{
    int fd = open(path, O_RDONLY);
    ssize_t r;
    buf[0] = 0;
    if (fd < 0) return;
    r = read(fd, buf, n - 1);
    if (r < 0) r = 0;
    buf[r] = 0;
    close(fd);
}

static void classify_death(int status, const char *errtxt, char *kind, size_t n)
{
    const char *p;
    if ((p = strstr(errtxt, "ERROR: AddressSanitizer: ")) != NULL) {
        char s[64];
        p += strlen("ERROR: AddressSanitizer: ");
        {
            /* kind is the first word(s) up to " on " or " (" or ':' */
            char tmp[64];
            size_t k = 0;
            while (p[k] && p[k] != '\n' && p[k] != ':' && p[k] != '(' && k < sizeof(tmp) - 1
                   && strncmp(p + k, " on ", 4) != 0) { tmp[k] = p[k]; k++; }
            tmp[k] = 0;
            slugify(s, sizeof(s), tmp, 40);
        }
        snprintf(kind, n, "asan.%s", s);
    } else if ((p = strstr(errtxt, "runtime error: ")) != NULL) {
        char s[64];
        slugify(s, sizeof(s), p + strlen("runtime error: "), 36);
        snprintf(kind, n, "ubsan.%s", s);
    } else if ((p = strstr(errtxt, "ThreadSanitizer: ")) != NULL) {
        char s[64];
        slugify(s, sizeof(s), p + strlen("ThreadSanitizer: "), 30);
        snprintf(kind, n, "tsan.%s", s);
    } else if ((p = strstr(errtxt, "== Conditional jump or move depends on uninitialised")) != NULL
               || (p = strstr(errtxt, "== Use of uninitialised value")) != NULL
               || (p = strstr(errtxt, "== Invalid read")) != NULL
               || (p = strstr(errtxt, "== Invalid write")) != NULL
               || (p = strstr(errtxt, "== Invalid free")) != NULL
               || (p = strstr(errtxt, "== Syscall param")) != NULL) {
        char s[64];
        slugify(s, sizeof(s), p + 3, 40);
        snprintf(kind, n, "memcheck.%s", s);
    } else if (WIFEXITED(status) && WEXITSTATUS(status) == 88) {
        snprintf(kind, n, "hang.cpu-120s-in-one-call");
    } else if (WIFSIGNALED(status)) {
        int sg = WTERMSIG(status);
        snprintf(kind, n, "signal.%s", sg == SIGSEGV ? "SIGSEGV" : sg == SIGFPE ? "SIGFPE" :
                 sg == SIGBUS ? "SIGBUS" : sg == SIGABRT ? "SIGABRT" : sg == SIGILL ? "SIGILL" :
                 sg == SIGKILL ? "SIGKILL" : "other");
    } else {
        snprintf(kind, n, "exit%d", WEXITSTATUS(status));
    }
}

static int cmp_u64(const void *a, const void *b)
{
    uint64_t x = *(const uint64_t *)a, y = *(const uint64_t *)b;
    return x < y ? -1 : x > y;
}

static double now_s(void)
{
    struct timespec ts;
    clock_gettime(CLOCK_MONOTONIC, &ts);
    return ts.tv_sec + ts.tv_nsec * 1e-9;
}

static void usage(void)
{
    fprintf(stderr, "usage: harness [--tier quick|thorough] [--seed N] [--workers W] [--out FILE]\n"
            "  [--dir DIR] [--config NAME] [--mode M] [--case N] [--verbose] [--watchdog SECONDS]\n"
            "  [--max-cases N]\n");
}

/* CPU seconds (user+system, all threads) consumed by a process, -1 when unknown */
static double proc_cpu_s(pid_t pid)
{
    char path[64], buf[1024], *p;
    unsigned long ut = 0, stt = 0;
    int fd, r, k;
    snprintf(path, sizeof(path), "/proc/%d/stat", (int)pid);
    fd = open(path, O_RDONLY);
    if (fd < 0) return -1;
    r = (int)read(fd, buf, sizeof(buf) - 1);
    close(fd);
    if (r <= 0) return -1;
    buf[r] = 0;
    p = strrchr(buf, ')');              /* the command name may contain spaces */
    if (p == NULL) return -1;
    p++;
    for (k = 0; k < 11 && p != NULL; k++) p = strchr(p + 1, ' ');    /* fields 3..13 */
    if (p == NULL || sscanf(p, " %lu %lu", &ut, &stt) != 2) return -1;
    return (double)(ut + stt) / (double)sysconf(_SC_CLK_TCK);
}
static pid_t hang_pid[MAXW], hang_killed[MAXW];
static uint64_t hang_nops[MAXW];
static int64_t hang_case[MAXW];
static double hang_cpu0[MAXW], hang_scan;
static int hang_deaths;

int vrt_main(int argc, char **argv, const struct vrt_harness *h)
{
    int W = h->workers > 0 ? h->workers : 16, i, alive = 0, deaths = 0, inconclusive = 0;
    const char *out = NULL;
    int64_t only_case = -1;
    uint64_t max_cases = 0;
    double watchdog = 1800, t0 = now_s();
    FILE *f;
    const char *tier = "quick";
    char inconc_msg[256] = "";

    H = h;
    for (i = 1; i < argc; i++) {
        const char *a = argv[i];
        const char *v = i + 1 < argc ? argv[i + 1] : NULL;
        if (!strcmp(a, "--tier") && v) { tier = v; vrt_thorough = !strcmp(v, "thorough"); i++; }
        else if (!strcmp(a, "--seed") && v) { vrt_seed = strtoull(v, NULL, 0); i++; }
        else if (!strcmp(a, "--workers") && v) { W = atoi(v); i++; }
        else if (!strcmp(a, "--out") && v) { out = v; i++; }
        else if (!strcmp(a, "--dir") && v) { outdir = v; i++; }
        else if (!strcmp(a, "--config") && v) { vrt_config = v; i++; }
        else if (!strcmp(a, "--mode") && v) { vrt_mode = v; i++; }
        else if (!strcmp(a, "--case") && v) { only_case = strtoll(v, NULL, 0); i++; }
        else if (!strcmp(a, "--verbose")) { vrt_verbose = 1; }
        else if (!strcmp(a, "--watchdog") && v) { watchdog = atof(v); i++; }
        else if (!strcmp(a, "--max-cases") && v) { max_cases = strtoull(v, NULL, 0); i++; }
        else { usage(); return 2; }
    }
    if (W < 1) W = 1;
    if (W > MAXW) W = MAXW;
    if (only_case >= 0) W = 1;
    mkdir(outdir, 0755);

    G = mmap(NULL, sizeof(*G), PROT_READ | PROT_WRITE, MAP_SHARED | MAP_ANONYMOUS, -1, 0);
    if (G == MAP_FAILED) { perror("mmap"); return 2; }
    viols = xmap(sizeof(*viols) * SVIOL_MAX);
    for (i = 0; i < MAXW; i++) G->slot[i].cur_case = -1;

    /* ncases may depend on tier/mode/seed; evaluate in the parent with a dummy slot */
    S = &G->slot[MAXW - 1];
    vrt_ctr = S->ctr;
    G->ncases = h->ncases();
    S->nctr = 0;
    S = NULL;
    if (max_cases && G->ncases > max_cases) G->ncases = max_cases;

    if (only_case >= 0) {
        /* replay: run in a child so that a crash is still reported */
        pid_t pid;
        int st;
        fflush(NULL);
        pid = fork();
        if (pid == 0) { worker_main(0, only_case); VRT_GCOV_DUMP(); _exit(0); }
        waitpid(pid, &st, 0);
        if (!G->slot[0].finished) {
            fprintf(stderr, "replay: worker died (status 0x%x) in entry %s\n", st,
                    G->slot[0].entry ? G->slot[0].entry : "?");
            return 1;
        }
        for (i = 0; i < G->slot[0].nviol; i++)
            fprintf(stderr, "replay: violation key=%s: %s\n", G->slot[0].viol[i].key, G->slot[0].viol[i].msg);
        return G->slot[0].nviol ? 1 : 0;
    }

    fflush(NULL);
    for (i = 0; i < W; i++) {
        pid_t pid = fork();
        if (pid < 0) { perror("fork"); return 2; }
        if (pid == 0) { worker_main(i, -1); VRT_GCOV_DUMP(); _exit(0); }
        G->slot[i].pid = pid;
        alive++;
    }
    while (alive > 0) {
        int st;
        pid_t pid = waitpid(-1, &st, WNOHANG);
        if (pid == 0) {
            struct timespec ts = { 0, 5000000 };
            /* supervisor-side CPU-time hang detector: the in-worker one relies on SIGVTALRM reaching a thread that
             * runs its handler, which TSan defers forever in a worker whose main thread sits in pthread_join while
             * another thread spins.  Same measure: CPU time consumed (utime+stime of the worker, all threads) with
             * no new operation started; 240 s here, so the in-worker detector (120 s) wins where it works. */
            if (now_s() - hang_scan > 5 && strcmp(vrt_config, "rel-plain") != 0 && getenv("VERIF_NO_HANG_DETECTOR") == NULL) {
                hang_scan = now_s();
                for (i = 0; i < W; i++) if (G->slot[i].pid > 0 && G->slot[i].cur_case >= 0) {
                    const double cpu = proc_cpu_s(G->slot[i].pid);
                    if (cpu < 0) continue;
                    if (hang_pid[i] != G->slot[i].pid || hang_nops[i] != G->slot[i].nops || hang_case[i] != G->slot[i].cur_case) {
                        hang_pid[i] = G->slot[i].pid; hang_nops[i] = G->slot[i].nops; hang_case[i] = G->slot[i].cur_case; hang_cpu0[i] = cpu;
                    } else if (cpu - hang_cpu0[i] > 240) {
                        fprintf(stderr, "hang: worker %d used %.0f s of CPU in case %lld entry %s without starting a new operation; killed\n",
                                i, cpu - hang_cpu0[i], (long long)G->slot[i].cur_case, G->slot[i].entry ? G->slot[i].entry : "?");
                        hang_killed[i] = G->slot[i].pid;
                        kill(G->slot[i].pid, SIGKILL);
                    }
                }
            }
            if (now_s() - t0 > watchdog) {
                inconclusive = 1;
                snprintf(inconc_msg, sizeof(inconc_msg), "watchdog (%.0f s) fired; workers killed", watchdog);
                G->stop = 1;
                for (i = 0; i < W; i++) if (G->slot[i].pid > 0) {
                    fprintf(stderr, "watchdog: worker %d in case %lld entry %s\n", i,
                            (long long)G->slot[i].cur_case, G->slot[i].entry ? G->slot[i].entry : "?");
                    kill(G->slot[i].pid, SIGKILL);
                }
                while (waitpid(-1, &st, 0) > 0) ;
                break;
            }
            nanosleep(&ts, NULL);
            continue;
        }
        if (pid < 0) break;
        for (i = 0; i < W; i++) if (G->slot[i].pid == pid) break;
        if (i == W) continue;
        alive--;
        G->slot[i].pid = 0;
        if (WIFEXITED(st) && WEXITSTATUS(st) == 77) {
            inconclusive = 1;
            snprintf(inconc_msg, sizeof(inconc_msg), "worker %d declared case %lld inconclusive (see its .err file / stderr)",
                     i, (long long)G->slot[i].cur_case);
            G->slot[i].finished = 1;
            if (!G->stop && G->next_case < G->ncases) {
                pid_t np;
                G->slot[i].gen++; G->slot[i].cur_case = -1; G->slot[i].finished = 0;
                fflush(NULL);
                np = fork();
                if (np == 0) { worker_main(i, -1); VRT_GCOV_DUMP(); _exit(0); }
                if (np > 0) { G->slot[i].pid = np; alive++; }
            }
        } else if (!G->slot[i].finished || WIFSIGNALED(st) || (WIFEXITED(st) && WEXITSTATUS(st) != 0)) {
            /* abnormal death (or a tool such as memcheck/TSan turning the exit status non-zero after
             * the worker finished): build a violation from the progress page */
            const int was_finished = G->slot[i].finished;
            struct slot *s = &G->slot[i];
            struct viol *v = xmap(sizeof(*v));
            char path[512], *errtxt = xmap(65536), kind[96];
            deaths++;
            snprintf(path, sizeof(path), "%s/w%d.%d.err", outdir, i, s->gen);
            read_head(path, errtxt, 65536);
            classify_death(st, errtxt, kind, sizeof(kind));
            if (hang_killed[i] == pid) snprintf(kind, sizeof(kind), "hang.cpu-120s-in-one-call");
            /* every hang costs minutes: after the second one the verdict is clear, hand out no more cases */
            if (strncmp(kind, "hang.", 5) == 0 && ++hang_deaths >= 2) G->stop = 1;
            if (was_finished)
                /* the cases completed; a tool (memcheck --error-exitcode, TSan) made the exit status non-zero:
                 * its report is on the harness's stderr, the entry point is not known */
                snprintf(v->key, sizeof(v->key), "crash.tool-error-reported-at-exit.%s", kind);
            else
                snprintf(v->key, sizeof(v->key), "crash.%s.%s.%s", kind,
                         s->entry ? s->entry : "none", s->state ? s->state : "any");
            sanitize_key(v->key);
            snprintf(v->msg, sizeof(v->msg), "worker died (%s, wait status 0x%x) during case %lld op %llu",
                     kind, st, (long long)s->cur_case, (unsigned long long)s->nops);
            snprintf(v->note, sizeof(v->note), "%s", s->note);
            v->caseidx = s->cur_case; v->opidx = s->nops;
            fmt_trace(v->trace, sizeof(v->trace), s, 0);
            add_sviol(v, errtxt);
            munmap(v, sizeof(*v)); munmap(errtxt, 65536);
            s->cases_failed++;
            /* respawn into the same slot if work remains */
            if (!was_finished && deaths < 48 && !G->stop && G->next_case < G->ncases) {
                pid_t np;
                s->gen++;
                s->cur_case = -1;
                s->finished = 0;
                fflush(NULL);
                np = fork();
                if (np == 0) { worker_main(i, -1); VRT_GCOV_DUMP(); _exit(0); }
                if (np > 0) { s->pid = np; alive++; }
            }
        }
    }

    /* harvest in-process violations */
    for (i = 0; i < W; i++) {
        int k;
        for (k = 0; k < G->slot[i].nviol; k++) add_sviol(&G->slot[i].viol[k], NULL);
    }

    /* merge counters */
    {
        static char names[NCTR * 2][64];
        static uint64_t vals[NCTR * 2];
        static unsigned char ismax[NCTR * 2];
        int nn = 0, k, j;
        uint64_t done = 0, failed = 0;
        uint64_t distinct[VRT_NSETS];
        char setname[VRT_NSETS][48];
        const char *missing[64];
        int nmissing = 0;

        for (i = 0; i < W; i++) {
            struct slot *s = &G->slot[i];
            done += s->cases_done; failed += s->cases_failed;
            for (k = 0; k < s->nctr; k++) {
                for (j = 0; j < nn; j++) if (!strcmp(names[j], s->ctrname[k])) break;
                if (j == nn) {
                    if (nn >= NCTR * 2) continue;
                    snprintf(names[nn], 64, "%s", s->ctrname[k]); vals[nn] = 0; ismax[nn] = 0; nn++;
                }
                if (s->ctrmax[k] || !strncmp(s->ctrname[k], "max.", 4)) {
                    ismax[j] = 1;
                    if (s->ctr[k] > vals[j]) vals[j] = s->ctr[k];
                } else vals[j] += s->ctr[k];
            }
        }
        /* merge signature sets */
        for (k = 0; k < VRT_NSETS; k++) {
            uint64_t *all = NULL;
            size_t tot = 0, cap = 0;
            int g;
            distinct[k] = 0; setname[k][0] = 0;
            for (i = 0; i < W; i++) for (g = 0; g <= G->slot[i].gen; g++) {
                char path[512];
                struct stat sb;
                int fd;
                snprintf(path, sizeof(path), "%s/w%d.%d.sig%d", outdir, i, g, k);
                fd = open(path, O_RDONLY);
                if (fd < 0) continue;
                if (fstat(fd, &sb) == 0 && sb.st_size >= 48) {
                    size_t nb = sb.st_size - 48, off = 0;
                    char nm[48];
                    ssize_t r = read(fd, nm, 48);
                    (void)r;
                    nm[47] = 0;
                    if (nm[0]) snprintf(setname[k], 48, "%s", nm);
                    if (tot + nb / 8 > cap) {
                        size_t ncap = (tot + nb / 8) * 2 + 1024;
                        uint64_t *na = xmap(ncap * 8);
                        if (all) { memcpy(na, all, tot * 8); munmap(all, cap * 8); }
                        all = na; cap = ncap;
                    }
                    while (off < nb) {
                        r = read(fd, (char *)(all + tot) + off, nb - off);
                        if (r <= 0) break;
                        off += r;
                    }
                    tot += off / 8;
                }
                close(fd);
                unlink(path);
            }
            if (tot > 0) {
                size_t u = 1, x;
                qsort(all, tot, 8, cmp_u64);
                for (x = 1; x < tot; x++) if (all[x] != all[x - 1]) u++;
                distinct[k] = u;
            }
            if (all) munmap(all, cap * 8);
        }
        /* required counters */
        if (h->required) {
            const char *const *r;
            for (r = h->required; *r; r++) {
                for (j = 0; j < nn; j++) if (!strcmp(names[j], *r) && vals[j] > 0) break;
                if (j == nn && nmissing < 64) missing[nmissing++] = *r;
            }
        }

        f = out ? fopen(out, "w") : stdout;
        if (f == NULL) { perror(out); return 2; }
        fprintf(f, "{\n \"harness\": "); jstr(f, h->name);
        fprintf(f, ",\n \"config\": "); jstr(f, vrt_config);
        fprintf(f, ",\n \"mode\": "); jstr(f, vrt_mode);
        fprintf(f, ",\n \"tier\": "); jstr(f, tier);
        fprintf(f, ",\n \"seed\": %llu", (unsigned long long)vrt_seed);
        fprintf(f, ",\n \"workers\": %d", W);
        fprintf(f, ",\n \"ncases\": %llu", (unsigned long long)G->ncases);
        fprintf(f, ",\n \"cases_done\": %llu", (unsigned long long)done);
        fprintf(f, ",\n \"cases_failed\": %llu", (unsigned long long)failed);
        fprintf(f, ",\n \"worker_deaths\": %d", deaths);
        fprintf(f, ",\n \"wall_s\": %.3f", now_s() - t0);
        fprintf(f, ",\n \"inconclusive\": %s", inconclusive ? "true" : "false");
        fprintf(f, ",\n \"inconclusive_msg\": "); jstr(f, inconc_msg);
        fprintf(f, ",\n \"counters\": {");
        for (j = 0; j < nn; j++) {
            fprintf(f, "%s\n  ", j ? "," : ""); jstr(f, names[j]);
            fprintf(f, ": %llu", (unsigned long long)vals[j]);
        }
        fprintf(f, "\n },\n \"distinct\": {");
        {
            int first = 1;
            for (k = 0; k < VRT_NSETS; k++) {
                char nm[64];
                if (distinct[k] == 0 && setname[k][0] == 0 && k != 0) continue;
                if (setname[k][0]) snprintf(nm, sizeof(nm), "%s", setname[k]);
                else snprintf(nm, sizeof(nm), "set%d", k);
                fprintf(f, "%s\n  ", first ? "" : ","); jstr(f, nm);
                fprintf(f, ": %llu", (unsigned long long)distinct[k]);
                first = 0;
            }
        }
        fprintf(f, "\n },\n \"distinct_nontrivial\": %llu", (unsigned long long)distinct[0]);
        fprintf(f, ",\n \"required_missing\": [");
        for (j = 0; j < nmissing; j++) { fprintf(f, "%s", j ? ", " : ""); jstr(f, missing[j]); }
        fprintf(f, "],\n \"samples\": [");
        {
            int first = 1;
            for (i = 0; i < W; i++) for (k = 0; k < G->slot[i].nsamples && k < NSAMPLE; k++) {
                if (!first && i >= 3) continue;       /* a handful is enough */
                fprintf(f, "%s\n  ", first ? "" : ","); jstr(f, G->slot[i].sample[k]);
                first = 0;
            }
        }
        fprintf(f, "\n ],\n \"violations\": [");
        for (j = 0; j < nviols; j++) {
            fprintf(f, "%s\n  {\"key\": ", j ? "," : ""); jstr(f, viols[j].v.key);
            fprintf(f, ", \"msg\": "); jstr(f, viols[j].v.msg);
            fprintf(f, ", \"case\": %lld, \"op\": %llu", (long long)viols[j].v.caseidx,
                    (unsigned long long)viols[j].v.opidx);
            fprintf(f, ", \"note\": "); jstr(f, viols[j].v.note);
            fprintf(f, ", \"trace\": "); jstr(f, viols[j].v.trace);
            fprintf(f, ", \"stderr\": "); jstr(f, viols[j].stderr_head);
            fprintf(f, "}");
        }
        fprintf(f, "\n ]\n}\n");
        if (out) fclose(f);
        if (nmissing > 0 && nviols == 0 && !inconclusive) {
            fprintf(stderr, "%s: required observation never made: %s\n", h->name, missing[0]);
            return 2;
        }
    }
    if (inconclusive) return 2;
    return nviols ? 1 : 0;
}
