#define _GNU_SOURCE
#include "explore.h"
#include <string.h>
#include <sys/mman.h>
#include <unistd.h>

/* prefix arena: each entry = parent index + op; prefix rebuilt by walking up */
struct node { uint32_t parent; uint32_t op; uint16_t depth; };

static void *xmap(size_t n)
{
    void *p = mmap(NULL, n, PROT_READ | PROT_WRITE, MAP_PRIVATE | MAP_ANONYMOUS | MAP_NORESERVE, -1, 0);
    if (p == MAP_FAILED) { vrt_log("explore: mmap failed\n"); _exit(97); }
    return p;
}

/* visited set of 64-bit signatures */
struct set { uint64_t *t; size_t cap, n; };
static int set_add(struct set *s, uint64_t v)
{
    size_t i;
    if (v == 0) v = 1;
    if (s->n * 2 >= s->cap) {
        size_t ncap = s->cap ? s->cap * 2 : 1 << 14, j;
        uint64_t *nt = xmap(ncap * 8);
        for (j = 0; j < s->cap; j++) if (s->t[j]) {
            size_t k = (s->t[j] * 0x9e3779b97f4a7c15ull) >> 18 & (ncap - 1);
            while (nt[k]) k = (k + 1) & (ncap - 1);
            nt[k] = s->t[j];
        }
        if (s->t) munmap(s->t, s->cap * 8);
        s->t = nt; s->cap = ncap;
    }
    i = (v * 0x9e3779b97f4a7c15ull) >> 18 & (s->cap - 1);
    while (s->t[i]) { if (s->t[i] == v) return 0; i = (i + 1) & (s->cap - 1); }
    s->t[i] = v; s->n++;
    return 1;
}

static int build_prefix(const struct node *nodes, uint32_t idx, uint32_t *ops, int max)
{
    int d = nodes[idx].depth, k = d;
    if (d > max) return -1;
    while (idx != 0) { ops[--k] = nodes[idx].op; idx = nodes[idx].parent; }
    return d;
}

void vex_closure(const struct vex *m, int scope,
                 const uint32_t *alphabet, int nalpha,
                 uint64_t max_states, int max_depth,
                 struct vex_result *out)
{
    struct set seen = { 0, 0, 0 };
    size_t ncap = max_states + 2;
    struct node *nodes = xmap(ncap * sizeof(*nodes));
    uint32_t head = 0, tail = 0;
    uint32_t ops[256];
    int i, a;

    memset(out, 0, sizeof(*out));
    if (max_depth > 250) max_depth = 250;

    /* initial state */
    m->create(scope);
    set_add(&seen, m->sig());
    if (m->nontrivial == NULL || m->nontrivial()) vrt_sig(0, vrt_mix(m->sig(), scope));
    m->destroy();
    nodes[0].parent = 0; nodes[0].op = 0; nodes[0].depth = 0;
    tail = 1;
    out->states = 1;
    out->closed = 1;
    for (i = 0; i < m->nprobes; i++) {
        m->create(scope);
        m->probe(i);
        m->destroy();
        out->probes++;
    }

    while (head < tail) {
        const uint32_t cur = head++;
        const int d = build_prefix(nodes, cur, ops, 250);
        if (d >= max_depth) { out->closed = 0; continue; }
        for (a = 0; a < nalpha; a++) {
            uint64_t sg;
            int ok;
            vrt_trace_reset();
            m->create(scope);
            for (i = 0; i < d; i++) {
                if (!m->apply(ops[i], 0)) {
                    vrt_fail("harness.explore.replay-diverged",
                             "prefix op %d (0x%x) not applicable on replay: harness is not deterministic", i, ops[i]);
                }
            }
            out->applied += d;
            ok = m->apply(alphabet[a], 1);
            if (ok) {
                out->transitions++;
                sg = m->sig();
                if (set_add(&seen, sg)) {
                    if (m->nontrivial == NULL || m->nontrivial()) vrt_sig(0, vrt_mix(sg, scope));
                    if (out->states >= max_states) {
                        out->closed = 0;
                    } else {
                        nodes[tail].parent = cur;
                        nodes[tail].op = alphabet[a];
                        nodes[tail].depth = (uint16_t)(d + 1);
                        tail++;
                        out->states++;
                        if ((uint64_t)(d + 1) > out->maxdepth) out->maxdepth = d + 1;
                        /* probes on replicas of the new state */
                        if (m->nprobes > 0) {
                            int pi;
                            m->destroy();
                            for (pi = 0; pi < m->nprobes; pi++) {
                                vrt_trace_reset();
                                m->create(scope);
                                for (i = 0; i < d; i++) m->apply(ops[i], 0);
                                m->apply(alphabet[a], 0);
                                m->probe(pi);
                                m->destroy();
                                out->probes++;
                            }
                            continue;
                        }
                    }
                }
            }
            m->destroy();
        }
    }
    if (seen.t) munmap(seen.t, seen.cap * 8);
    munmap(nodes, ncap * sizeof(*nodes));
}
