/*
 * explore -- workload generators shared by the container harnesses
 * (DESIGN.md section 2.3): closure over reachable states of a small scope
 * (every operation of an alphabet applied in every reachable state, each
 * transition a real execution observed by the harness's monitors), which
 * with a depth cap doubles as the bounded-exhaustive sequence generator.
 */
#ifndef VEX_H
#define VEX_H
#include "vrt.h"

struct vex {
    /* build a fresh state for the scope (containers initialised, model empty) */
    void (*create)(int scope);
    /* release everything the state holds; must leave no live block */
    void (*destroy)(void);
    /* execute op on the current state with the monitors on.
     * returns 0 if op is not applicable in this state (nothing was executed),
     * 1 if it was executed.  audit != 0 asks for the full audit afterwards. */
    int (*apply)(uint32_t op, int audit);
    /* address-independent signature of the current state */
    uint64_t (*sig)(void);
    /* is the current state non-trivial for the coverage count? (may be NULL) */
    int (*nontrivial)(void);
    /* optional: probes run once in every newly discovered state, on a
     * replica (the engine rebuilds the state before each probe):
     * nprobes probes, probe(i) executes probe i and audits */
    int nprobes;
    void (*probe)(int i);
};

struct vex_result {
    uint64_t states, transitions, applied, maxdepth, probes;
    int closed;         /* 1: no operation in any state led to a new state */
};

void vex_closure(const struct vex *m, int scope,
                 const uint32_t *alphabet, int nalpha,
                 uint64_t max_states, int max_depth,
                 struct vex_result *out);

#endif
