/*
 * vrt -- runtime shared by all harnesses (see DESIGN.md section 2).
 *
 * A harness binary is its own supervisor: vrt_main() forks W workers which
 * pull case indices from a shared counter, run them with all monitors on and
 * report through a MAP_SHARED slot (progress, trace ring, counters,
 * violations, samples).  The supervisor turns abnormal worker deaths into
 * keyed violations, merges everything and writes one JSON result file that
 * ./check consumes.
 *
 * Linking: every harness is linked with
 *   -Wl,--wrap=malloc,--wrap=calloc,--wrap=realloc,--wrap=free,--wrap=abort
 * so that the library's allocator calls and deliberate aborts are observed.
 * Harness code itself must use vrt_alloc()/vrt_free() (=> __real_*).
 */
#ifndef VRT_H
#define VRT_H

#include <stddef.h>
#include <stdint.h>
#include <setjmp.h>
#include <stdarg.h>

/* ---------- PRNG (xoshiro256**) ---------- */
typedef struct { uint64_t s[4]; } vrt_rng;
void vrt_rng_seed(vrt_rng *r, uint64_t a, uint64_t b);
uint64_t vrt_next(vrt_rng *r);
static inline uint32_t vrt_below(vrt_rng *r, uint32_t n)
{
    /* n >= 1; multiply-shift, bias negligible for our n */
    return (uint32_t)(((vrt_next(r) >> 32) * (uint64_t)n) >> 32);
}
static inline int vrt_chance(vrt_rng *r, uint32_t num, uint32_t den)
{
    return vrt_below(r, den) < num;
}
uint64_t vrt_mix(uint64_t h, uint64_t v);       /* hash combine */
/* a comparison result of the given sign (-1/0/+1) whose magnitude is unrelated to the keys and sits on the
 * edges of the narrower integer types (only the sign of a comparator's result is specified) */
static inline int vrt_cmp_result(int sgn, unsigned salt)
{
    static const int mag[16] = { 1, 2, 127, 128, 255, 256, 512, 0x7fff, 0x8000, 0xffff, 0x10000, 0x30000,
                                 0x1000000, 0x40000000, 0x7fffff00, 0x7fffffff };
    const int m = mag[(salt ^ (salt >> 4) ^ (salt >> 9)) & 15];
    if (sgn == 0) return 0;
    if (sgn > 0) return m;
    return m == 0x7fffffff && (salt & 0x10000) ? (-0x7fffffff - 1) : -m;
}

/* a non-zero visitor result ("stop") drawn from values that code is tempted to treat specially: +-1, +-2 (private
 * "skip"/"prune" codes of a walker), values that vanish in a 1-bit, 8-bit or 16-bit field, even values, the ends of int.
 * Any non-zero value means stop/accept and must be handed back unchanged. */
static inline int vrt_stop_value(unsigned salt)
{
    static const int v[32] = { -1, 1, 2, -2, 3, -3, 4, 8, -8, 16, 64, 127, 128, -128, -129, 255, 256, -256, 512, 0x7fff, 0x8000, -0x8000,
                               0xffff, 0x10000, -0x10000, 0x1000000, 0x40000000, 0x7ffffffe, 0x7fffffff, -0x7fffffff, -0x7fffffff - 1, 0x55aa00 };
    return v[(salt ^ (salt >> 5) ^ (salt >> 11)) & 31];
}

/* a counter that starts at 0 with every case (so a case stays a pure function of its index): salt for vrt_stop_value etc. */
unsigned vrt_case_tick(void);

/* ---------- run parameters (valid in workers) ---------- */
extern uint64_t vrt_seed;
extern int vrt_thorough;        /* 0 quick, 1 thorough */
extern int vrt_verbose;         /* replay mode: print ops as they happen */
extern const char *vrt_config;  /* build configuration name */
extern const char *vrt_mode;    /* optional harness-specific mode string */

/* ---------- harness definition ---------- */
struct vrt_harness {
    const char *name;
    /* number of cases for the current tier/mode */
    uint64_t (*ncases)(void);
    /* run one case; returns normally or leaves through vrt_fail() */
    void (*run_case)(uint64_t idx);
    /* optional: called once in every worker before its first case */
    void (*worker_init)(void);
    /* optional: called in every worker after its last case */
    void (*worker_fini)(void);
    /* optional: names of counters that must be non-zero for a valid run */
    const char *const *required;
    /* default number of workers (0 = 16) */
    int workers;
};
int vrt_main(int argc, char **argv, const struct vrt_harness *h);

/* ---------- progress / trace ---------- */
/* record one operation about to be executed: entry is the API entry point
 * (used in violation keys), fmt a printf format consuming up to 4 longs.
 * Both must be string literals (the supervisor formats them after a death). */
void vrt_op(const char *entry, const char *fmt, long a, long b, long c, long d);
#define VRT_OP0(e, f)             vrt_op(e, f, 0, 0, 0, 0)
#define VRT_OP1(e, f, a)          vrt_op(e, f, (long)(a), 0, 0, 0)
#define VRT_OP2(e, f, a, b)       vrt_op(e, f, (long)(a), (long)(b), 0, 0)
#define VRT_OP3(e, f, a, b, c)    vrt_op(e, f, (long)(a), (long)(b), (long)(c), 0)
#define VRT_OP4(e, f, a, b, c, d) vrt_op(e, f, (long)(a), (long)(b), (long)(c), (long)(d))
/* state class used in crash keys (string literal) */
void vrt_state(const char *cls);
/* forget the recorded ops of this case (a generator restarts from scratch) */
void vrt_trace_reset(void);
/* free-form parameters of the current case (copied) */
void vrt_case_note(const char *fmt, ...) __attribute__((format(printf, 1, 2)));

/* ---------- counters / coverage ---------- */
int vrt_counter_id(const char *name);
extern volatile uint64_t *vrt_ctr;      /* counter values of this worker */
#define VRT_COUNT_N(name, n) do { static int _vid = -1; \
        if (_vid < 0) _vid = vrt_counter_id(name);       \
        vrt_ctr[_vid] += (uint64_t)(n); } while (0)
#define VRT_COUNT(name) VRT_COUNT_N(name, 1)
#define VRT_MAX(name, v) do { static int _vid = -1;      \
        if (_vid < 0) _vid = vrt_counter_id(name);       \
        if ((uint64_t)(v) > vrt_ctr[_vid]) vrt_ctr[_vid] = (uint64_t)(v); } while (0)
/* dynamic name (slower) */
void vrt_count_dyn(const char *name, uint64_t n);
void vrt_max_dyn(const char *name, uint64_t v);

/* distinct-signature accounting: returns 1 if sig is new for this worker.
 * set 0 is "distinct non-trivial cases"; further sets are free for use and
 * are reported as distinct.<setname> */
int vrt_sig(int set, uint64_t sig);
void vrt_sig_name(int set, const char *name);
#define VRT_NSETS 6

/* ---------- violations ---------- */
extern sigjmp_buf vrt_case_jmp;
/* record a violation with a stable key and abandon the current case */
void vrt_fail(const char *key, const char *fmt, ...)
    __attribute__((format(printf, 2, 3), noreturn));
/* record without abandoning (used by multi-threaded harnesses at the end) */
void vrt_report(const char *key, const char *fmt, ...)
    __attribute__((format(printf, 2, 3)));
/* give up on the current run without a verdict (supervisor exits 2) */
void vrt_inconclusive(const char *fmt, ...) __attribute__((format(printf, 1, 2), noreturn));
#define VRT_CHECK(cond, key, ...) do { if (!(cond)) vrt_fail(key, __VA_ARGS__); } while (0)

/* ---------- expected aborts ---------- */
extern sigjmp_buf vrt_abort_jmp;
extern volatile int vrt_abort_armed;
extern volatile uint64_t vrt_aborts_seen;
/* evaluates to 1 if stmt called the library's abort(), 0 if it returned */
#define VRT_ABORTS(stmt) __extension__({ volatile int _ab;       \
        if (sigsetjmp(vrt_abort_jmp, 0) == 0) {                  \
            vrt_abort_armed = 1; { stmt; } vrt_abort_armed = 0;  \
            _ab = 0;                                             \
        } else { vrt_abort_armed = 0; _ab = 1; }                 \
        _ab; })

/* ---------- allocator interposition ---------- */
void *vrt_alloc(size_t n);              /* harness-private, never fails */
void *vrt_zalloc(size_t n);
void vrt_free(void *p);

struct vrt_aev {
    char kind;          /* 'm' malloc, 'c' calloc, 'r' realloc, 'f' free */
    char failed;        /* request refused (failpoint / cap / real failure) */
    void *p;            /* malloc: result; free: arg; realloc: old pointer */
    void *q;            /* realloc: result */
    size_t sz;          /* requested size */
};
void vrt_ev_begin(void);                /* clear the per-call event log */
int vrt_ev_n(void);                     /* events since vrt_ev_begin (<= VRT_EV_MAX kept) */
const struct vrt_aev *vrt_ev(int i);
#define VRT_EV_MAX 64
uint64_t vrt_ev_fired(void);            /* failpoints fired since vrt_ev_begin */
uint64_t vrt_ev_refused(void);          /* over-cap / unrepresentable requests refused */
size_t vrt_lib_live(void);              /* live blocks allocated by library code */
size_t vrt_lib_live_bytes(void);
/* find the live library block containing p; returns base or NULL */
void *vrt_lib_block(const void *p, size_t *size);
/* harness takes over / gives a block (e.g. after unique_ptr_release) */
void vrt_lib_free_block(void *p);       /* free a live library block from harness code */
void vrt_lib_forget_all(void);          /* drop the table (after an abandoned case) */
#define VRT_ALLOC_CAP ((size_t)64 << 20)
extern size_t vrt_alloc_cap;            /* requests above this are refused */

/* failpoints: allocation requests (malloc/calloc/realloc with size > 0) made
 * by library code are numbered from 0 after vrt_fp_arm(); request k fails iff
 * bit k of mask is set (k >= nbits: fails iff tail != 0). */
void vrt_fp_arm(const uint8_t *mask, size_t nbits, int tail);
void vrt_fp_disarm(void);
uint64_t vrt_fp_ordinal(void);          /* requests seen since arm */
/* run stmt while EVERY allocation request of the library is refused: an operation that has no documented way to fail
 * (clear, erase, pop, traversal, ...) must do its whole job without memory; if an implementation starts to allocate
 * scratch space there, the refusal is the worst case it has to survive */
#define VRT_NOMEM(stmt) do { vrt_fp_arm(NULL, 0, 1); { stmt; } \
        if (vrt_fp_ordinal() > 0) VRT_COUNT("nomem.requests-refused"); vrt_fp_disarm(); VRT_COUNT("nomem.calls"); } while (0)
/* optional hook called on every library allocator call (C06 schedule points) */
extern void (*vrt_alloc_hook)(int kind, void *p);
/* optional: called by vrt_fail() after recording, before leaving the case */
extern void (*vrt_fail_hook)(void);
void vrt_lib_release_big(size_t min_bytes);   /* free every live library block >= min_bytes (abandoned huge cases) */

/* misc */
void vrt_set_mt(int on);               /* allocator table locking for threaded harnesses */
void vrt_log(const char *fmt, ...) __attribute__((format(printf, 1, 2)));  /* unbuffered stderr */
int vrt_worker_index(void);

#endif
